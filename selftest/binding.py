#!/usr/bin/env python3
"""binding.py : demonstrates that the trace specifications are bound to what is recorded.
For each trace specification a few executions of the UNCHANGED code are recorded and validated (accepted), then one
recorded field is corrupted at a time (a return value, the contents published by a commit, a dropped event, a counter)
and the same specification must reject the corrupted trace.  Prints one line per (spec, corruption); exit 1 when a
corruption is accepted (the binding would be vacuous there)."""
import copy, os, random, sys
sys.path.insert(0, os.path.dirname(os.path.dirname(os.path.abspath(__file__))))
os.environ.setdefault('VERIF_EVIDENCE', '/dev/shm/verif-binding-evidence')
from harness import common, seqdriver, concdriver, sched, gen, dequedriver, indexdriver, fanoutdriver, djangodriver, recipedriver
from harness.common import validate_all
from harness.checks.conc import op, KA, KB, base_cfg, F1, F2

FAIL = []


def judge(spec, cfgfile, fields, traces, label, expect_ok):
    common.TRACE_FIELDS = fields
    if not traces:
        print('%-18s %-58s %s' % (spec, label, 'UNEXPECTED: the corruption applied to no recorded trace'))
        FAIL.append((spec, label))
        return
    for i, t in enumerate(traces):
        t['id'] = i + 1
    v, _, _ = validate_all(spec, cfgfile, traces, batch_events=20000)
    oks = [v[t['id']]['ok'] for t in traces]
    good = all(oks) if expect_ok else not any(oks)
    print('%-18s %-58s %s' % (spec, label, 'ok' if good else 'UNEXPECTED: ' + str([v[t['id']] for t in traces if v[t['id']]['ok'] != expect_ok][:1])[:300]))
    if not good:
        FAIL.append((spec, label))


def corrupt(traces, fn):
    out = []
    for t in traces:
        t2 = copy.deepcopy(t)
        if fn(t2):
            out.append(t2)
    return out


def flip_ret(t, which=lambda e: True):
    for e in t['ev']:
        r = e.get('ret')
        if isinstance(r, dict) and which(e) and r.get('k') in ('val', 'int', 'true', 'false', 'miss', 'none', 'item'):
            if r['k'] in ('val', 'int') and r['v'] and isinstance(r['v'][0], int):
                r['v'][0] += 1
            elif r['k'] == 'true':
                r['k'] = 'false'
            elif r['k'] == 'false':
                r['k'] = 'true'
            elif r['k'] == 'miss':
                r['k'], r['v'] = 'val', [7]
            else:
                continue
            return True
    return False


def main():
    rng = random.Random(5)
    # --- sequential reference dictionary (C03 C04 C09 C10 C18)
    keys, vals = gen.key_universe(6, rng), gen.val_universe(rng)
    tr = [seqdriver.run_history(gen.random_cfg(rng, small_limit=False), gen.random_history(rng, 60, keys, vals, dict(clear=0.1)), 1, 1) for _ in range(3)]
    F = common.TRACE_FIELDS
    judge('CacheSeqTrace.tla', 'CacheSeqTrace.cfg', F, copy.deepcopy(tr), 'recorded histories', True)
    judge('CacheSeqTrace.tla', 'CacheSeqTrace.cfg', F, corrupt(tr, flip_ret), 'one return value altered', False)

    def drop_row(t):
        for e in t['ev']:
            if e.get('rows'):
                e['rows'] = e['rows'][1:]
                return True
        return False
    judge('CacheSeqTrace.tla', 'CacheSeqTrace.cfg', F, corrupt(tr, drop_row), 'one stored item missing from the recorded contents', False)

    def bump_ctr(t):
        for e in t['ev']:
            if e.get('ctr'):
                e['ctr'][0] += 1
                return True
        return False
    judge('CacheSeqTrace.tla', 'CacheSeqTrace.cfg', F, corrupt(tr, bump_ctr), 'item counter off by one', False)
    # --- concurrency monitor (C05 C06 C08 C10 C14)
    progs = [{1: [op('incr', k=KA, d=1, df=[0])], 2: [op('incr', k=KA, d=2, df=[0]), op('get', k=KA, fx=0, ft=0, mk='miss')]},
             {1: [op('set', k=KA, v=F1, ttl=[], tag=0)], 2: [op('pop', k=KA, fx=0, ft=0)]},
             {1: [op('txbegin'), op('set', k=KB, v=F2, ttl=[], tag=0), op('incr', k=KA, d=1, df=[0]), op('txend')], 2: [op('get', k=KB, fx=0, ft=0, mk='miss')]}]
    ctr = [concdriver.run_program(base_cfg(rng, False, 'inline'), p, sched.random_strategy(random.Random(i), 0.5), i, i + 1) for i, p in enumerate(progs)]
    MF = ('id', 'nc', 'init', 'ev')
    judge('MonitorTrace.tla', 'MonitorTrace.cfg', MF, copy.deepcopy(ctr), 'recorded schedules', True)
    judge('MonitorTrace.tla', 'MonitorTrace.cfg', MF, corrupt(ctr, lambda t: flip_ret(t, lambda e: e['ev'] == 'ret')), 'one return value altered', False)

    def drop_commit(t):
        for i, e in enumerate(t['ev']):
            if e['ev'] == 'commit':
                del t['ev'][i]
                return True
        return False
    judge('MonitorTrace.tla', 'MonitorTrace.cfg', MF, corrupt(ctr, drop_commit), 'one COMMIT event removed', False)

    def stale_commit(t):
        commits = [e for e in t['ev'] if e['ev'] == 'commit']
        if len(commits) >= 2 and commits[0]['rows'] != commits[1]['rows']:
            commits[1]['rows'], commits[1]['ctr'] = commits[0]['rows'], commits[0]['ctr']
            return True
        return False
    judge('MonitorTrace.tla', 'MonitorTrace.cfg', MF, corrupt(ctr, stale_commit), 'second COMMIT publishes the first one\'s contents (lost update)', False)

    def drop_fclose(t):
        for i, e in enumerate(t['ev']):
            if e['ev'] == 'fclose':
                del t['ev'][i]
                return True
        return False
    judge('MonitorTrace.tla', 'MonitorTrace.cfg', MF, corrupt(ctr, drop_fclose), 'value file never completed before its row commits', False)
    # --- free-running processes, linearizability (C05)
    from harness import freerun
    ftr = [freerun.run_free({'inherit': i % 2}, [op('set', k=KA, v=1, ttl=[], tag=0)],
                            {1: [op('incr', k=KA, d=1, df=[0]), op('get', k=KA, fx=0, ft=0, mk='miss')], 2: [op('incr', k=KA, d=1, df=[0]), op('pop', k=KA, fx=0, ft=0)]}, i, i + 1)
           for i in range(3)]
    judge('LinTrace.tla', 'LinTrace.cfg', MF, copy.deepcopy(ftr), 'recorded multi-process histories', True)
    judge('LinTrace.tla', 'LinTrace.cfg', MF, corrupt(ftr, lambda t: flip_ret(t, lambda e: e['ev'] == 'ret' and e['ret']['k'] == 'int')), 'one incr result altered (a lost update)', False)

    def swap_final(t):
        t['ev'][-1]['pairs'] = t['ev'][-1]['pairs'] + [[[1, 120], 9]]
        return True
    judge('LinTrace.tla', 'LinTrace.cfg', MF, corrupt(ftr, swap_final), 'final contents hold an item nobody stored', False)
    # --- Deque / Index
    dtr = [dequedriver.run_seq(dequedriver.random_ops(rng, 40, 3), 3, seed=i, tid=i + 1) for i in range(2)]
    DF = ('id', 'nc', 'init', 'ev', 'kind')
    judge('DequeTrace.tla', 'DequeTrace.cfg', DF, copy.deepcopy(dtr), 'recorded histories', True)
    judge('DequeTrace.tla', 'DequeTrace.cfg', DF, corrupt(dtr, flip_ret), 'one return value altered', False)

    def drop_item(t):
        for e in t['ev']:
            if e.get('items'):
                e['items'] = e['items'][:-1]
                return True
        return False
    judge('DequeTrace.tla', 'DequeTrace.cfg', DF, corrupt(dtr, drop_item), 'last element missing from the recorded contents', False)
    itr = [indexdriver.run_seq(indexdriver.random_ops(rng, 40), seed=i, tid=i + 1) for i in range(2)]
    judge('IndexTrace.tla', 'IndexTrace.cfg', DF, copy.deepcopy(itr), 'recorded histories', True)
    judge('IndexTrace.tla', 'IndexTrace.cfg', DF, corrupt(itr, flip_ret), 'one return value altered', False)

    def swap_pairs(t):
        for e in t['ev']:
            if len(e.get('pairs', [])) >= 2:
                e['pairs'][0], e['pairs'][1] = e['pairs'][1], e['pairs'][0]
                return True
        return False
    judge('IndexTrace.tla', 'IndexTrace.cfg', DF, corrupt(itr, swap_pairs), 'two items recorded in the other order', False)
    # --- throttle / Averager
    thr = [recipedriver.run_throttle({'count': 2, 'seconds': 1, 'q': 4}, {1: [0, 0, 0, 0], 2: [1, 0, 0]}, sched.random_strategy(random.Random(3), 0.5), 3, 1)]
    RF = ('id', 'nc', 'kind', 'ev', 'count', 'secq', 'q', 'calls', 'starts', 'starts_hi', 'seconds')
    judge('RecipesTrace.tla', 'RecipesTrace.cfg', RF, copy.deepcopy(thr), 'recorded throttle run', True)

    def early_start(t):
        t['starts'][-1] = t['starts'][0]
        t['starts_hi'][-1] = t['starts_hi'][0]
        t['starts'].sort(); t['starts_hi'].sort()
        return True
    judge('RecipesTrace.tla', 'RecipesTrace.cfg', RF, corrupt(thr, early_start), 'last start moved to time 0 (rate exceeded)', False)

    def wrong_tally(t):
        for e in t['ev']:
            if e['ev'] == 'pass' and e['act'] == 'start':
                e['wtally'] += 900
                return True
        return False
    judge('RecipesTrace.tla', 'RecipesTrace.cfg', RF, corrupt(thr, wrong_tally), 'a pass stores a tally that is not Throttle!Try', False)
    # ---- ShardCreate plans on the real FanoutCache
    from harness import killdriver, plans
    pl, _ = plans.tlc_plans('ShardCreatePlan.tla', 'ShardCreatePlan.cfg', timeout=300)
    random.Random(3).shuffle(pl)
    sc = [killdriver.run_shard_plan(p, 2, i + 1) for i, p in enumerate(pl[:12])]
    SF = ('id', 'ev')
    judge('ShardCreateTrace.tla', 'ShardCreateTrace.cfg', SF, copy.deepcopy(sc), 'unchanged (12 plans, each open forked and killed as planned)', True)

    def undivided(t):
        for e in t['ev']:
            if 'Dshare' in e['obs_stored']:
                e['obs_stored'][e['obs_stored'].index('Dshare')] = 'full'
                return True
        return False
    judge('ShardCreateTrace.tla', 'ShardCreateTrace.cfg', SF, corrupt(sc, undivided), 'a shard stores the undivided default', False)

    def no_db(t):
        for e in t['ev']:
            if 'set' in e['obs_phase']:
                e['obs_phase'][e['obs_phase'].index('set')] = 'db'
                return True
        return False
    judge('ShardCreateTrace.tla', 'ShardCreateTrace.cfg', SF, corrupt(sc, no_db), 'a shard the model says is complete has no stored limit', False)
    print('%d corruption(s) accepted' % len(FAIL))
    sys.exit(1 if FAIL else 0)


if __name__ == '__main__':
    main()
