#!/bin/bash
# run_mut.sh <patch.diff> <tier> <check id>... : apply a seeded change to /repo, run the checks, undo it.
# Prints one line per check: <id> rc=<exit code>.  /repo is restored (git reset --hard HEAD) on exit.
patch=$1; tier=$2; shift 2
cd /repo || exit 2
if [ -n "$(git status --porcelain --untracked-files=no)" ]; then echo "/repo has uncommitted changes; refusing" >&2; exit 2; fi
trap "git -C /repo reset -q --hard HEAD" EXIT
if ! git apply "$patch" 2>/dev/null; then
  git apply -3 "$patch" >/dev/null 2>&1
  if [ -n "$(git diff --name-only --diff-filter=U)" ] || grep -q '^<<<<<<<' diskcache/*.py; then echo "patch conflicts with the current tree" >&2; exit 2; fi
  git reset -q
fi
if git diff --quiet; then echo "patch did not change anything" >&2; exit 2; fi
cd /verif
for id in "$@"; do
  ./check $id --tier $tier > /tmp/mut-$id.log 2>&1; rc=$?
  echo "$id rc=$rc $(grep -c '^VIOLATION' /tmp/mut-$id.log) violations; $(grep -m1 -A1 '^VIOLATION' /tmp/mut-$id.log | tail -1 | cut -c1-300)"
done
