#!/bin/bash
# run_mut.sh <patch.diff> <tier> <check id>... : apply a seeded change to /repo, run the checks, undo it.
# Prints one line per check: <id> rc=<exit code>.  /repo is restored even on failure.
patch=$1; tier=$2; shift 2
cd /repo || exit 2
if ! git diff --quiet; then echo "/repo has uncommitted changes; refusing" >&2; exit 2; fi
git apply -3 "$patch" 2>/dev/null || git apply "$patch" || { echo "patch does not apply" >&2; exit 2; }
git reset -q 2>/dev/null
trap 'git -C /repo checkout -q -- . ' EXIT
cd /verif
for id in "$@"; do
  ./check $id --tier $tier > /tmp/mut-$id.log 2>&1; rc=$?
  echo "$id rc=$rc $(grep -c '^VIOLATION' /tmp/mut-$id.log) violations; $(grep -m1 -A1 '^VIOLATION' /tmp/mut-$id.log | tail -1 | cut -c1-300)"
done
