#!/usr/bin/env python3
"""eval_seeded.py [--tier quick] [--jobs N] [--all] [ids...]
Applies each seeded change (seeded/<id>/patch.diff) to a scratch git worktree of /repo's HEAD (never to /repo itself),
runs the check of the property it breaks against that worktree (VERIF_REPO), then - when that check does not report
it, or with --all - every other check, and records which checks reported it in seeded/results_<tier>.json.
Evidence of these runs goes to a scratch directory (VERIF_EVIDENCE), the worktrees are removed at the end."""
import json, os, subprocess, sys, tempfile, shutil
from concurrent.futures import ThreadPoolExecutor
ROOT = os.path.dirname(os.path.dirname(os.path.abspath(__file__)))
ALL = ['C%02d' % i for i in range(1, 21)]


def sh(cmd, **kw):
    return subprocess.run(cmd, shell=True, stdout=subprocess.PIPE, stderr=subprocess.STDOUT, text=True, **kw)


PREV = {}


def evaluate(sid, wt, tier, run_all, evdir):
    d = os.path.join(ROOT, 'seeded', sid)
    own = sid.split('-')[0]
    head = sh('git -C /repo rev-parse HEAD').stdout.strip()
    r = sh('git reset -q --hard && git checkout -q --detach %s && git apply %s/patch.diff' % (head, d), cwd=wt)
    if r.returncode != 0:
        return sid, {'error': 'patch does not apply to /repo HEAD: ' + r.stdout[-300:]}
    res = {'own': own, 'caught_by': [], 'first_line': {}}
    env = dict(os.environ, VERIF_REPO=wt, VERIF_EVIDENCE=evdir)
    # the property's own check first, then the checks that reported this change in an earlier evaluation, then the rest
    hint = [c for c in PREV.get(sid, {}).get('caught_by', []) if c != own]
    order = [own] + hint + [c for c in ALL if c != own and c not in hint]
    for cid in order:
        p = subprocess.run(['./check', cid, '--tier', tier], cwd=ROOT, env=env, stdout=subprocess.PIPE, stderr=subprocess.STDOUT, text=True)
        if p.returncode == 1 and 'VIOLATION property=' in p.stdout:
            res['caught_by'].append(cid)
            lines = p.stdout.splitlines()
            i = next(i for i, l in enumerate(lines) if l.startswith('VIOLATION'))
            res['first_line'][cid] = (lines[i + 1] if i + 1 < len(lines) else '')[:300].strip()
        elif p.returncode not in (0, 1):
            res.setdefault('machinery_failure', []).append(cid)
        if res['caught_by'] and not run_all:
            break
    sh('git reset -q --hard', cwd=wt)
    return sid, res


def main():
    a = sys.argv[1:]
    tier, jobs, run_all = 'quick', 4, False
    ids = []
    while a:
        x = a.pop(0)
        if x == '--tier':
            tier = a.pop(0)
        elif x == '--jobs':
            jobs = int(a.pop(0))
        elif x == '--all':
            run_all = True
        else:
            ids.append(x)
    if not ids:
        ids = sorted(d for d in os.listdir(os.path.join(ROOT, 'seeded')) if os.path.isfile(os.path.join(ROOT, 'seeded', d, 'patch.diff')))
    base = tempfile.mkdtemp(prefix='vsw-')
    evdir = os.path.join(base, 'evidence')
    wts = []
    for k in range(jobs):
        wt = os.path.join(base, 'w%d' % k)
        sh('git -C /repo worktree add --detach %s HEAD -q' % wt)
        wts.append(wt)
    out_path = os.path.join(ROOT, 'seeded', 'results_%s.json' % tier)
    results = json.load(open(out_path)) if os.path.exists(out_path) else {}
    PREV.update(results)
    import queue
    free = queue.Queue()
    for w in wts:
        free.put(w)

    def job(sid):
        wt = free.get()
        try:
            return evaluate(sid, wt, tier, run_all, evdir)
        finally:
            free.put(wt)
    try:
        with ThreadPoolExecutor(jobs) as ex:
            for sid, res in ex.map(job, ids):
                results[sid] = res
                print(sid, res.get('caught_by'), res.get('error', ''), res.get('machinery_failure', ''), flush=True)
                json.dump(results, open(out_path, 'w'), indent=1, sort_keys=True)
    finally:
        for wt in wts:
            sh('git -C /repo worktree remove --force %s' % wt)
        shutil.rmtree(base, ignore_errors=True)
    missed = [s for s in ids if not results[s].get('caught_by')]
    print('%d of %d seeded changes reported by a %s check; missed: %s' % (len(ids) - len(missed), len(ids), tier, missed))


if __name__ == '__main__':
    main()
