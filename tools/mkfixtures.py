#!/usr/bin/env python3
"""Writes /verif/fixtures/routing.json from the CURRENT /repo tree.  Run once on the pinned
(released) version; the file is committed and compared by ./check C13 and C18."""
import json, os, sys
sys.path.insert(0, '/verif')
from harness.checks import fanout
keys, tables = fanout.routing_tables([0])
json.dump({'keys': [repr(k) for k in keys], 'table': tables['0']}, open('/verif/fixtures/routing.json', 'w'))
print('routing fixture: %d keys' % len(keys))


def released_fixture():
    """A reference directory in the released on-disk format (every key representation x value mode x Disk class,
    a 3-shard FanoutCache, a Deque, an Index) + expected.json.  Written ONCE by the pinned version."""
    import hashlib, shutil, pickle
    sys.path.insert(0, '/repo')
    import diskcache
    from harness.checks.persist import fixture_items, digest, read_back
    root = '/verif/fixtures/released'
    shutil.rmtree(root, ignore_errors=True)
    os.makedirs(root)
    keys, vals = fixture_items()
    exp = {}
    c = diskcache.Cache(os.path.join(root, 'cache-disk'), eviction_policy='least-recently-used', cull_limit=3, size_limit=2 ** 28,
                        statistics=True, disk_min_file_size=2 ** 12, disk_pickle_protocol=2)
    for i, k in enumerate(keys):
        c.set(k, vals[i % len(vals)], tag='t%d' % (i % 3) if i % 2 else None, expire=None if i % 4 else 10 ** 9)
    c.push('queued', prefix='jobs'); c.push(b'q2')
    c.close()
    j = diskcache.Cache(os.path.join(root, 'cache-json'), disk=diskcache.JSONDisk, disk_compress_level=6, disk_min_file_size=2 ** 12)
    for i, k in enumerate(['a', 'b', 1, 2.5, 'long' * 3]):
        j[k] = [vals[0], {'x': [1, 2.5, None, True]}, 's' * (5000 if i % 2 else 10)][i % 3]
    j.close()
    f = diskcache.FanoutCache(os.path.join(root, 'fanout3'), shards=3, disk_min_file_size=2 ** 12)
    for i, k in enumerate(keys):
        f[k] = vals[(i + 1) % len(vals)]
    dq = f.deque('dq'); dq.extend([1, 'two', b'3' * 5000, (4, 5)])
    ix = f.index('ix'); ix.update([('a', 1), (2, 'two'), ((3, 4), b'x' * 5000)])
    f.close()
    d = diskcache.Deque([10, 'x', b'y' * 6000, None], directory=os.path.join(root, 'deque'), maxlen=None); d.cache.close()
    x = diskcache.Index(os.path.join(root, 'index'), [('k1', 1), (2, [1, 2]), ((1, 2), 'v' * 7000)]); x.cache.close()
    json.dump(read_back(root), open(os.path.join(root, 'expected.json'), 'w'), indent=0, sort_keys=True)
    # drop SQLite side files so that the committed fixture is stable
    for dp, dn, fn in os.walk(root):
        for n in fn:
            if n.endswith('-wal') or n.endswith('-shm'):
                os.remove(os.path.join(dp, n))
    print('released fixture written:', sum(len(fn) for _, _, fn in os.walk(root)), 'files')


if __name__ == '__main__' and len(sys.argv) > 1 and sys.argv[1] == 'released':
    released_fixture()
