#!/usr/bin/env python3
"""Writes /verif/fixtures/routing.json from the CURRENT /repo tree.  Run once on the pinned
(released) version; the file is committed and compared by ./check C13 and C18."""
import json, os, sys
sys.path.insert(0, '/verif')
from harness.checks import fanout
keys, tables = fanout.routing_tables([0])
json.dump({'keys': [repr(k) for k in keys], 'table': tables['0']}, open('/verif/fixtures/routing.json', 'w'))
print('routing fixture: %d keys' % len(keys))
