#!/bin/bash
# package_seeded.sh <Cxx> <mN> [ported.diff] : copy a confirmed seeded change into /verif/seeded/<Cxx>-<mN>/
P=$1; M=$2; PORT=$3
src=/tmp/wt/$P/mutations/$M; dst=/verif/seeded/$P-$M
mkdir -p $dst
cd /repo || exit 2
[ -n "$(git status --porcelain --untracked-files=no)" ] && { echo "repo dirty"; exit 2; }
pf=${PORT:-$src/patch.diff}
if ! git apply "$pf" 2>/dev/null; then git apply -3 "$pf" >/dev/null 2>&1; git reset -q; fi
if grep -q '^<<<<<<<' diskcache/*.py || git diff --quiet; then echo "$P-$M: does not apply cleanly"; git reset -q --hard HEAD; rm -rf $dst; exit 1; fi
git diff > $dst/patch.diff
git reset -q --hard HEAD
cp $src/demo.py $dst/demo.py
cp $src/notes.md $dst/notes.md 2>/dev/null
cp $src/patch.diff $dst/patch.original.diff
echo "$P-$M packaged"
