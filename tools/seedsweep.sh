#!/bin/bash
# seedsweep.sh <tier> <seeds...> : run every check under several VERIF_SEED values; report non-zero exits.
tier=$1; shift
cd /verif
for s in "$@"; do
  for id in C01 C02 C03 C04 C05 C06 C07 C08 C09 C10 C11 C12 C13 C14 C15 C16 C17 C18 C19 C20; do
    VERIF_SEED=$s ./check $id --tier $tier > /tmp/sweep-$tier-$s-$id.log 2>&1; rc=$?
    echo "seed=$s $id rc=$rc $(tail -1 /tmp/sweep-$tier-$s-$id.log | cut -c1-160)"
  done
done
