#!/bin/bash
# confirm_seeded.sh <worktree> <seeded dir>... : on the CURRENT /repo HEAD (scratch worktree): demo passes clean, fails with the
# patch, and the test suite still passes with the patch.  Appends one line per seeded change to /tmp/wt/confirm2.txt
W=$1; shift
[ -d $W ] || git -C /repo worktree add --detach $W HEAD -q
cd $W || exit 2
git checkout -q --detach $(git -C /repo rev-parse HEAD); git reset -q --hard
for S in "$@"; do
  n=$(basename $S)
  mkdir -p mutations/x; cp $S/demo.py mutations/x/demo.py
  timeout 180 /venv/bin/python mutations/x/demo.py > /dev/null 2>&1; clean=$?
  if ! git apply $S/patch.diff 2>/dev/null; then echo "$n APPLY-FAIL" >> /tmp/wt/confirm2.txt; continue; fi
  timeout 180 /venv/bin/python mutations/x/demo.py > /dev/null 2>&1; mut=$?
  t=$(/venv/bin/python -m pytest -q -p no:cacheprovider --timeout=900 -n 3 --no-cov 2>&1 | tail -3 | grep -E "passed|failed" | tr '\n' ' ')
  f=$(/venv/bin/python -m pytest -q -p no:cacheprovider --timeout=900 -n 3 --no-cov 2>&1 | grep FAILED | grep -v model_instance | wc -l)
  git reset -q --hard
  echo "$n demo_clean=$clean demo_mut=$mut tests: $t other_failures=$f" >> /tmp/wt/confirm2.txt
done
