#!/usr/bin/env python3
"""Writes seeded/<id>/meta.json for the changes of rounds 2-6 (Cxx-r<n>m<i>) from their notes and seeded/results_quick.json."""
import json, os, re
ROOT = os.path.dirname(os.path.dirname(os.path.abspath(__file__)))
res = json.load(open(os.path.join(ROOT, 'seeded', 'results_quick.json')))
for sid in sorted(os.listdir(os.path.join(ROOT, 'seeded'))):
    d = os.path.join(ROOT, 'seeded', sid)
    if not os.path.isdir(d) or not re.search(r'-r[2-8]m', sid):
        continue
    notes = open(os.path.join(d, 'notes.md')).read()
    title = re.sub(r'^#\s*m\d\s*-+\s*', '', notes.splitlines()[0]).strip().replace('`', '')
    needs = ''
    m = re.search(r'(?im)^#+\s*(what it needs[^\n]*|needs[^\n]*|exactly what it needs[^\n]*)\n+(.+?)(?:\n#|\Z)', notes, re.S)
    if m:
        needs = ' '.join(m.group(2).split())[:400]
    r = res.get(sid, {})
    meta = {'breaks_property': sid.split('-')[0], 'round': int(re.search(r'-r(\d)m', sid).group(1)), 'change': title, 'needs_to_manifest': needs or 'see notes.md',
            'confirmed': 'applied to a scratch worktree of /repo HEAD: the suite passes (-n 2 --no-cov; only the flaky Django model-instance tests ever fail), '
                         'demo.py exits non-zero with the patch and 0 without it (seeded/confirm_round<n>.txt)',
            'ran': ['tools/eval_seeded.py %s  (quick tier, scratch worktree, VERIF_REPO)' % sid],
            'caught_by_quick_checks': r.get('caught_by', []),
            'first_report': r.get('first_line', {}),
            'note': 'patch.original.diff is the sub-agent\'s patch against the earlier HEAD' if os.path.exists(os.path.join(d, 'patch.original.diff')) else ''}
    json.dump(meta, open(os.path.join(d, 'meta.json'), 'w'), indent=1)
print('done')
