#!/usr/bin/env python3
"""Regenerates /verif/MANIFEST.json from the table below (single source)."""
import json, os
ROOT = os.path.dirname(os.path.dirname(os.path.abspath(__file__)))
props = [json.loads(l) for l in open(os.path.join(ROOT, 'properties.jsonl'))]

SEQ_NOTE = ('Trusted: SQLite, POSIX files, CPython pickle, TLC, the interposition layer (harness/interpose.py). '
            'Exhaustive only within the constants of the MCSeq_*.cfg files; beyond them TLC-sampled plans and seeded random histories. '
            'The clock is assumed to be read through time.time.')
CHECKS = {
 'C03': dict(level='model_checking', ref='DESIGN.md 3.1-3.2, 6 (C03)',
   text='TLC explores the reference dictionary (CacheSeq/CacheOps) exhaustively over small alphabets and checks the property statements as invariants/action properties; '
        'TLC-generated plans (edge sample of the reachable graph) and seeded random histories (incl. >200-row populations crossing the 100-row pages) are replayed on the real Cache and every recorded trace '
        '(return value + full contents + counters after every call) is validated by TLC against the same operators.',
   technique='TLA+ reference dictionary model-checked with TLC; plan replay and trace validation by TLC (CacheSeqTrace)'),
 'C04': dict(level='model_checking', ref='DESIGN.md 6 (C04)',
   text='Same reference dictionary with a separate Tick action: TLC checks ExpiredInvisible / LiveVisible / ExpireComplete / LazyCullBounded over all clock trajectories of the small model; '
        'plans and random histories with expiry-heavy weights, exact-instant lookups and >100 / >200 items sharing one expiry are replayed under a virtual clock and validated by TLC.',
   technique='TLA+ model with explicit clock steps checked by TLC; trace validation of virtual-clock histories'),
 'C09': dict(level='model_checking', ref='DESIGN.md 6 (C09)',
   text='Eviction as a relation (CullOK / CullCallOK: any policy-minimal victim set, only at the limit, at most cull_limit per write); TLC checks NoEarlyEviction / EvictionOrder / NoneNeverEvicts / CullPost on the model; '
        'real histories with file-backed values of varying size under every policy are validated by TLC using the page bytes the library itself read (logged at the SQLite boundary).',
   technique='TLA+ eviction relation checked by TLC; trace validation with logged volume inputs'),
 'C10': dict(level='model_checking', ref='DESIGN.md 6 (C10)',
   text='Queue operators over structured keys (prefix, number) in CacheOps; TLC checks PeekIsNextPull / PrefixIsolation / PushAtEnd with prefixes None, a, a-5 and ordinary keys mixed in; '
        'plans and random push/pull/peek histories over prefixes that extend one another are replayed and validated by TLC. (Concurrent producers/consumers: see the C05 monitor.)',
   technique='TLA+ queue operators checked by TLC; plan replay and trace validation'),
}
CONC_NOTE = ('Trusted: SQLite WAL snapshot isolation, BEGIN IMMEDIATE exclusion and atomic commit; POSIX file semantics; TLC; the interposition layer and scheduler (harness/interpose.py, sched.py). '
             'Clients are real threads (own or shared Cache objects) scheduled at every SQLite statement / file operation outside a held write transaction; '
             'schedules: exhaustive up to 2 preemptions for 2-client programs (capped), PCT and random beyond. A trace that reaches a listed known finding is not judged beyond that event.')
CHECKS.update({
 'C05': dict(level='model_checking', ref='DESIGN.md 3.5, 4.3, 6 (C05)',
   text='Design level: CacheConc.tla models diskcache\'s own order of SQL statements and file operations (one action per statement; write lock, value files, Kill at any point, blocks, an independent lock holder) and TLC explores it exhaustively for pairs/triples of operations x value kinds (MCConc_pairs/triples/seq); each wrong ordering (select before BEGIN) is a config that must violate its invariant; TLC-generated client orders are replayed on the real code. '
        'Property-level monitor in TLA+ (MonitorTrace: environment state = committed contents, write lock, value files, calls in flight; StepRefinement against the CacheOps operators at each COMMIT; lock-free lookups explained by some contents committed during the call, with the one tolerated miss). '
        'TLC validates every recorded execution of small concurrent programs run on real threads under a deterministic scheduler that enumerates interleavings of database statements and file operations.',
   technique='TLA+ linearizability/refinement monitor evaluated by TLC on scheduler-enumerated executions of the real code'),
 'C06': dict(level='model_checking', ref='DESIGN.md 3.5, 6 (C06)',
   text='Design level: CacheConc.tla models diskcache\'s own order of SQL statements and file operations (one action per statement; write lock, value files, Kill at any point, blocks, an independent lock holder) and TLC explores it exhaustively for pairs/triples of operations x value kinds (MCConc_tx/tx_kill); each wrong ordering (inner call removing files before the outer COMMIT, aborted block leaking its files) is a config that must violate its invariant; TLC-generated client orders are replayed on the real code. '
        'Transaction blocks in the same monitor: a block is a private working copy started when the lock is obtained, its calls are CacheOps steps on that copy, the one COMMIT of the outermost block must publish exactly that copy, ROLLBACK discards it; commits/rollbacks by inner calls or blocks, a second holder of the lock and foreign commits are rejected. '
        'Programs: bodies of reads/writes/removals over inline and file values, nested blocks, a raise after every body position, concurrent readers/writers, a second thread on the same object; via Cache/Deque/Index.transact.',
   technique='TLA+ block-atomicity monitor evaluated by TLC on scheduler-enumerated executions'),
})
CHECKS['C08'] = dict(level='fault_enumeration', ref='DESIGN.md 3.5, 6 (C08)',
   text='Design level: CacheConc.tla models diskcache\'s own order of SQL statements and file operations (one action per statement; write lock, value files, Kill at any point, blocks, an independent lock holder) and TLC explores it exhaustively for pairs/triples of operations x value kinds (MCConc_lock/pairs_kill); each wrong ordering (no cleanup after Timeout, aborted block leaking files) is a config that must violate its invariant; TLC-generated client orders are replayed on the real code. '
        'Single-fault enumeration on the real code: for every mutating method x initial contents the workload is re-run once per database statement / file operation with an OperationalError or OSError injected at exactly that point (plus unbindable tag, unencodable text, stream breaking mid-read); '
        'every run, and a batch of concurrent and transactional schedules, is validated by TLC against the TLA+ monitor whose QuiescentAgreement clause compares counters, rows and value files whenever no call is in flight and at the end.',
   technique='fault enumeration at the SQLite/file boundary; every run validated by the TLA+ monitor (MonitorTrace) with TLC')
CHECKS['C07'] = dict(level='fault_enumeration', ref='DESIGN.md 6 (C07)',
   text='Design level: CacheConc.tla models diskcache\'s own order of SQL statements and file operations (one action per statement; write lock, value files, Kill at any point, blocks, an independent lock holder) and TLC explores it exhaustively for pairs/triples of operations x value kinds (MCConc_pairs_kill/tx_kill); each wrong ordering (file removed before COMMIT) is a config that must violate its invariant; TLC-generated client orders are replayed on the real code. '
        'Kill-point enumeration on the real code: each workload (every mutating method, inline and file values, streams, bulk removals, expired-head loops, transaction blocks incl. nested, aborted and BaseException-aborted ones) runs in a forked child that SIGKILLs itself immediately before its n-th database statement / file operation, for every n; '
        'a fresh handle then observes the directory and TLC validates victim log + observation against KillTrace.tla (completed calls present, interrupted call all-or-nothing, present keys readable, writable, debris only unreferenced files / empty directories, repair converges). Thorough adds asynchronous SIGKILL at random delays.',
   technique='kill-point enumeration at the SQLite/file boundary; each run validated against the TLA+ crash-recovery spec (KillTrace) with TLC')
CHECKS['C14'] = dict(level='model_checking', ref='DESIGN.md 6 (C14)',
   text='Design level: CacheConc.tla models diskcache\'s own order of SQL statements and file operations (one action per statement; write lock, value files, Kill at any point, blocks, an independent lock holder) and TLC explores it exhaustively for pairs/triples of operations x value kinds (MCConc_lock); each wrong ordering (no cleanup after Timeout) is a config that must violate its invariant; TLC-generated client orders are replayed on the real code. '
        'TimeoutClean / RetryWaits / ShardedNeverRaises / LockFreeLookupsUnaffected clauses of the TLA+ monitor: a call may end in Timeout only after a failed attempt to obtain the lock, without retry requested, having committed nothing and leaving no value file (quiescent agreement); bulk removals report their count; sharded caches report through False/None/default. '
        'An independent raw SQLite connection holds the write lock under scheduler control (before the call, between the value-file write and BEGIN, released after 0/1/3 failed attempts) for every public data operation of Cache and FanoutCache, retry on/off, operator forms, settings that turn reads into writes; all schedules up to 2 preemptions are validated by TLC.',
   technique='TLA+ monitor evaluated by TLC on scheduler-enumerated executions with a scheduled lock-holder')
CHECKS['C11'] = dict(level='model_checking', ref='DESIGN.md 3.3, 6 (C11)',
   text='DequeOps.tla is collections.deque as pure operators; DequeSeq.tla runs it in lock step with the cache operations as diskcache.Deque composes them (push+trim, pull, walk of sorted keys, rotate as pop/append steps, reverse as copy-clear-extend) and TLC checks the refinement Abs(cache)=deque and equal results for every operation over values {1,2}, maxlen {None,0,1,2}, <=3 items. '
        'Random histories (all methods, all index values, maxlen None/0/1/small, reopen/copy/pickle/maxlen assignment, via Deque / FanoutCache.deque / DjangoCache.deque) are validated by TLC against DequeOps; the same plans run through collections.deque itself validate the spec against the stdlib; producer/consumer programs are scheduler-enumerated and validated at each COMMIT.',
   technique='TLA+ refinement (composed cache ops -> pure deque) checked by TLC; trace validation incl. stdlib cross-check and scheduled concurrency')
CHECKS['C12'] = dict(level='model_checking', ref='DESIGN.md 3.3, 6 (C12)',
   text='IndexOps.tla is an insertion-ordered dictionary as pure operators; IndexSeq.tla runs it in lock step with the cache operations as diskcache.Index composes them (popitem = peekitem+delete in a block, setdefault = look up / add / look up, update = one assignment per pair, views = iteration + lookups) and TLC checks Abs(cache) = dictionary and equal results (3 keys, values {1,2}); '
        'IndexConc.tla models concurrent clients at the granularity of transactions and value-file operations and TLC checks PresentKeyAlwaysFound, ValuesExplained, RefsComplete, NoLeak and termination; the released lookup (D_lookup_replace_race) must violate PresentKeyAlwaysFound with file-backed values (design-level reproduction of the known finding) and holds with inline values. Random histories over native and composite keys, inline and file values, all mapping methods, views in both directions, ordered/unordered equality, reopen/pickle (via Index / FanoutCache.index / DjangoCache.index) are validated by TLC against it, and the same plans through OrderedDict validate the spec; 2-3 client programs (lookup, replace inline<->file, setdefault, popitem, pop, delete) are scheduler-enumerated and validated at each COMMIT (PresentKeyAlwaysFound with the listed known finding).',
   technique='TLA+ refinement (composed cache ops -> ordered dictionary) and a transaction-level concurrency model checked by TLC; trace validation (sequential, stdlib cross-check, scheduled concurrency)')
CHECKS['C13'] = dict(level='model_checking', ref='DESIGN.md 3.4, 6 (C13)',
   text='Design level: FanoutSeq.tla runs N shards plus a routing function chosen among ALL functions keys -> shards in lock step with one reference cache (set/add/touch/incr/get/contains/pop/delete routed; clear/expire/evict/len/stats/iteration folded over every shard once; expiry, tags, statistics) and TLC checks SameResults, UnionIsReference, Partition (2-3 keys x 2-3 shards); aggregates that skip a shard must fail. '
        'FanoutTrace.tla: N CacheOps states + the observed routing function; key-addressed calls are the CacheOps step on the routed shard, aggregates (len, clear, expire, evict, cull, stats, iteration both ways) are folds over all shards exactly once, the size limit is total/N. Random histories on 1/2/3/8/13 shards with the projection of every shard after every call are validated by TLC. '
        'Routing: the shard of 62 keys (ints incl. 64-bit boundaries, floats, text, bytes, composite) is computed in fresh interpreters with different PYTHONHASHSEED values, compared with each other and with the table recorded from the released version (fixtures/routing.json); numerically equal int/float keys landing in different shards are the listed known finding.',
   technique='TLA+ lock-step refinement (shards + any routing -> one cache) checked by TLC; trace validation by TLC against the sharded-cache spec; routing tables compared across interpreters and with a recorded fixture')
CHECKS['C19'] = dict(level='model_checking', ref='DESIGN.md 3.4, 6 (C19)',
   text='Design level: DjangoSeq.tla states the contract directly (a map (key, version) -> value with an expiry instant; timeouts DEFAULT / None / zero-or-negative / positive) and runs it in lock step with DjangoCache\'s composition of reference-dictionary operations over made keys (DjangoOps.tla) for every backend configuration (prefix, default version, TIMEOUT) chosen in Init; TLC checks SameResults, Agreement (what is visible through the contract is what is stored) and Namespaced; a TIMEOUT of 0 stored forever and a made key without the version must fail. '
        'DjangoTrace.tla judges recorded calls with the same composition: made keys prefix:version:key, timeout mapping (DEFAULT -> backend TIMEOUT, None forever, 0/negative already expired), add/get/set/touch/delete/incr/decr(ValueError)/has_key/get_many/set_many/delete_many/get_or_set/incr_version/decr_version/pop/clear. '
        'Random call sequences under a virtual clock over keys x versions x timeout classes x backend TIMEOUT/KEY_PREFIX/VERSION/SHARDS are validated by TLC (return values); the same plans through Django\'s own LocMemCache validate the spec\'s reading of the contract (a disagreement there is a machinery failure, not a violation).',
   technique='TLA+ lock-step refinement (contract map <- composition over made keys) checked by TLC; trace validation by TLC, cross-checked against LocMemCache')
CHECKS['C15'] = dict(level='model_checking', ref='DESIGN.md 3.6, 6 (C15)',
   text='Locks.tla models Lock (spin on atomic add / delete), RLock ((owner,count) read-modify-write in a transaction) and BoundedSemaphore at the granularity of atomic cache operations (justified by C05/C06); TLC checks MutualExclusion, SemBound, RLockOwner, FreeWhenNoHolder and, under fairness, that every contender completes its rounds (3 contenders x 2 rounds, nesting 2, value 2). '
        'The real recipes run on threads (shared / own Cache and FanoutCache objects) under the scheduler: all schedules up to 2 preemptions of 2-3 contender programs, PCT/random for 2-4 contenders, barrier, extra releases, and an RLock built before fork released by the child; witness events enter/exit are validated by TLC (LocksTrace.tla).',
   technique='TLA+ lock protocols model-checked by TLC (safety + liveness); scheduler-enumerated executions of the real recipes validated by TLC')
CHECKS['C20'] = dict(level='model_checking', ref='DESIGN.md 3.6, 6 (C20)',
   text='Design level: Throttle.tla models throttle as a token bucket on an integer grid (Arrive, Try = one transaction: refill, cap, start or sleep; urgent Tick) and TLC checks RateBound, TallyBounded and, under fairness, EventuallyThrough for 2-3 callers x 2-3 calls x counts 2/3; without the cap it must fail; Averager.tla models add (one transaction: read the pair, write total+v, count+1), lock-free get and atomic pop for 3 clients and checks EveryAddCounted (the stored pair is the sum and number of the committed adds since the last pop) and termination; add without its block must fail. '
        'RecipesTrace.tla: every recorded pass of the real loop must be a Throttle!Try step (pair read = pair stored last; start / capped start / sleep and the stored tally or the sleep follow from it); Averager state (total,count): the pair published by each COMMIT of add must be (total+v, count+1) of the pair committed just before, pop resets, get/pop return a pair committed during the call; throttle: RateBound over the recorded start history (for all i<j: j-i+1 <= count + count/seconds*(t_j-t_i)) and every call let through. '
        'Averager programs of 2-3 adders/poppers/readers are scheduler-enumerated (threads, shared/own Cache); throttle runs 1-3 callers over burst / idle-then-burst / steady / random arrival patterns under a virtual clock (time_func/sleep_func) with rates 1/1, 2/1, 3/2, 1/2; TLC validates every run.',
   technique='TLA+ token-bucket model checked by TLC (safety + liveness) and bound to the code step by step; commit-level refinement for Averager (trace validation by TLC)')
CHECKS['C16'] = dict(level='model_checking', ref='DESIGN.md 3.6, 6 (C16)',
   text='Memo.tla transcribes args_to_key (released form behind the deviation D_none_separator, intended injective form otherwise) and TLC evaluates NoSharedEntry / SameCallSameKey over ALL ordered pairs of call signatures (arity <= 2 quick / 3 thorough, values None, \'a\', 1, 1.0, keyword subsets of {a,b}) x typed x ignore sets; the released form is shown to violate it (design-level reproduction of the known finding). '
        'Conformance: pairs of signatures (random, identical, and the confusable positional-tail/keyword shapes) are called through Cache/FanoutCache/Index/DjangoCache.memoize and memoize_stampede on a real variadic function; result, call counter and __cache_key__ equality are judged by TLC (MemoTrace.tla) with the model key; expiry scenarios (None, 0, positive) under a virtual clock and an early-recompute scenario for memoize_stampede.',
   technique='TLA+ transcription of the key function checked over all signature pairs by TLC; observed call pairs validated by TLC')
CHECKS['C17'] = dict(level='fault_enumeration', ref='DESIGN.md 3.7, 6 (C17)',
   text='CheckTrace.tla defines check() as a function Report(O) of the directory state O (rows, value files with actual sizes, directory tree, counters; observed with plain SQL and os.walk) and check(fix=True) as the transformer Fixed(O); TLC judges ReportComplete, PlainCheckPure, FixConverges (second report empty), FixPreservesUndamaged, remaining items readable. '
        'Damage enumeration on a real Cache and on one shard of a FanoutCache: all single damages and pairs (thorough: + sampled triples) of 16 kinds (file deleted / truncated / emptied / extended, stray files and empty directories at every level, counters off, half-written debris).',
   technique='damage enumeration; check()/check(fix) judged by TLC against a TLA+ definition of the report and of the repaired state')
CHECKS['C01'] = dict(level='model_checking', ref='DESIGN.md 3.7, 6 (C01)',
   text='Codec.tla is the value pipeline as a finite case analysis (kind x length class relative to the file threshold x text features x threshold x Disk/JSONDisk x accessor -> representation -> environment facts -> outcome); TLC evaluates RoundTripOrReject and RejectOnlyUnstorable over the full product. '
        'Conformance: concrete witnesses of every abstract case (exact lengths around the threshold, CR/LF/CRLF/NUL/U+0085/U+2028/astral/lone-surrogate at random positions, ints around 2**63, -0.0, inf, nan, float subclass, nested containers, streams with short reads) are stored under 4 thresholds x pickle protocols x Disk/JSONDisk and read back through 11 accessors; outcome (same / altered / rejected / fetch-error / leak) judged by TLC against Codec.Outcome.',
   technique='TLA+ case-analysis spec checked exhaustively by TLC; witness-based conformance validated by TLC')
CHECKS['C02'] = dict(level='model_checking', ref='DESIGN.md 3.7, 6 (C02)',
   text='KeySpace.tla states the documented equality rule (DocEq) and transcribes Disk.put and SQLite equality of the (key, raw) columns (DbEq); TLC evaluates NoAliasing (DbEq => DocEq) and EqualKeysOneEntry (DocEq => DbEq, minus the listed deviation) over all ordered pairs of a universe of 52 keys (text/bytes with equal content, ints at and beyond the 64-bit boundaries, floats incl. -0.0, 2**53, 2**63, inf, subnormal, bool, None, tuples, frozenset, and the bytes equal to the pickles of other keys). '
        'Conformance: the same pairs through a real Cache (set k1; set k2; len, get, iteration in insertion and sorted order both directions, pop of the second key) for each pickle protocol, plus sorted iteration across the 100-key page boundary with a bytes key and its pickled twin; judged by TLC (KeyTrace.tla).',
   technique='TLA+ key-space spec evaluated over all key pairs by TLC; pairwise conformance validated by TLC')
CHECKS['C18'] = dict(level='model_checking', ref='DESIGN.md 3.7, 6 (C18)',
   text='Design level: Lifecycle.tla models handles on one directory (stored settings incl. the serializer\'s own parameters, items; per handle the cached settings, serializer class, connection and owning process) with create-with-arguments, open, open while the database is busy, close, pickle, fork and use; TLC checks SettingsComeBack, SameCodec, OneContents, UsedConnectionIsOwn; a busy database read as "new directory", pickling that forgets the serializer class and a child using the inherited connection must fail. '
        'Lifecycle events as no-ops of the reference model: random histories (as C03) with close / reopen with and without settings / pickle+unpickle / settings read-back at random points, a handle opened while the database is locked for a moment at its n-th statement (every n), and single operations performed by a forked child, a second thread or a fresh interpreter, are validated by TLC against CacheSeqTrace (every handle acts on the one CacheOps state; settings come back from the directory). '
        'Format stability: a reference directory written once by the pinned version (every key representation x value mode, Disk and JSONDisk with a custom disk setting, non-default settings, a 3-shard FanoutCache with Deque and Index, a Deque, an Index) is committed with the digests of everything readable from it; the current tree reads a scratch copy and TLC compares (FixtureTrace.tla); shard routing is compared with a recorded table in C13.',
   technique='TLA+ lifecycle model checked by TLC; trace validation by TLC with lifecycle events as model no-ops; golden reference directory compared as a trace')
NOTES = {'C18': SEQ_NOTE + ' The format part is a golden-file comparison (the only way to see changes that orphan existing caches); Deque/Index lifecycle is in C11/C12.', 'C02': 'Exact numeric identities of the universe are computed with rational arithmetic by the harness (TLC integers are 32-bit). NaN is outside the key domain.', 'C01': 'Values INSIDE an abstract case are sampled, not enumerated; equality is structural with NaN = NaN and signed zero / exact type distinguished. The read-handle accessor is applied to binary values only; JSONDisk to JSON-representable values.', 'C17': 'Trusted: the observer (plain SQL + os.walk), TLC. Damage combinations beyond pairs are sampled.', 'C16': SEQ_NOTE, 'C20': CONC_NOTE + ' Start times are rounded outwards to 1/4000 s (sound for the bound); a virtual sleep advances time by at least 1e-6 s.', 'C15': CONC_NOTE + ' Contenders in separate processes only in the fork scenario.', 'C19': SEQ_NOTE + ' Return values the contract leaves open (set, delete_many, clear, delete of an expired item) are not compared.', 'C13': SEQ_NOTE + ' Aggregate operations under lock timeouts (FanoutCache._remove resuming after Timeout) are only covered with one shard (C14).', 'C11': CONC_NOTE, 'C12': CONC_NOTE + '', 'C14': CONC_NOTE, 'C07': 'Trusted: SQLite atomic commit / WAL recovery and release of the write lock on process death; kill points are the boundary events of the victim (before each statement, file create/write/close/remove, directory create/remove); the lazy cull of writes is switched off in kill workloads (not observable per call). Deque/Index workloads are killed in C11/C12.', 'C08': CONC_NOTE + ' Faults are not injected into COMMIT/ROLLBACK (SQLite atomic commit trusted) nor into file removal (removing an existing file is assumed to succeed).', 'C05': CONC_NOTE, 'C06': CONC_NOTE, 'C03': SEQ_NOTE, 'C04': SEQ_NOTE, 'C09': SEQ_NOTE, 'C10': SEQ_NOTE}

checks = []
for pid, c in sorted(CHECKS.items()):
    checks.append({
        'property_id': pid,
        'quick_cmd': './check %s --tier quick' % pid,
        'thorough_cmd': './check %s --tier thorough' % pid,
        'evidence_file': '/verif/evidence/%s.json' % pid,
        'replay_cmd_template': './check %s --replay {path}' % pid,
        'engine': 'tlc',
        'level_claimed': {'category': c['level'], 'text': c['text'], 'design_ref': c['ref']},
        'level_note': NOTES[pid],
        'technique': c['technique'],
    })
na = [{'property_id': p['id'], 'reason': 'check not built yet (work in progress; see DESIGN.md build order)'}
      for p in props if p['id'] not in CHECKS]
m = {
 'version': 1,
 'setup_cmd': 'true',
 'hooks': {'guard': 'DISKCACHE_VERIF',
           'enable': 'no source hooks: the harness interposes at the sqlite3 / open / os.* / time boundary from outside the library (harness/interpose.py); DISKCACHE_VERIF=1 is exported by ./check and read by nothing in /repo',
           'baseline_off_cmd': 'cd /repo && /venv/bin/python -m pytest -ra -q -p no:cacheprovider --timeout=900 --continue-on-collection-errors',
           'source_commits': [], 'add_only': True},
 'engines': [{'name': 'tlc', 'path': '/usr/local/bin/tlc', 'serves_properties': sorted(CHECKS),
              'kind_free_text': 'TLA+ specifications in /verif/spec checked by TLC 1.8 (exhaustive configs, plan generation, trace validation)'}],
 'checks': checks,
 'notes': 'Specifications: /verif/spec. Harness (driver + recorder only): /verif/harness. Known findings: /verif/known_findings.json. Seeded changes used to test the checks: /verif/seeded.',
 'not_applicable': na,
}
json.dump(m, open(os.path.join(ROOT, 'MANIFEST.json'), 'w'), indent=1)
print('MANIFEST: %d checks, %d not yet claimed' % (len(checks), len(na)))
