#!/bin/bash
# tools/covreport.sh [tier] : which lines of the library do the checks execute?  (diagnostic only: finds behaviour no
# driver reaches; lines run only in killed or os._exit children are not counted, so the figure is a lower bound)
tier=${1:-quick}; D=${VERIF_COV:-/var/tmp/verif-cov}; rm -rf $D; mkdir -p $D
cd "$(dirname "$0")/.."
for i in $(seq -w 1 20); do VERIF_COV=$D VERIF_EVIDENCE=$D/ev ./check C$i --tier $tier 2>/dev/null | tail -1; done
cd $D && /venv/bin/python -m coverage combine -q --data-file=$D/.coverage $D >/dev/null 2>&1
/venv/bin/python -m coverage report --data-file=$D/.coverage -m
