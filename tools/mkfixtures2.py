#!/usr/bin/env python3
"""Writes /verif/fixtures/released2 (JSONDisk with non-ASCII keys, non-ASCII text in files) + expected.json.
Run ONCE with the PINNED version of the library:  VERIF_REPO=<worktree of the pinned commit> python tools/mkfixtures2.py"""
import json, os, shutil, sys
sys.path.insert(0, '/verif')
import harness                                   # puts VERIF_REPO (default /repo) first on sys.path
from harness.checks.persist import write_fixture2, read_back2, FIX2
shutil.rmtree(FIX2, ignore_errors=True)
os.makedirs(FIX2)
write_fixture2(FIX2)
json.dump(read_back2(FIX2), open(os.path.join(FIX2, 'expected.json'), 'w'), indent=0, sort_keys=True)
for dp, dn, fn in os.walk(FIX2):
    for n in fn:
        if n.endswith('-wal') or n.endswith('-shm'):
            os.remove(os.path.join(dp, n))
import diskcache
print('released2 written by', diskcache.__file__, sum(len(fn) for _, _, fn in os.walk(FIX2)), 'files')
