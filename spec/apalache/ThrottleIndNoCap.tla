----------------------------- MODULE ThrottleIndNoCap -----------------------------
(***************************************************************************)
(* Unbounded safety of the token bucket (Throttle.tla without its history  *)
(* variable), discharged by Apalache as an inductive invariant:            *)
(*    Init => IndInv            (length 0)                                 *)
(*    IndInv /\ Next => IndInv' (length 1)                                 *)
(* for ANY number of ticks and calls (TLC explores <= 24 ticks).           *)
(*   TallyBounded : 0 <= tally <= Count*Q                                  *)
(*   Accounting   : n*Q + tally <= Count*Q + last   (n = starts so far):   *)
(*                  what was consumed plus what is left never exceeds the  *)
(*                  initial bucket plus the refill => n <= Count + now/Q   *)
(* Count = 2, Q = 2 are fixed here (Apalache needs constant arithmetic     *)
(* to stay linear); callers c1, c2.                                        *)
(***************************************************************************)
EXTENDS Integers

Callers == {"c1", "c2"}
Count == 2
Q == 2

VARIABLES
    \* @type: Int;
    now,
    \* @type: Int;
    last,
    \* @type: Int;
    tally,
    \* @type: Str -> Str;
    pc,
    \* @type: Str -> Int;
    wake,
    \* @type: Int;
    n

Init == /\ now = 0 /\ last = 0 /\ tally = Count * Q /\ n = 0
        /\ pc = [c \in Callers |-> "away"]
        /\ wake = [c \in Callers |-> 0]

Tick == /\ now' = now + 1 /\ UNCHANGED <<last, tally, pc, wake, n>>

Arrive(c) == /\ pc[c] = "away" /\ pc' = [pc EXCEPT ![c] = "trying"]
             /\ UNCHANGED <<now, last, tally, wake, n>>

Try(c) ==
    /\ pc[c] = "trying" \/ (pc[c] = "sleeping" /\ now >= wake[c])
    /\ LET t == tally + (now - last) IN
       IF t > Count * Q
       THEN /\ tally' = t - Q /\ last' = now /\ n' = n + 1
            /\ pc' = [pc EXCEPT ![c] = "away"] /\ UNCHANGED wake
       ELSE IF t >= Q
       THEN /\ tally' = t - Q /\ last' = now /\ n' = n + 1
            /\ pc' = [pc EXCEPT ![c] = "away"] /\ UNCHANGED wake
       ELSE /\ pc' = [pc EXCEPT ![c] = "sleeping"] /\ wake' = [wake EXCEPT ![c] = now + (Q - t)]
            /\ UNCHANGED <<tally, last, n>>
    /\ UNCHANGED now

Next == Tick \/ \E c \in Callers : Arrive(c) \/ Try(c)

TypeOK == /\ pc \in [Callers -> {"away", "trying", "sleeping"}]
          /\ wake \in [Callers -> Int]
TallyBounded == tally >= 0 /\ tally <= Count * Q
Accounting == n * Q + tally <= Count * Q + last
IndInv == /\ TypeOK /\ TallyBounded /\ Accounting
          /\ last >= 0 /\ last <= now /\ n >= 0
\* consequence stated for the reader: starts so far are bounded by the bucket plus the elapsed time
RateFromZero == n * Q <= Count * Q + now
IndInit == /\ now \in Int /\ last \in Int /\ tally \in Int /\ n \in Int
           /\ pc \in [Callers -> {"away", "trying", "sleeping"}] /\ wake \in [Callers -> Int]
           /\ IndInv
=============================================================================
