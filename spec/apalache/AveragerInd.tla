----------------------------- MODULE AveragerInd -----------------------------
(***************************************************************************)
(* Unbounded version of Averager.tla's safety (any number of operations):  *)
(* EveryAddCounted as an inductive invariant for Apalache.  The helper     *)
(* conjunct: a client between its read and its write holds the lock and    *)
(* its copy is the stored pair.                                            *)
(***************************************************************************)
EXTENDS Integers, Apalache
Clients == {"c1", "c2", "c3"}
Vals == {1, 2}
VARIABLES
    \* @type: <<Int, Int>>;
    pair,
    \* @type: Str;
    lock,
    \* @type: Str -> Str;
    pc,
    \* @type: Str -> <<Int, Int>>;
    loc,
    \* @type: Str -> Int;
    arg,
    \* @type: <<Int, Int>>;
    ghost

Init == /\ pair = <<0, 0>> /\ lock = "" /\ ghost = <<0, 0>>
        /\ pc = [c \in Clients |-> "idle"] /\ loc = [c \in Clients |-> <<0, 0>>] /\ arg = [c \in Clients |-> 0]
StartAdd(c, v) == /\ pc[c] = "idle" /\ arg' = [arg EXCEPT ![c] = v] /\ pc' = [pc EXCEPT ![c] = "begin"]
                  /\ UNCHANGED <<pair, lock, loc, ghost>>
Begin(c) == /\ pc[c] = "begin" /\ lock = "" /\ lock' = c /\ pc' = [pc EXCEPT ![c] = "read"] /\ UNCHANGED <<pair, loc, arg, ghost>>
Read(c) == /\ pc[c] = "read" /\ loc' = [loc EXCEPT ![c] = pair] /\ pc' = [pc EXCEPT ![c] = "write"] /\ UNCHANGED <<pair, lock, arg, ghost>>
Write(c) == /\ pc[c] = "write" /\ lock = c
            /\ pair' = <<loc[c][1] + arg[c], loc[c][2] + 1>> /\ ghost' = <<ghost[1] + arg[c], ghost[2] + 1>>
            /\ lock' = "" /\ pc' = [pc EXCEPT ![c] = "idle"] /\ UNCHANGED <<loc, arg>>
Pop(c) == /\ pc[c] = "idle" /\ lock = "" /\ pair' = <<0, 0>> /\ ghost' = <<0, 0>> /\ UNCHANGED <<lock, pc, loc, arg>>
Next == \E c \in Clients : (\E v \in Vals : StartAdd(c, v)) \/ Begin(c) \/ Read(c) \/ Write(c) \/ Pop(c)

EveryAddCounted == pair = ghost
IndInv == /\ pc \in [Clients -> {"idle", "begin", "read", "write"}]
          /\ lock \in Clients \cup {""}
          /\ EveryAddCounted
          /\ \A c \in Clients : (pc[c] \in {"read", "write"}) <=> (lock = c)
          /\ \A c \in Clients : pc[c] = "write" => loc[c] = pair
IndInit == /\ pair = Gen(1) /\ ghost = Gen(1) /\ lock \in Clients \cup {""}
           /\ pc \in [Clients -> {"idle", "begin", "read", "write"}]
           /\ loc = Gen(3) /\ arg = Gen(3)
           /\ DOMAIN loc = Clients /\ DOMAIN arg = Clients
           /\ IndInv
=============================================================================
