\* 2 keys x every routing onto 3 shards
SPECIFICATION Spec
CONSTANTS
  QBase = 10
  QIntStart <- mc_QIntStart
  QIntMax <- mc_QIntMax
  QDigits <- mc_QDigits
  CullBatch = 2
  FKeys <- mc_FKeys
  FVals = {1, 100001}
  NShards = 3
  MaxNow = 2
  MaxLook = 2
  Dev <- mc_NoDev
CONSTRAINT Bounded
INVARIANT SameResults
INVARIANT UnionIsReference
INVARIANT Partition
CHECK_DEADLOCK FALSE
