------------------------------- MODULE KeySpace -------------------------------
(***************************************************************************)
(* C02: which keys address the same entry.                                 *)
(* A key descriptor: [t |-> Python type, num |-> <<numerator, denominator, *)
(* exp2>> for numbers, id |-> identity of the content for everything else]. *)
(* DocEq is the documented rule; DbEq is SQLite equality of what Disk.put  *)
(* produces (transcribed).  TLC evaluates SameEntry <=> DocEq over all     *)
(* ordered pairs of the universe; the conformance step runs the same pairs *)
(* through the real cache.                                                 *)
(***************************************************************************)
EXTENDS Integers, Sequences, FiniteSets, TLC
CONSTANTS Dev, Universe

IsNum(k) == k.t \in {"int", "float"}
\* m: identity of the exact numeric value (computed with exact rational arithmetic by the harness)
NumEq(a, b) == a.m = b.m

\* the documented rule: text, bytes and numbers compare as in Python; everything else by type and structure
DocEq(k1, k2) ==
    IF IsNum(k1) /\ IsNum(k2) THEN NumEq(k1, k2)
    ELSE k1.t = k2.t /\ k1.id = k2.id

\* Disk.put: bytes -> (blob, raw); str / int64 / float -> native, raw; everything else -> (pickle blob, not raw)
Native(k) == k.t \in {"str", "bytes", "float"} \/ (k.t = "int" /\ k.int64)
DbClass(k) == IF ~Native(k) THEN "blob" ELSE IF k.t = "str" THEN "text" ELSE IF k.t = "bytes" THEN "blob" ELSE "num"
Raw(k) == Native(k)
\* k.pid: identity of the pickle bytes of a non-native key; a bytes key whose content is that pickle has bid = that pid
BlobId(k) == IF Native(k) THEN k.bid ELSE k.pid
DbEq(k1, k2) ==
    /\ Raw(k1) = Raw(k2)
    /\ DbClass(k1) = DbClass(k2)
    /\ CASE DbClass(k1) = "num" -> NumEq(k1, k2)
         [] DbClass(k1) = "text" -> k1.id = k2.id
         [] OTHER -> BlobId(k1) = BlobId(k2)

\* the released behaviour deviates for an integer beyond 64 bits and the float equal to it
KnownPair(k1, k2) == "D_bigint_float" \in Dev /\ IsNum(k1) /\ IsNum(k2) /\ (Native(k1) # Native(k2))

NoAliasing == \A k1, k2 \in Universe : DbEq(k1, k2) => DocEq(k1, k2)
EqualKeysOneEntry == \A k1, k2 \in Universe : (DocEq(k1, k2) /\ ~KnownPair(k1, k2)) => DbEq(k1, k2)
VARIABLE x
Init == x = 0
Next == UNCHANGED x
Spec == Init /\ [][Next]_x
=============================================================================
