SPECIFICATION DSpec
CONSTANTS
  QBase = 10000000
  QIntStart <- tr_QIntStart
  QIntMax <- tr_QIntMax
  QDigits <- tr_QDigits
  CullBatch = 10
  DjDev <- tr_NoDjDev
CHECK_DEADLOCK FALSE
