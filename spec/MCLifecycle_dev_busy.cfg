\* MUST FAIL SettingsComeBack: a busy database read as 'no stored settings'
SPECIFICATION Spec
CONSTANTS
  Handles = {h1, h2, h3}
  Keys = {k1}
  Vals = {1, 2}
  SettingVals = {1, 2}
  Codecs = {1, 2}
  Dev <- mc_Busy
INVARIANT SettingsComeBack
INVARIANT SameCodec
INVARIANT OneContents
INVARIANT UsedConnectionIsOwn
CHECK_DEADLOCK FALSE
