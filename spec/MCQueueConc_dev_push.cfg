\* MUST FAIL NoLoss: push reads the last key before taking the lock
SPECIFICATION Spec
CONSTANTS
  Producers = {p1, p2}
  Consumers = {c1}
  PerProducer = 2
  PullsEach = 2
  Dev <- mc_DevPush
  Kills = FALSE
INVARIANT AtMostOnce
INVARIANT NoLoss
INVARIANT KeysIncrease
INVARIANT Fifo
CHECK_DEADLOCK FALSE
