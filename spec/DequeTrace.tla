------------------------------ MODULE DequeTrace ------------------------------
(***************************************************************************)
(* Trace validation for C11.  Two kinds of traces, same reference          *)
(* (DequeOps):                                                             *)
(*  "seq":  one client; every event = operation, result, full contents     *)
(*          (also used with collections.deque itself as the implementation *)
(*          under test, which validates DequeOps against the stdlib);      *)
(*  "conc": several clients under the deterministic scheduler; every       *)
(*          COMMIT publishes the contents, which must be the reference     *)
(*          step of the committing client's call on the contents committed *)
(*          just before (exactly-once delivery follows); lock-free reads   *)
(*          are explained by some contents committed during the call.      *)
(***************************************************************************)
EXTENDS DequeOps, Json, IOUtils, TLCExt

Doc == JsonDeserialize(IOEnv.TRACE_FILE)
Traces == Doc.traces
NT == Len(Traces)
VARIABLES tid, l, T, done
tvars == <<tid, l, T, done>>

NoCall == [op |-> "none"]
InitT(t) == [D |-> [items |-> t.init.items, maxlen |-> t.init.maxlen],
             call |-> [c \in 1..t.nc |-> NoCall], saved |-> <<>>]
V(ok, Tn, why) == [ok |-> ok, T |-> Tn, why |-> why]

Multi(op) == op \in {"extend", "extendleft", "rotate", "reverse", "clear", "remove", "setmaxlen"}

\* transact() blocks (C06 through Deque.transact): what the block did is kept when it ends, undone when it raises
BlockStep(To, e) ==
    IF e.ret.k # "none" THEN V(FALSE, To, "C06 " \o e.op \o " of a Deque block failed with " \o e.ret.k)
    ELSE IF e.op = "txbegin" THEN V(e.items = To.D.items, [To EXCEPT !.saved = <<To.D>> \o @], "entering a block changed the contents")
    ELSE IF To.saved = <<>> THEN V(TRUE, To, "")
    ELSE LET \* an exception passes through every enclosing block: everything since the outermost one began is undone
             Dn == IF e.op = "txraise" THEN To.saved[Len(To.saved)] ELSE To.D IN
         IF e.items # Dn.items
         THEN V(FALSE, To, "C06 contents after a Deque block that " \o (IF e.op = "txraise" THEN "raised" ELSE "ended") \o
                           " are not " \o (IF e.op = "txraise" THEN "those before the block: " ELSE "its operations applied: ") \o ToJson(Dn.items))
         ELSE V(TRUE, [To EXCEPT !.D = Dn, !.saved = IF e.op = "txraise" THEN <<>> ELSE Tail(@)], "")
SeqStep(To, e) ==
    IF e.op \in {"txbegin", "txend", "txraise"} THEN BlockStep(To, e) ELSE
    LET r == DDispatch(To.D, e) IN
    IF r.ret.k # e.ret.k \/ r.ret.v # e.ret.v
    THEN V(FALSE, To, e.op \o " returned " \o ToJson(e.ret) \o "; collections.deque returns " \o ToJson(r.ret))
    ELSE IF r.D.items # e.items
    THEN V(FALSE, To, "contents after " \o e.op \o " differ from collections.deque: " \o ToJson(r.D.items))
    ELSE V(TRUE, [To EXCEPT !.D = r.D], "")

\* a call that commits nothing is explained only by contents on which it has nothing to do
DCand(D, cl) == LET r == DDispatch(D, cl) IN IF r.D = D THEN {r.ret} ELSE {}
ConcStep(To, e) ==
    IF e.ev = "call"
    THEN V(TRUE, [To EXCEPT !.call[e.c] = [op |-> e.op, a |-> e.a, st |-> "open", exp |-> DNone,
                                           cand |-> DCand(To.D, e), overlap |-> FALSE]], "")
    ELSE IF e.ev \in {"commit", "awrite"}
    THEN LET cl == To.call[e.c] IN
         IF cl.op = "none" THEN V(FALSE, To, "harness: commit outside a call")
         ELSE IF cl.op = "setmaxlen" /\ cl.a.m >= 0 /\
                 ~(\E k \in 0..Len(To.D.items) : e.items = SubSeq(To.D.items, k + 1, Len(To.D.items))
                                                  /\ (k > 0 => Len(To.D.items) > cl.a.m /\ Len(e.items) >= cl.a.m))
         THEN \* a lowered maxlen discards from the left, and only while the deque is longer than the new bound
              V(FALSE, To, "C11 lowering maxlen to " \o ToString(cl.a.m) \o " discarded items of a deque that was not longer than that (" \o
                           ToJson(To.D.items) \o " -> " \o ToJson(e.items) \o ")")
         ELSE IF Multi(cl.op)
         THEN \* composed operations commit step by step; contents are re-synchronised (not atomic by design);
              \* lookups in flight may observe the intermediate contents
              LET Dn == [To.D EXCEPT !.items = e.items] IN
              V(TRUE, [To EXCEPT !.D = Dn,
                                 !.call = [c \in DOMAIN To.call |->
                                    IF c = e.c THEN [To.call[c] EXCEPT !.st = "multi"]
                                    ELSE IF To.call[c].op # "none" /\ To.call[c].st = "open"
                                    THEN [To.call[c] EXCEPT !.cand = @ \cup DCand(Dn, To.call[c]), !.overlap = TRUE]
                                    ELSE To.call[c]]], "")
         ELSE LET r == DDispatch(To.D, cl)
                  Tn == [To EXCEPT !.D = r.D, !.call[e.c].st = "committed", !.call[e.c].exp = r.ret]
              IN IF e.items = To.D.items /\ r.D.items # e.items /\ cl.st = "open"
                 THEN V(TRUE, To, "")      \* a transaction that changed nothing (e.g. the lookup part of the call)
                 ELSE IF r.D.items # e.items
                 THEN V(FALSE, To, "C11 contents published by the commit of " \o cl.op \o
                                   " are not that operation applied to the contents committed just before: " \o ToJson(r.D.items))
                 ELSE V(TRUE, [Tn EXCEPT !.call = [c \in DOMAIN Tn.call |->
                            IF c # e.c /\ Tn.call[c].op # "none" /\ Tn.call[c].st = "open"
                            THEN [Tn.call[c] EXCEPT !.cand = @ \cup DCand(r.D, Tn.call[c]), !.overlap = TRUE]
                            ELSE Tn.call[c]]], "")
    ELSE IF e.ev = "ret"
    THEN LET cl == To.call[e.c]
             Tq == [To EXCEPT !.call[e.c] = NoCall]
         IN IF cl.op = "none" THEN V(FALSE, To, "harness: ret without call")
            ELSE IF cl.st = "multi" THEN V(TRUE, Tq, "")
            ELSE IF cl.st = "committed"
            THEN IF e.ret = cl.exp THEN V(TRUE, Tq, "")
                 ELSE V(FALSE, To, "C11 " \o cl.op \o " returned " \o ToJson(e.ret) \o " expected " \o ToJson(cl.exp))
            ELSE IF e.ret \in cl.cand THEN V(TRUE, Tq, "")
            \* positional and whole-sequence reads walk the keys in several statements: while another client changes
            \* the deque they are not atomic (C11 promises exactly-once delivery of pops, judged at the commits)
            ELSE IF cl.op \in {"getitem", "iter", "count", "compare"} /\ cl.overlap THEN V(TRUE, Tq, "")
            \* removal by value walks the keys too: the item it found may be taken, and an equal item moved to the other end,
            \* by other clients during the walk - it then reports that there is none (it removed nothing: no commit)
            ELSE IF cl.op = "remove" /\ e.ret.k = "ValueError" /\ cl.overlap THEN V(TRUE, Tq, "")
            ELSE V(FALSE, To, "C11 " \o cl.op \o " returned " \o ToJson(e.ret) \o
                              " which no contents committed during the call explain: " \o ToJson(cl.cand))
    ELSE IF e.ev = "final"
    THEN IF e.items = To.D.items THEN V(TRUE, To, "")
         ELSE V(FALSE, To, "C11 final contents differ from the last committed contents")
    ELSE V(TRUE, To, "")

TInit == tid \in 1..NT /\ l = 1 /\ T = InitT(Traces[tid]) /\ done = FALSE
TNext == /\ ~done
         /\ LET t == Traces[tid]
                e == t.ev[l]
                r == IF t.kind = "seq" THEN SeqStep(T, e) ELSE ConcStep(T, e)
            IN IF r.ok
               THEN /\ T' = r.T /\ l' = l + 1 /\ done' = (l = Len(t.ev))
                    /\ (l = Len(t.ev)) => PrintT("VERDICT " \o ToJson([id |-> t.id, ok |-> TRUE, n |-> l]))
               ELSE /\ PrintT("VERDICT " \o ToJson([id |-> t.id, ok |-> FALSE, at |-> l, why |-> r.why]))
                    /\ done' = TRUE /\ UNCHANGED <<l, T>>
         /\ UNCHANGED tid
TSpec == TInit /\ [][TNext]_tvars
=============================================================================
