---- MODULE MCAverager ----
EXTENDS Averager
mc_NoDev == {}
mc_Dev == {"D_add_not_atomic"}
====
