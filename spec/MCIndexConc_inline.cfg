\* released lookup, inline values only: 3 clients x 3 operations on one key
SPECIFICATION Spec
CONSTANTS
  Clients <- mc_Clients
  Keys <- mc_Keys
  Prog <- mc_ProgInline
  Dev <- mc_Race
INVARIANT PresentKeyAlwaysFound
INVARIANT ValuesExplained
INVARIANT RefsComplete
INVARIANT NoLeak
PROPERTY AllEnd
CHECK_DEADLOCK FALSE
