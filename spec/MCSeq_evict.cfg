\* C09 eviction: 3 keys, file sizes 2/3 units + inline, all policies, cull limit {0,1,2}, limits {3,5}, reads and incr mixed in
SPECIFICATION Spec
CONSTANTS
  QBase = 10
  QIntStart <- mc_QIntStart
  QIntMax <- mc_QIntMax
  QDigits <- mc_QDigits
  CullBatch = 2
  Keys <- mc_Keys3
  Vals = {1, 100011, 100012}
  FileVals = {100011, 100012}
  Tags = {}
  Ttls <- mc_TtlsMix
  QPrefixes <- mc_PrefNone
  MaxNow = 2
  Policies = {"lrs", "lru", "lfu", "none"}
  CullLimits = {0, 1, 2}
  Limits = {3, 5}
  MaxRows = 3
  MaxCtr = 2
  Ops <- mc_EvictOps
CONSTRAINT Bounded
VIEW View
CHECK_DEADLOCK FALSE
INVARIANT UniqueKeys
INVARIANT ExpiredInvisible
INVARIANT LiveVisible
PROPERTY NoSpuriousRemoval
PROPERTY ExplicitRemovalExact
PROPERTY NoExpiryNeverExpires
PROPERTY ExpireComplete
PROPERTY LazyCullBounded
PROPERTY NoEarlyEviction
PROPERTY EvictionOrder
PROPERTY NoneNeverEvicts
PROPERTY CullPost
PROPERTY StatsExact
