\* released lookup with file-backed values: MUST violate PresentKeyAlwaysFound (known finding F12)
SPECIFICATION Spec
CONSTANTS
  Clients <- mc_Clients
  Keys <- mc_Keys
  Prog <- mc_ProgFile
  Dev <- mc_Race
INVARIANT PresentKeyAlwaysFound
INVARIANT ValuesExplained
INVARIANT RefsComplete
INVARIANT NoLeak
PROPERTY AllEnd
CHECK_DEADLOCK FALSE
