------------------------------- MODULE LinTrace -------------------------------
(***************************************************************************)
(* C05 as stated: the results of all completed calls of several PROCESSES  *)
(* can be explained by executing them one at a time in an order that       *)
(* respects real-time precedence (linearizability against CacheOps); the   *)
(* only tolerated anomaly: a lookup overlapping a write or removal of the  *)
(* same key may report a miss.                                             *)
(* The trace is the merged call / return history (stamped by a shared      *)
(* counter).  The spec consumes it in order and, between events, may       *)
(* linearize any pending call (a silent step: apply the reference          *)
(* operation to the contents).  A return is consumed only when its call    *)
(* was linearized with that result.  Accepted iff some path consumes the   *)
(* whole trace: the furthest position reached is kept in a TLC register    *)
(* per trace (workers = 1) and reported by the POSTCONDITION.              *)
(***************************************************************************)
EXTENDS CacheDispatch, Json, IOUtils, TLCExt
tr_QIntStart == <<0, 50000000, 0>>
tr_QIntMax   == <<0, 99999999, 9999999>>
tr_QDigits   == <<53, 48, 48, 48, 48, 48, 48, 48, 48, 48, 48, 48, 48, 48, 48>>
Doc == JsonDeserialize(IOEnv.TRACE_FILE)
Traces == Doc.traces
NT == Len(Traces)
VARIABLES tid, l, db, pend
lvars == <<tid, l, db, pend>>
NoCall == [op |-> "none"]
WithNow(e) == [op |-> e.op, a |-> e.a, now |-> 0]
RECURSIVE ApplyAll(_, _)
ApplyAll(S, ops) == IF ops = <<>> THEN S ELSE ApplyAll(Dispatch(S, WithNow(ops[1])).S, Tail(ops))
KeyOf(cl) == IF "k" \in DOMAIN cl.a THEN cl.a.k ELSE <<>>
Writes(op) == op \in {"set", "add", "incr", "pop", "delete", "touch", "clear", "push", "pull"}

LInit == /\ tid \in 1..NT /\ l = 1
         /\ db = ApplyAll(EmptyCache("none", 0, 1000000000, FALSE), Traces[tid].init.ops)
         /\ pend = [c \in 1..Traces[tid].nc |-> NoCall]
         /\ TLCSet(tid, 1)

Lin(c) == /\ pend[c].op # "none" /\ ~pend[c].lin
          /\ LET r == Dispatch(db, WithNow(pend[c])) IN
             /\ db' = r.S
             /\ pend' = [d \in DOMAIN pend |->
                          IF d = c THEN [pend[c] EXCEPT !.lin = TRUE, !.exp = r.ret]
                          ELSE IF pend[d].op # "none" /\ Writes(pend[c].op) /\ (KeyOf(pend[c]) = KeyOf(pend[d]) \/ pend[c].op = "clear")
                          THEN [pend[d] EXCEPT !.touched = TRUE] ELSE pend[d]]
          /\ UNCHANGED <<tid, l>>

Consume ==
    /\ l <= Len(Traces[tid].ev)
    /\ LET e == Traces[tid].ev[l] IN
       \/ /\ e.ev = "call"
          /\ pend' = [pend EXCEPT ![e.c] = [op |-> e.op, a |-> e.a, lin |-> FALSE, exp |-> RNone,
                                           \* a write of the same key already in flight overlaps this call too
                                           touched |-> \E d \in DOMAIN pend : pend[d].op # "none" /\ Writes(pend[d].op)
                                                          /\ (("k" \in DOMAIN pend[d].a /\ "k" \in DOMAIN e.a /\ pend[d].a.k = e.a.k) \/ pend[d].op = "clear")]]
          /\ UNCHANGED db
       \/ /\ e.ev = "ret"
          /\ pend[e.c].op # "none"
          /\ \/ pend[e.c].lin /\ pend[e.c].exp.k = e.ret.k /\ pend[e.c].exp.v = e.ret.v
             \* the tolerated anomaly: a lookup overlapping a write / removal of the same key reports a miss
             \/ /\ pend[e.c].op \in {"get", "contains"} /\ pend[e.c].touched
                /\ e.ret.k \in {"miss", "false", "KeyError"}
          /\ pend' = [pend EXCEPT ![e.c] = NoCall]
          /\ UNCHANGED db
       \/ /\ e.ev = "final"
          /\ \A c \in DOMAIN pend : pend[c].op = "none"
          /\ e.warn = <<>>
          /\ LET want == {<<db.rows[i].key, db.rows[i].val>> : i \in DOMAIN db.rows} IN
             want = {<<e.pairs[i][1], e.pairs[i][2]>> : i \in DOMAIN e.pairs}
          /\ UNCHANGED <<db, pend>>
    /\ l' = l + 1 /\ UNCHANGED tid

LNext == Consume \/ \E c \in DOMAIN pend : Lin(c)
LSpec == LInit /\ [][LNext]_lvars
\* furthest position reached for each trace
Record == TLCSet(tid, IF TLCGet(tid) > l THEN TLCGet(tid) ELSE l)
Report == \A t \in 1..NT :
             PrintT("VERDICT " \o ToJson([id |-> Traces[t].id, ok |-> TLCGet(t) = Len(Traces[t].ev) + 1, at |-> TLCGet(t),
                                          why |-> "C05 no order of the calls that respects real-time precedence explains the results up to this event"]))
=============================================================================
