SPECIFICATION KSpec
CONSTANTS
  Dev <- tr_Dev
  Universe <- tr_Universe
CHECK_DEADLOCK FALSE
