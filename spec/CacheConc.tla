------------------------------ MODULE CacheConc ------------------------------
(***************************************************************************)
(* Design-level model of how diskcache orders its database statements and  *)
(* file operations (C05 C06 C07 C08 C14), explored exhaustively by TLC:    *)
(* every interleaving of small client programs, a kill at every program    *)
(* counter, an independent lock holder, lock timeouts with and without     *)
(* retry.                                                                  *)
(*                                                                         *)
(* Environment (trusted): SQLite gives one write lock per database         *)
(* (BEGIN IMMEDIATE), atomic COMMIT, reads outside a transaction see the   *)
(* committed contents; a dead connection loses its uncommitted work and    *)
(* its lock.  Files are absent / partial / complete.                       *)
(*                                                                         *)
(* One action per critical section of the code (core.py):                  *)
(*   set/add : StoreCreate StoreClose Begin Select Commit Cleanup          *)
(*   incr    : Begin Select Commit                                         *)
(*   delete  : Begin Select Commit|Rollback Cleanup                        *)
(*   pop     : Begin Select Commit OpenRead RemoveFile                     *)
(*   get     : ReadRow OpenFile          contains : ReadRow                *)
(*   transaction blocks: TxBegin, inner calls without BEGIN/COMMIT,        *)
(*                       TxEnd (COMMIT) or TxRaise (ROLLBACK)              *)
(* The constant Dev switches in deliberately wrong orderings; each must    *)
(* break a named invariant (design-level counterparts of seeded changes).  *)
(*                                                                         *)
(* Ghost state: abs (the abstract dictionary) is updated by the ABSTRACT   *)
(* operation at each linearization point; the invariants compare what the  *)
(* modelled code computed from the rows it read with that.                 *)
(***************************************************************************)
EXTENDS Integers, Sequences, FiniteSets, TLC

CONSTANTS Clients,      \* client ids
          Programs,     \* set of functions client -> sequence of operations (one is chosen in Init)
          Keys, MaxFiles,
          Dev,          \* deviations
          KillAllowed,  \* clients that may be killed at any step
          InitRows      \* set of initial contents: functions Keys -> row

None == [v |-> 0, f |-> 0]                 \* no row; values: 1..9 inline numbers, >= 10 file-backed
IsFile(v) == v >= 10

VARIABLES db, lock, files, pc, ip, prog, loc, abs, alive, nextf, done, txd,
          wdb, wabs,     \* working copy (and its abstract twin) of the client that holds an open transaction block
          pending,       \* files to remove when the outermost block commits
          owned          \* files created by each client (for the debris rule after a kill)
vars == <<db, lock, files, pc, ip, prog, loc, abs, alive, nextf, done, txd, wdb, wabs, pending, owned>>

NoLoc == [sel |-> None, newf |-> 0, oldf |-> 0, ret |-> "none", absret |-> "none", touched |-> FALSE, busy |-> 0,
          wrote |-> FALSE]
Op(c) == prog[c][ip[c]]
HasOp(c) == ip[c] <= Len(prog[c])

Init == /\ \E r \in InitRows : db = r /\ abs = [k \in Keys |-> r[k].v]
        /\ \E p \in Programs : prog = p
        /\ lock = 0
        /\ files = [f \in 1..MaxFiles |-> IF \E k \in Keys : db[k].f = f THEN "complete" ELSE "absent"]
        /\ pc = [c \in Clients |-> "idle"]
        /\ ip = [c \in Clients |-> 1]
        /\ loc = [c \in Clients |-> NoLoc]
        /\ alive = [c \in Clients |-> TRUE]
        /\ nextf = 1 + Cardinality({f \in 1..MaxFiles : files[f] = "complete"})
        /\ done = [c \in Clients |-> <<>>]           \* completed calls: <<op, ret, absret, touched>>
        /\ txd = [c \in Clients |-> 0]                \* depth of the client's open transaction block
        /\ wdb = [c \in Clients |-> db] /\ wabs = [c \in Clients |-> abs]
        /\ pending = [c \in Clients |-> {}] /\ owned = [c \in Clients |-> {}]

\* abstract results ---------------------------------------------------------
AbsApply(a, o) ==      \* [abs, ret]
    LET cur == a[o.k] IN
    CASE o.op = "set" -> [abs |-> [a EXCEPT ![o.k] = o.v], ret |-> "true"]
      [] o.op = "add" -> IF cur = 0 THEN [abs |-> [a EXCEPT ![o.k] = o.v], ret |-> "true"] ELSE [abs |-> a, ret |-> "false"]
      [] o.op = "incr" -> IF cur = 0 THEN [abs |-> [a EXCEPT ![o.k] = 1], ret |-> "1"]
                          ELSE IF IsFile(cur) THEN [abs |-> a, ret |-> "TypeError"]
                          ELSE [abs |-> [a EXCEPT ![o.k] = cur + 1], ret |-> ToString(cur + 1)]
      [] o.op = "delete" -> IF cur = 0 THEN [abs |-> a, ret |-> "false"] ELSE [abs |-> [a EXCEPT ![o.k] = 0], ret |-> "true"]
      [] o.op = "pop" -> IF cur = 0 THEN [abs |-> a, ret |-> "miss"] ELSE [abs |-> [a EXCEPT ![o.k] = 0], ret |-> ToString(cur)]
      [] o.op \in {"get", "contains"} -> [abs |-> a, ret |-> IF cur = 0 THEN "miss" ELSE ToString(cur)]
      [] OTHER -> [abs |-> a, ret |-> "none"]

\* what the code computes from the row it SELECTed (loc.sel) ----------------
CodeNew(c) ==      \* [row, ret, oldf, dropnew]
    LET o == Op(c)
        s == loc[c].sel
    IN CASE o.op = "set" -> [row |-> [v |-> o.v, f |-> loc[c].newf], ret |-> "true", oldf |-> s.f, dropnew |-> FALSE]
         [] o.op = "add" -> IF s = None THEN [row |-> [v |-> o.v, f |-> loc[c].newf], ret |-> "true", oldf |-> 0, dropnew |-> FALSE]
                            ELSE [row |-> s, ret |-> "false", oldf |-> 0, dropnew |-> TRUE]
         [] o.op = "incr" -> IF s = None THEN [row |-> [v |-> 1, f |-> 0], ret |-> "1", oldf |-> 0, dropnew |-> FALSE]
                             ELSE IF IsFile(s.v) THEN [row |-> s, ret |-> "TypeError", oldf |-> 0, dropnew |-> FALSE]
                             ELSE [row |-> [v |-> s.v + 1, f |-> 0], ret |-> ToString(s.v + 1), oldf |-> 0, dropnew |-> FALSE]
         [] o.op = "delete" -> IF s = None THEN [row |-> None, ret |-> "false", oldf |-> 0, dropnew |-> FALSE]
                               ELSE [row |-> None, ret |-> "true", oldf |-> s.f, dropnew |-> FALSE]
         [] o.op = "pop" -> IF s = None THEN [row |-> None, ret |-> "miss", oldf |-> 0, dropnew |-> FALSE]
                            ELSE [row |-> None, ret |-> ToString(s.v), oldf |-> s.f, dropnew |-> FALSE]
         [] OTHER -> [row |-> s, ret |-> "none", oldf |-> 0, dropnew |-> FALSE]

View(c) == IF txd[c] > 0 THEN wdb[c] ELSE db
AView(c) == IF txd[c] > 0 THEN wabs[c] ELSE abs
IsWrite(o) == o.op \in {"set", "add", "incr", "delete", "pop"}
Finish(c, ret, absret, touched) ==
    /\ done' = [done EXCEPT ![c] = Append(@, <<Op(c), ret, absret, touched>>)]
    /\ ip' = [ip EXCEPT ![c] = @ + 1]
    /\ pc' = [pc EXCEPT ![c] = "idle"]
    /\ loc' = [loc EXCEPT ![c] = NoLoc]

\* mark readers in flight whose key is changed by a commit
Touch(k, me) == [c \in Clients |-> IF c # me /\ pc[c] \in {"opened", "rowread"} /\ HasOp(c) /\ Op(c).op = "get" /\ Op(c).k = k
                                  THEN [loc[c] EXCEPT !.touched = TRUE] ELSE loc[c]]

(***************************************************************************)
(* Steps of a client                                                       *)
(***************************************************************************)
UNCH_TX == UNCHANGED <<wdb, wabs, pending>>

Start(c) ==
    /\ alive[c] /\ pc[c] = "idle" /\ HasOp(c)
    /\ LET o == Op(c) IN
       CASE o.op \in {"set", "add"} /\ IsFile(o.v) ->
              /\ nextf <= MaxFiles
              /\ files' = [files EXCEPT ![nextf] = "partial"]              \* StoreCreate
              /\ loc' = [loc EXCEPT ![c].newf = nextf]
              /\ nextf' = nextf + 1
              /\ owned' = [owned EXCEPT ![c] = @ \cup {nextf}]
              /\ pc' = [pc EXCEPT ![c] = "created"]
         [] o.op \in {"get", "contains"} ->
              \* ReadRow: an autocommit SELECT; inside its own block the client reads its working copy
              /\ loc' = [loc EXCEPT ![c].sel = View(c)[o.k], ![c].absret = AbsApply(AView(c), o).ret]
              /\ pc' = [pc EXCEPT ![c] = "rowread"]
              /\ UNCHANGED <<files, nextf, owned>>
         [] o.op = "txbegin" -> pc' = [pc EXCEPT ![c] = "begin"] /\ UNCHANGED <<files, nextf, loc, owned>>
         [] o.op \in {"txend", "txraise"} -> pc' = [pc EXCEPT ![c] = "txclose"] /\ UNCHANGED <<files, nextf, loc, owned>>
         [] OTHER -> /\ pc' = [pc EXCEPT ![c] = IF "D_select_before_begin" \in Dev /\ o.op \in {"pop", "add"} THEN "preselect" ELSE "begin"]
                     /\ UNCHANGED <<files, nextf, loc, owned>>
    /\ UNCHANGED <<db, lock, abs, txd, ip, prog, alive, done>> /\ UNCH_TX

StoreClose(c) ==
    /\ alive[c] /\ pc[c] = "created"
    /\ files' = [files EXCEPT ![loc[c].newf] = "complete"]
    /\ pc' = [pc EXCEPT ![c] = IF "D_select_before_begin" \in Dev /\ Op(c).op = "add" THEN "preselect" ELSE "begin"]
    /\ UNCHANGED <<db, lock, abs, ip, prog, loc, alive, nextf, done, txd, owned>> /\ UNCH_TX

\* deviation: the SELECT is issued before the write lock is taken
PreSelect(c) ==
    /\ alive[c] /\ pc[c] = "preselect"
    /\ loc' = [loc EXCEPT ![c].sel = View(c)[Op(c).k]]
    /\ pc' = [pc EXCEPT ![c] = "begin"]
    /\ UNCHANGED <<db, lock, files, abs, ip, prog, alive, nextf, done, txd, owned>> /\ UNCH_TX

\* BEGIN IMMEDIATE (skipped inside the client's own transaction block)
Begin(c) ==
    /\ alive[c] /\ pc[c] = "begin"
    /\ IF txd[c] > 0 /\ Op(c).op # "txbegin"
       THEN /\ pc' = [pc EXCEPT ![c] = "locked"] /\ UNCHANGED <<lock, files, loc, done, ip, txd>> /\ UNCH_TX
       ELSE IF txd[c] > 0
       THEN \* nested block: only the depth grows
            /\ txd' = [txd EXCEPT ![c] = @ + 1] /\ Finish(c, "none", "none", FALSE) /\ UNCHANGED <<lock, files>> /\ UNCH_TX
       ELSE IF lock = 0
       THEN /\ lock' = c
            /\ IF Op(c).op = "txbegin"
               THEN /\ txd' = [txd EXCEPT ![c] = 1] /\ Finish(c, "none", "none", FALSE) /\ UNCHANGED files
                    /\ wdb' = [wdb EXCEPT ![c] = db] /\ wabs' = [wabs EXCEPT ![c] = abs] /\ pending' = [pending EXCEPT ![c] = {}]
               ELSE /\ pc' = [pc EXCEPT ![c] = "locked"] /\ UNCHANGED <<files, loc, done, ip, txd>> /\ UNCH_TX
       ELSE IF Op(c).op # "txbegin" /\ ~Op(c).retry
       THEN \* Timeout: the freshly written file is removed, nothing else happened
            /\ files' = (IF loc[c].newf # 0 /\ "D_no_timeout_cleanup" \notin Dev THEN [files EXCEPT ![loc[c].newf] = "absent"] ELSE files)
            /\ Finish(c, "Timeout", "Timeout", FALSE)
            /\ UNCHANGED <<lock, txd>> /\ UNCH_TX
       ELSE UNCHANGED <<lock, files, pc, loc, done, ip, txd>> /\ UNCH_TX                               \* retry: spin
    /\ UNCHANGED <<db, abs, prog, alive, nextf, owned>>

Select(c) ==
    /\ alive[c] /\ pc[c] = "locked"
    /\ loc' = [loc EXCEPT ![c].sel = IF "D_select_before_begin" \in Dev /\ Op(c).op \in {"pop", "add"} THEN @ ELSE View(c)[Op(c).k]]
    /\ pc' = [pc EXCEPT ![c] = "selected"]
    /\ UNCHANGED <<db, lock, files, abs, ip, prog, alive, nextf, done, txd, owned>> /\ UNCH_TX

\* UPDATE/INSERT/DELETE + COMMIT (or ROLLBACK when the body raised).  Outside a block the abstract dictionary
\* moves here (the linearization point); inside a block only the working copy and its abstract twin move.
Commit(c) ==
    /\ alive[c] /\ pc[c] = "selected"
    /\ LET o == Op(c)
           n == CodeNew(c)
           a == AbsApply(AView(c), o)
           rolled == n.ret \in {"TypeError"}
           inblock == txd[c] > 0
       IN /\ IF inblock
             THEN /\ wdb' = [wdb EXCEPT ![c] = IF rolled THEN @ ELSE [@ EXCEPT ![o.k] = n.row]]
                  /\ wabs' = [wabs EXCEPT ![c] = a.abs]
                  /\ UNCHANGED <<db, abs, lock>>
                  /\ loc' = [loc EXCEPT ![c].ret = n.ret, ![c].absret = a.ret,
                                        ![c].oldf = IF n.dropnew THEN loc[c].newf ELSE n.oldf, ![c].wrote = TRUE]
             ELSE /\ db' = IF rolled THEN db ELSE [db EXCEPT ![o.k] = n.row]
                  /\ abs' = a.abs
                  /\ lock' = 0
                  /\ UNCHANGED <<wdb, wabs>>
                  /\ loc' = [Touch(o.k, c) EXCEPT ![c].ret = n.ret, ![c].absret = a.ret,
                                                 ![c].oldf = IF n.dropnew THEN loc[c].newf ELSE n.oldf, ![c].wrote = TRUE]
          /\ pc' = [pc EXCEPT ![c] = IF o.op = "pop" /\ n.oldf # 0 THEN "popread" ELSE "cleanup"]
    /\ UNCHANGED <<files, ip, prog, alive, nextf, done, txd, pending, owned>>

\* files of replaced / removed / refused values are removed after the commit; inside a block the removal is
\* deferred to the end of the outermost block (the released code removes them here: deviation D_inner_cleanup)
Cleanup(c) ==
    /\ alive[c] /\ pc[c] = "cleanup"
    /\ IF txd[c] > 0 /\ "D_inner_cleanup" \notin Dev
       THEN /\ pending' = [pending EXCEPT ![c] = IF loc[c].oldf # 0 THEN @ \cup {loc[c].oldf} ELSE @]
            /\ UNCHANGED files
       ELSE /\ files' = (IF loc[c].oldf # 0 THEN [files EXCEPT ![loc[c].oldf] = "absent"] ELSE files)
            /\ UNCHANGED pending
    /\ Finish(c, loc[c].ret, loc[c].absret, FALSE)
    /\ UNCHANGED <<db, lock, abs, prog, alive, nextf, txd, wdb, wabs, owned>>

\* pop: read the value file after the commit, then remove it
PopRead(c) ==
    /\ alive[c] /\ pc[c] = "popread"
    /\ loc' = [loc EXCEPT ![c].ret = IF files[loc[c].oldf] = "complete" THEN @ ELSE "miss"]
    /\ pc' = [pc EXCEPT ![c] = "cleanup"]
    /\ UNCHANGED <<db, lock, files, abs, ip, prog, alive, nextf, done, txd, owned>> /\ UNCH_TX

\* get: open the value file named by the row read earlier
OpenFile(c) ==
    /\ alive[c] /\ pc[c] = "rowread"
    /\ LET s == loc[c].sel
           r == IF s = None THEN "miss"
                ELSE IF s.f = 0 \/ Op(c).op = "contains" THEN ToString(s.v)        \* membership does not open the file
                ELSE IF files[s.f] = "complete" THEN ToString(s.v) ELSE "miss"       \* vanished file: reported as a miss
       IN Finish(c, r, loc[c].absret, loc[c].touched)
    /\ UNCHANGED <<db, lock, files, abs, prog, alive, nextf, txd, owned>> /\ UNCH_TX

\* end of a transaction block: the outermost txend COMMITs the working copy (one linearization point for the
\* whole block) and removes the deferred files; txraise ROLLBACKs whatever the depth and forgets them
TxClose(c) ==
    /\ alive[c] /\ pc[c] = "txclose" /\ txd[c] > 0
    /\ IF Op(c).op = "txend" /\ txd[c] > 1
       THEN /\ txd' = [txd EXCEPT ![c] = @ - 1] /\ UNCHANGED <<db, abs, lock, files, loc>> /\ UNCH_TX
       ELSE IF Op(c).op = "txend"
       THEN /\ db' = wdb[c] /\ abs' = wabs[c] /\ lock' = 0
            /\ txd' = [txd EXCEPT ![c] = 0]
            /\ files' = [f \in 1..MaxFiles |-> IF f \in pending[c] THEN "absent" ELSE files[f]]
            /\ pending' = [pending EXCEPT ![c] = {}]
            /\ loc' = [d \in Clients |-> IF d # c /\ pc[d] = "rowread" /\ HasOp(d) /\ Op(d).op = "get" /\ wdb[c][Op(d).k] # db[Op(d).k]
                                         THEN [loc[d] EXCEPT !.touched = TRUE] ELSE loc[d]]
            /\ UNCHANGED <<wdb, wabs>>
       ELSE \* the body raised: ROLLBACK; files written inside the block are removed with it (intended design)
            /\ lock' = 0 /\ txd' = [txd EXCEPT ![c] = 0] /\ pending' = [pending EXCEPT ![c] = {}]
            /\ files' = (IF "D_abort_leak" \in Dev THEN files
                         ELSE [f \in 1..MaxFiles |-> IF f \in owned[c] /\ ~(\E k \in Keys : db[k].f = f) THEN "absent" ELSE files[f]])
            /\ UNCHANGED <<db, abs, loc, wdb, wabs>>
    /\ done' = [done EXCEPT ![c] = Append(@, <<Op(c), "none", "none", FALSE>>)]
    /\ ip' = [ip EXCEPT ![c] = @ + 1]
    /\ pc' = [pc EXCEPT ![c] = "idle"]
    /\ UNCHANGED <<prog, alive, nextf, owned>>

\* a process dies: uncommitted work and the lock are gone; its files stay as they are
Kill(c) ==
    /\ c \in KillAllowed /\ alive[c] /\ (pc[c] # "idle" \/ txd[c] > 0)
    /\ alive' = [alive EXCEPT ![c] = FALSE]
    /\ lock' = IF lock = c THEN 0 ELSE lock
    /\ UNCHANGED <<db, files, abs, pc, ip, prog, loc, nextf, done, txd, owned>> /\ UNCH_TX

Next == \E c \in Clients : Start(c) \/ StoreClose(c) \/ PreSelect(c) \/ Begin(c) \/ Select(c) \/ Commit(c)
                           \/ Cleanup(c) \/ PopRead(c) \/ OpenFile(c) \/ TxClose(c) \/ Kill(c)
Spec == Init /\ [][Next]_vars

(***************************************************************************)
(* Deviation that reorders steps: the file of a popped / deleted / replaced value is removed BEFORE the commit *)
(***************************************************************************)
CommitDev(c) ==
    /\ "D_remove_before_commit" \in Dev
    /\ alive[c] /\ pc[c] = "selected" /\ txd[c] = 0 /\ CodeNew(c).oldf # 0
    /\ files' = [files EXCEPT ![CodeNew(c).oldf] = "absent"]
    /\ pc' = [pc EXCEPT ![c] = "selected2"]
    /\ UNCHANGED <<db, lock, abs, ip, prog, loc, alive, nextf, done, txd, owned>> /\ UNCH_TX
CommitAfterDev(c) ==
    /\ alive[c] /\ pc[c] = "selected2"
    /\ LET o == Op(c)
           n == CodeNew(c)
           a == AbsApply(abs, o)
       IN /\ db' = [db EXCEPT ![o.k] = n.row] /\ abs' = a.abs /\ lock' = 0
          /\ Finish(c, n.ret, a.ret, FALSE)
    /\ UNCHANGED <<files, prog, alive, nextf, txd, owned>> /\ UNCH_TX
NextDev == Next \/ \E c \in Clients : CommitDev(c) \/ CommitAfterDev(c)
SpecDev == Init /\ [][NextDev]_vars

(***************************************************************************)
(* Properties                                                              *)
(***************************************************************************)
TypeOK == /\ lock \in Clients \cup {0}
          /\ \A k \in Keys : db[k].f \in 0..MaxFiles

\* C07: at every instant every committed item that keeps its value in a file names a complete file
CommittedRefsComplete == \A k \in Keys : db[k].f # 0 => files[db[k].f] = "complete"

\* C05: the committed contents are always what the abstract operations, applied one at a time at the
\* commit points, produce (no lost update, no stale write)
AbsAgree == \A k \in Keys : db[k].v = abs[k]

\* C05: every completed call returned what the abstract operation returns at its linearization point;
\* the only tolerated anomaly: a lookup overlapping a write/removal of the same key may report a miss
ReturnsLinearizable ==
    \A c \in Clients : \A i \in DOMAIN done[c] :
        LET d == done[c][i] IN
        \/ d[2] = d[3]
        \/ (d[1].op = "get" /\ d[2] = "miss" /\ d[4])

\* C07: a dead process holds no lock
DeadLeavesNoLock == \A c \in Clients : ~alive[c] => lock # c

\* C08 / C14: when nobody is inside a call, every file on disk is referenced by an item
\* (files left by killed clients are debris and allowed)
Quiescent == \A c \in Clients : alive[c] => (pc[c] = "idle" /\ txd[c] = 0)
Dead == {x \in Clients : ~alive[x]}
Debris == UNION {owned[c] \cup pending[c] \cup {loc[c].oldf} : c \in Dead}
QuiescentAgreement ==
    Quiescent => \A f \in 1..MaxFiles :
        files[f] # "absent" => (\E k \in Keys : db[k].f = f) \/ f \in Debris

\* C14: a call that timed out changed nothing (it never reached Commit: wrote stays FALSE) - by construction of
\* Finish in Begin; checked through AbsAgree + QuiescentAgreement.

\* exactly one of two concurrent add succeeds, no incr is lost, one pop/delete wins: consequences of
\* ReturnsLinearizable + AbsAgree, stated directly for the final states
AllDone == \A c \in Clients : ~alive[c] \/ ~HasOp(c)
=============================================================================
