\* intended lookup (re-reads the row when the file vanished), file-backed values
SPECIFICATION Spec
CONSTANTS
  Clients <- mc_Clients
  Keys <- mc_Keys
  Prog <- mc_ProgFile
  Dev <- mc_NoDev
INVARIANT PresentKeyAlwaysFound
INVARIANT ValuesExplained
INVARIANT RefsComplete
INVARIANT NoLeak
PROPERTY AllEnd
CHECK_DEADLOCK FALSE
