\* Averager: 3 clients, values {1, 2}, up to 5 operations (add / get / pop)
SPECIFICATION Spec
CONSTANTS
  Clients = {c1, c2, c3}
  Vals = {1, 2}
  MaxOps = 5
  Dev <- mc_NoDev
INVARIANT EveryAddCounted
PROPERTY AllAddsFinish
CHECK_DEADLOCK FALSE
