------------------------------ MODULE IndexTrace ------------------------------
(* Trace validation for C12 (sequential and concurrent), reference IndexOps. *)
EXTENDS IndexOps, Json, IOUtils, TLCExt
CONSTANT Dev
tr_Dev == {"D_lookup_replace_race"}
Doc == JsonDeserialize(IOEnv.TRACE_FILE)
Traces == Doc.traces
NT == Len(Traces)
VARIABLES tid, l, T, done
tvars == <<tid, l, T, done>>
NoCall == [op |-> "none"]
InitT(t) == [X |-> t.init.pairs, call |-> [c \in 1..t.nc |-> NoCall], known |-> {}, saved |-> <<>>]
V(ok, Tn, why) == [ok |-> ok, T |-> Tn, why |-> why]
Multi(op) == op \in {"update", "clear"}

\* transact() blocks (C06 through Index.transact)
BlockStep(To, e) ==
    IF e.ret.k # "none" THEN V(FALSE, To, "C06 " \o e.op \o " of an Index block failed with " \o e.ret.k)
    ELSE IF e.op = "txbegin" THEN V(e.pairs = To.X, [To EXCEPT !.saved = <<To.X>> \o @], "entering a block changed the contents")
    ELSE IF To.saved = <<>> THEN V(TRUE, To, "")
    ELSE LET Xn == IF e.op = "txraise" THEN To.saved[Len(To.saved)] ELSE To.X IN
         IF e.pairs # Xn
         THEN V(FALSE, To, "C06 contents after an Index block that " \o (IF e.op = "txraise" THEN "raised" ELSE "ended") \o
                           " are not " \o (IF e.op = "txraise" THEN "those before the block: " ELSE "its operations applied: ") \o ToJson(Xn))
         ELSE V(TRUE, [To EXCEPT !.X = Xn, !.saved = IF e.op = "txraise" THEN <<>> ELSE Tail(@)], "")
SeqStep(To, e) ==
    IF e.op \in {"txbegin", "txend", "txraise"} THEN BlockStep(To, e) ELSE
    LET r == IDispatch(To.X, e) IN
    IF r.ret.k # e.ret.k \/ r.ret.v # e.ret.v
    THEN V(FALSE, To, e.op \o " returned " \o ToJson(e.ret) \o "; an ordered dictionary returns " \o ToJson(r.ret))
    ELSE IF r.X # e.pairs
    THEN V(FALSE, To, "contents after " \o e.op \o " differ from the ordered dictionary: " \o ToJson(r.X))
    ELSE V(TRUE, [To EXCEPT !.X = r.X], "")

\* a call that commits nothing is explained only by contents on which it has nothing to do (as in MonitorTrace):
\* an insertion that "succeeded" without a COMMIT did not happen
ICand(X, cl) == LET r == IDispatch(X, cl) IN IF r.X = X THEN {r.ret} ELSE {}
ConcStep(To, e) ==
    IF e.ev = "call"
    THEN V(TRUE, [To EXCEPT !.call[e.c] = [op |-> e.op, a |-> e.a, st |-> "open", exp |-> INone,
                                           cand |-> ICand(To.X, e), written |-> {}]], "")
    ELSE IF e.ev \in {"commit", "awrite"}
    THEN LET cl == To.call[e.c] IN
         IF cl.op = "none" THEN V(FALSE, To, "harness: commit outside a call")
         ELSE IF Multi(cl.op)
         THEN V(TRUE, [To EXCEPT !.X = e.pairs,
                                 !.call = [c \in DOMAIN To.call |->
                                    IF c = e.c THEN [To.call[c] EXCEPT !.st = "multi"]
                                    ELSE IF To.call[c].op # "none" /\ To.call[c].st = "open"
                                    THEN [To.call[c] EXCEPT !.cand = @ \cup ICand(e.pairs, To.call[c])]
                                    ELSE To.call[c]]], "")
         ELSE LET r == IDispatch(To.X, cl)
                  chg == {k \in {To.X[i][1] : i \in DOMAIN To.X} \cup {r.X[i][1] : i \in DOMAIN r.X} :
                             IGet(To.X, k).ret # IGet(r.X, k).ret}
              IN IF e.pairs = To.X /\ cl.st = "open"
                 THEN \* a transaction of the call that changed nothing: an observation point of the call
                      \* (peekitem re-reads in a new transaction when its value file vanished, setdefault looks up first, ...)
                      \* (an assignment of the value already stored still replaces the row and its value file)
                      V(TRUE, [To EXCEPT !.call = [c \in DOMAIN To.call |->
                                 IF c = e.c THEN [To.call[c] EXCEPT !.cand = @ \cup (IF r.X = To.X THEN {r.ret} ELSE {})]
                                 ELSE IF To.call[c].op # "none" /\ cl.op = "setitem"
                                 THEN [To.call[c] EXCEPT !.written = @ \cup {cl.a.k}]
                                 ELSE To.call[c]]], "")
                 ELSE IF r.X # e.pairs
                 THEN V(FALSE, To, "C12 contents published by the commit of " \o cl.op \o
                                   " are not that operation applied to the contents committed just before: " \o ToJson(r.X))
                 ELSE V(TRUE, [To EXCEPT !.X = r.X,
                          !.call = [c \in DOMAIN To.call |->
                             IF c = e.c THEN [To.call[c] EXCEPT !.st = "committed", !.exp = r.ret]
                             ELSE IF To.call[c].op # "none" /\ (To.call[c].st = "open" \/ To.call[c].op = "setdefault")
                             THEN [To.call[c] EXCEPT !.cand = @ \cup ICand(r.X, To.call[c]),
                                                     !.written = @ \cup chg]
                             ELSE To.call[c]]], "")
    ELSE IF e.ev = "ret"
    THEN LET cl == To.call[e.c]
             Tq == [To EXCEPT !.call[e.c] = NoCall]
         IN IF cl.op = "none" THEN V(FALSE, To, "harness: ret without call")
            ELSE IF cl.st = "multi" THEN V(TRUE, Tq, "")
            ELSE IF cl.st = "committed"
            THEN IF e.ret = cl.exp THEN V(TRUE, Tq, "")
                 \* setdefault is "look up, add, look up again": its result may be a value another client assigned
                 \* after the insertion (still one of the values the key had during the call)
                 ELSE IF cl.op = "setdefault" /\ e.ret \in cl.cand THEN V(TRUE, Tq, "")
                 ELSE V(FALSE, To, "C12 " \o cl.op \o " returned " \o ToJson(e.ret) \o " expected " \o ToJson(cl.exp))
            ELSE IF e.ret \in cl.cand THEN V(TRUE, Tq, "")
            \* a lookup overlapping a removal of the same key that is still in flight may already miss it
            ELSE IF cl.op \in {"getitem", "contains"} /\ e.ret \in {IKeyError, IR("false", <<>>)} /\
                    \E d \in DOMAIN To.call : d # e.c /\ To.call[d].op # "none" /\
                       \/ (To.call[d].op \in {"delitem", "pop"} /\ To.call[d].a.k = cl.a.k)
                       \/ To.call[d].op \in {"popitem", "clear"}
            THEN V(TRUE, Tq, "")
            \* known finding: a lookup overlapping the replacement of a file-backed value raises KeyError
            \* (membership of a MutableMapping is "try self[key]": the same lookup)
            ELSE IF "D_lookup_replace_race" \in Dev /\
                    ((cl.op = "getitem" /\ e.ret = IKeyError) \/ (cl.op = "contains" /\ e.ret = IR("false", <<>>))) /\
                    cl.a.k \in cl.written
            THEN V(TRUE, [Tq EXCEPT !.known = @ \cup {"D_lookup_replace_race"}], "KNOWN")
            ELSE V(FALSE, To, "C12 " \o cl.op \o " returned " \o ToJson(e.ret) \o
                              " which no contents committed during the call explain: " \o ToJson(cl.cand))
    ELSE IF e.ev = "final"
    THEN IF e.pairs = To.X THEN V(TRUE, To, "") ELSE V(FALSE, To, "C12 final contents differ from the last committed contents")
    ELSE V(TRUE, To, "")

TInit == tid \in 1..NT /\ l = 1 /\ T = InitT(Traces[tid]) /\ done = FALSE
TNext == /\ ~done
         /\ LET t == Traces[tid]
                e == t.ev[l]
                r == IF t.kind = "seq" THEN SeqStep(T, e) ELSE ConcStep(T, e)
            IN IF r.ok /\ r.why = "KNOWN"
               THEN /\ PrintT("VERDICT " \o ToJson([id |-> t.id, ok |-> TRUE, n |-> l, known |-> r.T.known]))
                    /\ done' = TRUE /\ UNCHANGED <<l, T>>
               ELSE IF r.ok
               THEN /\ T' = r.T /\ l' = l + 1 /\ done' = (l = Len(t.ev))
                    /\ (l = Len(t.ev)) => PrintT("VERDICT " \o ToJson([id |-> t.id, ok |-> TRUE, n |-> l, known |-> r.T.known]))
               ELSE /\ PrintT("VERDICT " \o ToJson([id |-> t.id, ok |-> FALSE, at |-> l, why |-> r.why]))
                    /\ done' = TRUE /\ UNCHANGED <<l, T>>
         /\ UNCHANGED tid
TSpec == TInit /\ [][TNext]_tvars
=============================================================================
