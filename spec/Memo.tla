-------------------------------- MODULE Memo --------------------------------
(***************************************************************************)
(* C16: the memoizing decorators.                                          *)
(* A call signature is [pos |-> sequence of values, kw |-> sequence of     *)
(* <<name, value>> sorted by name].  Values are strings that carry their   *)
(* type ("N" None, "s:a" the text 'a', "i:1", "f:1", "b:1" ...): keys are  *)
(* pickled tuples, so 1, 1.0 and True are different key elements.          *)
(*                                                                         *)
(* KeyCode is a transcription of diskcache.core.args_to_key.  With         *)
(* "D_none_separator" in Dev it is the function as released (positional    *)
(* and keyword parts are flattened into one tuple with None in between);   *)
(* with Dev = {} it is the intended, injective key.  TLC evaluates         *)
(* NoSharedEntry over ALL ordered pairs of signatures of the alphabet.     *)
(***************************************************************************)
EXTENDS Integers, Sequences, FiniteSets, TLC, SequencesExt

CONSTANTS Dev, Vals, Names, MaxPos

TypeOf(v) == SubSeq(v, 1, 1)        \* first character: N s i f b

\* ignore: set of positions (0-based, as strings "0","1") and names
\* keyword arguments reach the key function as a dictionary in the order the caller wrote them; the key sorts them by name
NameOrder == <<"a", "b">>
NameRank(n) == CHOOSE i \in DOMAIN NameOrder : NameOrder[i] = n
SortKw(kw) == SortSeq(kw, LAMBDA x, y : NameRank(x[1]) < NameRank(y[1]))
Filt(sig, ign) ==
    [pos |-> SelectSeq([i \in DOMAIN sig.pos |-> <<i - 1, sig.pos[i]>>], LAMBDA x : ToString(x[1]) \notin ign),
     kw |-> SortKw(SelectSeq(sig.kw, LAMBDA x : x[1] \notin ign)),
     written |-> SelectSeq(sig.kw, LAMBDA x : x[1] \notin ign)]
PosVals(f) == [i \in DOMAIN f.pos |-> f.pos[i][2]]

KeyCode(sig, typed, ign) ==
    LET f == Filt(sig, ign)
        pv == PosVals(f)
        kwflat == FlattenSeq([i \in DOMAIN f.kw |-> <<"n:" \o f.kw[i][1], f.kw[i][2]>>])
        \* deviation D_types_in_call_order: the types of the keyword values taken in the order written, not sorted
        tkw == IF "D_types_in_call_order" \in Dev THEN f.written ELSE f.kw
        types == IF typed THEN [i \in DOMAIN pv |-> "T" \o TypeOf(pv[i])] \o [i \in DOMAIN tkw |-> "T" \o TypeOf(tkw[i][2])]
                 ELSE <<>>
    IN IF "D_none_separator" \in Dev
       THEN \* released: base + args + (None,) + flattened sorted kwargs items + types
            \* (a keyword NAME is a plain text in the tuple: "n:a" and the text value "s:a" are the same element)
            pv \o <<"N">> \o [i \in DOMAIN kwflat |-> IF Len(kwflat[i]) > 2 /\ SubSeq(kwflat[i], 1, 2) = "n:" THEN "s:" \o SubSeq(kwflat[i], 3, Len(kwflat[i])) ELSE kwflat[i]] \o types
       ELSE <<pv, f.kw, types>>

\* two signatures are the same call (after ignoring) - typed adds the types, which the values already carry
Same(s1, s2, ign) == Filt(s1, ign).kw = Filt(s2, ign).kw /\ PosVals(Filt(s1, ign)) = PosVals(Filt(s2, ign))

KwSets == {<<>>} \cup {<<<<n, v>>>> : n \in Names, v \in Vals}
          \cup {<<<<"a", v>>, <<"b", w>>>> : v \in Vals, w \in Vals}
          \cup {<<<<"b", w>>, <<"a", v>>>> : v \in Vals, w \in Vals}      \* the same keywords written in the other order
Sigs == UNION {[pos : [1..n -> Vals], kw : KwSets] : n \in 0..MaxPos}

NoSharedEntry(typed, ign) == \A s1, s2 \in Sigs : KeyCode(s1, typed, ign) = KeyCode(s2, typed, ign) => Same(s1, s2, ign)
NoSharedEntryAll == \A typed \in BOOLEAN, ign \in {{}, {"0"}, {"a"}, {"0", "a"}} : NoSharedEntry(typed, ign)
\* and the key never distinguishes calls that are the same
SameCallSameKey == \A typed \in BOOLEAN : \A s1, s2 \in Sigs : Same(s1, s2, {}) => KeyCode(s1, typed, {}) = KeyCode(s2, typed, {})

\* the key starts with the function's name: module + qualified name; two different functions never share
Fns == {[mod |-> "m", qual |-> "A.f", name |-> "f"], [mod |-> "m", qual |-> "B.f", name |-> "f"],
        [mod |-> "m", qual |-> "g", name |-> "g"], [mod |-> "n", qual |-> "g", name |-> "g"]}
Base(fn) == IF "D_short_name" \in Dev THEN <<fn.mod, fn.name>> ELSE <<fn.mod, fn.qual>>
DistinctFunctionsDistinctNames == \A f1, f2 \in Fns : Base(f1) = Base(f2) => f1 = f2

VARIABLE x
Init == x = 0
Next == UNCHANGED x
Spec == Init /\ [][Next]_x
=============================================================================
