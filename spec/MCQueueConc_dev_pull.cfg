\* MUST FAIL AtMostOnce: pull selects the head before taking the lock
SPECIFICATION Spec
CONSTANTS
  Producers = {p1}
  Consumers = {c1, c2}
  PerProducer = 2
  PullsEach = 2
  Dev <- mc_DevPull
  Kills = FALSE
INVARIANT AtMostOnce
INVARIANT NoLoss
INVARIANT KeysIncrease
INVARIANT Fifo
CHECK_DEADLOCK FALSE
