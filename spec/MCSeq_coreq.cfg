\* C03 quick: as core with clock 0..1 and ttl in {None,1,-1}
SPECIFICATION Spec
CONSTANTS
  QBase = 10
  QIntStart <- mc_QIntStart
  QIntMax <- mc_QIntMax
  QDigits <- mc_QDigits
  CullBatch = 2
  Keys <- mc_Keys2
  Vals = {1, 100012}
  FileVals = {100012}
  Tags = {1}
  Ttls <- mc_TtlsQ
  QPrefixes <- mc_PrefNone
  MaxNow = 1
  Policies = {"none"}
  CullLimits = {1}
  Limits = {5}
  MaxRows = 2
  MaxCtr = 2
  Ops <- mc_CoreOps
CONSTRAINT Bounded
VIEW View
CHECK_DEADLOCK FALSE
INVARIANT UniqueKeys
INVARIANT ExpiredInvisible
INVARIANT LiveVisible
PROPERTY NoSpuriousRemoval
PROPERTY ExplicitRemovalExact
PROPERTY NoExpiryNeverExpires
PROPERTY ExpireComplete
PROPERTY LazyCullBounded
PROPERTY NoEarlyEviction
PROPERTY EvictionOrder
PROPERTY NoneNeverEvicts
PROPERTY CullPost
PROPERTY StatsExact
