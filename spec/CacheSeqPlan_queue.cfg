SPECIFICATION PSpec
CONSTANTS
  QBase = 10
  QIntStart <- mc_QIntStart
  QIntMax <- mc_QIntMax
  QDigits <- mc_QDigits
  CullBatch = 2
  Keys <- mc_KeysQ
  Vals = {1, 100012}
  FileVals = {100012}
  Tags = {1}
  Ttls <- mc_TtlsMix
  QPrefixes <- mc_PrefQ
  MaxNow = 1
  Policies = {"none"}
  CullLimits = {1}
  Limits = {4}
  MaxRows = 3
  MaxCtr = 2
  Ops <- mc_QueueOps
  PlanDepth = 30
  PlanSample = 200
CONSTRAINT PlanOut
VIEW PlanView
CHECK_DEADLOCK FALSE
