\* MUST FAIL (QuiescentAgreement): file not removed on lock timeout
SPECIFICATION Spec
CONSTANTS
  Clients <- mc_Clients2
  Programs <- mc_ProgLock
  Keys <- mc_Keys
  MaxFiles = 4
  Dev <- mc_DevTimeout
  KillAllowed <- mc_NoKill
  InitRows <- mc_InitRows
INVARIANT TypeOK
INVARIANT CommittedRefsComplete
INVARIANT AbsAgree
INVARIANT ReturnsLinearizable
INVARIANT DeadLeavesNoLock
INVARIANT QuiescentAgreement
CHECK_DEADLOCK FALSE
