\* C05: all pairs of single calls (12-operation alphabet) x 3 initial contents, all interleavings
SPECIFICATION Spec
CONSTANTS
  Clients <- mc_Clients2
  Programs <- mc_ProgPairs
  Keys <- mc_Keys
  MaxFiles = 4
  Dev <- mc_NoDev
  KillAllowed <- mc_NoKill
  InitRows <- mc_InitRows
INVARIANT TypeOK
INVARIANT CommittedRefsComplete
INVARIANT AbsAgree
INVARIANT ReturnsLinearizable
INVARIANT DeadLeavesNoLock
INVARIANT QuiescentAgreement
CHECK_DEADLOCK FALSE
