SPECIFICATION Spec
CONSTANTS
  Callers = {c1, c2, c3}
  Count = 2
  Q = 2
  MaxTick = 22
  CallsEach = 2
  Dev <- mc_NoDev
INVARIANT RateBound
INVARIANT TallyBounded
PROPERTY EventuallyThrough
CHECK_DEADLOCK FALSE
