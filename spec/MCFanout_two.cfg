\* 2 keys x every routing onto 2 shards, numeric and opaque values, expiry over 3 instants, tags
SPECIFICATION Spec
CONSTANTS
  QBase = 10
  QIntStart <- mc_QIntStart
  QIntMax <- mc_QIntMax
  QDigits <- mc_QDigits
  CullBatch = 2
  FKeys <- mc_FKeys
  FVals = {1, 100001}
  NShards = 2
  MaxNow = 2
  MaxLook = 2
  Dev <- mc_NoDev
CONSTRAINT Bounded
INVARIANT SameResults
INVARIANT UnionIsReference
INVARIANT Partition
CHECK_DEADLOCK FALSE
