SPECIFICATION SSpec
CHECK_DEADLOCK FALSE
