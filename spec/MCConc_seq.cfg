\* C05: two calls against one call
SPECIFICATION Spec
CONSTANTS
  Clients <- mc_Clients2
  Programs <- mc_ProgSeq
  Keys <- mc_Keys
  MaxFiles = 5
  Dev <- mc_NoDev
  KillAllowed <- mc_NoKill
  InitRows <- mc_InitRows
INVARIANT TypeOK
INVARIANT CommittedRefsComplete
INVARIANT AbsAgree
INVARIANT ReturnsLinearizable
INVARIANT DeadLeavesNoLock
INVARIANT QuiescentAgreement
CHECK_DEADLOCK FALSE
