------------------------------- MODULE CheckOps -------------------------------
(***************************************************************************)
(* C17: check() as a FUNCTION of the directory state O, check(fix=True)    *)
(* as a transformer.  O = [rows, files, dirs, ctr]:                        *)
(*   rows  : <<key, fid | -1, recorded size, value id>>                    *)
(*   files : <<fid, actual size, dir id>>                                  *)
(*   dirs  : <<dir id, parent dir id, #files, #subdirs>>  (0 = cache dir)  *)
(*   ctr   : <<count, size>>                                               *)
(* Used by CheckTrace (observations of the real check) and CheckModel      *)
(* (every small O: the repair converges, is idempotent, keeps undamaged    *)
(* items).                                                                 *)
(***************************************************************************)
EXTENDS Integers, Sequences, FiniteSets, TLC, FiniteSetsExt, SequencesExt

SetOf(s) == {s[i] : i \in DOMAIN s}
FileIds(O) == {f[1] : f \in SetOf(O.files)}
SizeOfFile(O, fid) == (CHOOSE f \in SetOf(O.files) : f[1] = fid)[2]
Refs(O) == {r[2] : r \in {x \in SetOf(O.rows) : x[2] >= 0}}

Missing(O) == {r \in SetOf(O.rows) : r[2] >= 0 /\ r[2] \notin FileIds(O)}
WrongSize(O) == {r \in SetOf(O.rows) : r[2] >= 0 /\ r[2] \in FileIds(O) /\ SizeOfFile(O, r[2]) # r[3]}
Unknown(O) == {f \in SetOf(O.files) : f[1] \notin Refs(O)}
EmptyDirs(O) == {d \in SetOf(O.dirs) : d[1] # 0 /\ d[3] = 0 /\ d[4] = 0}
SumSizes(O) == FoldSeq(LAMBDA r, acc : acc + r[3], 0, O.rows)

\* <<category, target>>
Report(O) ==
    {<<"file-not-found", r[2]>> : r \in Missing(O)} \cup {<<"wrong-size", r[2]>> : r \in WrongSize(O)}
    \cup {<<"unknown-file", f[1]>> : f \in Unknown(O)} \cup {<<"empty-dir", d[1]>> : d \in EmptyDirs(O)}
    \cup (IF O.ctr[1] # Len(O.rows) THEN {<<"count", 0>>} ELSE {})
    \cup (IF O.ctr[2] # SumSizes(O) THEN {<<"size", 0>>} ELSE {})

\* rows that survive a repair, with their repaired sizes (keys keep their order)
FixedRows(O) == LET keep == SelectSeq(O.rows, LAMBDA r : r \notin Missing(O))
                IN [i \in DOMAIN keep |-> IF keep[i][2] >= 0 THEN <<keep[i][1], keep[i][2], SizeOfFile(O, keep[i][2]), keep[i][4]>> ELSE keep[i]]
FixedFiles(O) == {f \in SetOf(O.files) : f[1] \in Refs(O)}


\* ---- the repaired state as a whole (directories pruned bottom-up, counters recomputed)
RECURSIVE Prune(_, _)
Prune(dirs, files) ==
    \* dirs: set of <<id, parent>>;  remove directories that hold no file and no remaining sub-directory, repeatedly
    LET empty == {d \in dirs : d[1] # 0 /\ (~\E f \in files : f[3] = d[1]) /\ (~\E c \in dirs : c[2] = d[1] /\ c # d)}
    IN IF empty = {} THEN dirs ELSE Prune(dirs \ empty, files)
DirRec(d, dirs, files) == <<d[1], d[2], Cardinality({f \in files : f[3] = d[1]}), Cardinality({c \in dirs : c[2] = d[1] /\ c # d})>>
Fixed(O) ==
    LET rows == FixedRows(O)
        files == FixedFiles(O)
        dirs0 == {<<d[1], d[2]>> : d \in SetOf(O.dirs)}
        dirs == Prune(dirs0, files)
    IN [rows |-> rows, files |-> SetToSeq(files), dirs |-> SetToSeq({DirRec(d, dirs, files) : d \in dirs}),
        ctr |-> <<Len(rows), FoldSeq(LAMBDA r, acc : acc + r[3], 0, rows)>>]
=============================================================================
