SPECIFICATION MSpec
CONSTANTS
  Dev <- tr_Dev
  Vals <- tr_Vals
  Names <- tr_Names
  MaxPos = 3
CHECK_DEADLOCK FALSE
