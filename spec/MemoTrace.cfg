SPECIFICATION MSpec
CONSTANTS
  Dev <- tr_Dev
  Vals <- tr_Vals
  Names <- tr_Names
  MaxPos = 0
CHECK_DEADLOCK FALSE
