SPECIFICATION FSpec
CHECK_DEADLOCK FALSE
