---- MODULE MCDjango ----
EXTENDS DjangoSeq
mc_QIntStart == <<0, 5, 0>>
mc_QIntMax   == <<0, 9, 9>>
mc_QDigits   == <<53, 48>>
\* keys "a" and "1:a": with an empty prefix and version 1 the second looks like a made key of the first
mc_DKeys == {<<97>>, <<49, 58, 97>>}
mc_Prefixes == {<<>>, <<112>>}
mc_Timeouts == {<<"n">>, <<"t", 0>>, <<"t", 2>>}
mc_Tms == {<<"d">>, <<"n">>, <<"t", 0>>, <<"t", 1>>}
mc_TmsAll == {<<"d">>, <<"n">>, <<"t", 0>>, <<"t", 1>>, <<"t", -1>>}
mc_OnePrefix == {<<>>}
mc_OneKey == {<<49, 58, 97>>}
mc_TimeoutNone == {<<"n">>, <<"t", 0>>}
mc_Tms2 == {<<"d">>, <<"t", 1>>}
mc_NoDjDev == {}
mc_DevZero == {"D_default_zero_forever"}
mc_DevVer == {"D_version_ignored"}
====
