\* intended lookup; del/pop/popitem/setdefault against lookups over two keys, file-backed values
SPECIFICATION Spec
CONSTANTS
  Clients <- mc_Clients
  Keys <- mc_Keys
  Prog <- mc_ProgRemove
  Dev <- mc_NoDev
INVARIANT PresentKeyAlwaysFound
INVARIANT ValuesExplained
INVARIANT RefsComplete
INVARIANT NoLeak
PROPERTY AllEnd
CHECK_DEADLOCK FALSE
