\* the same with consumers killed at any statement
SPECIFICATION Spec
CONSTANTS
  Producers = {p1, p2}
  Consumers = {c1, c2}
  PerProducer = 2
  PullsEach = 2
  Dev <- mc_NoDev
  Kills = TRUE
INVARIANT AtMostOnce
INVARIANT NoLoss
INVARIANT KeysIncrease
INVARIANT Fifo
CHECK_DEADLOCK FALSE
