SPECIFICATION PSpec
CONSTANTS
  QBase = 10
  QIntStart <- mc_QIntStart
  QIntMax <- mc_QIntMax
  QDigits <- mc_QDigits
  CullBatch = 2
  Keys <- mc_Keys2
  Vals = {1, 100012}
  FileVals = {100012}
  Tags = {1}
  Ttls <- mc_TtlsMix
  QPrefixes <- mc_PrefNone
  MaxNow = 1
  Policies = {"none"}
  CullLimits = {1}
  Limits = {4}
  MaxRows = 2
  MaxCtr = 2
  Ops <- mc_DictOps
  PlanDepth = 30
  PlanSample = 400
CONSTRAINT PlanOut
VIEW PlanView
CHECK_DEADLOCK FALSE
