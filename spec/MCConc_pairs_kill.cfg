\* C07: the same with a kill of either client at every step
SPECIFICATION Spec
CONSTANTS
  Clients <- mc_Clients2
  Programs <- mc_ProgPairs
  Keys <- mc_Keys
  MaxFiles = 4
  Dev <- mc_NoDev
  KillAllowed <- mc_KillAll
  InitRows <- mc_InitRows
INVARIANT TypeOK
INVARIANT CommittedRefsComplete
INVARIANT AbsAgree
INVARIANT ReturnsLinearizable
INVARIANT DeadLeavesNoLock
INVARIANT QuiescentAgreement
CHECK_DEADLOCK FALSE
