---- MODULE MCQueueConc ----
EXTENDS QueueConc
mc_NoDev == {}
mc_DevPull == {"D_select_before_begin"}
mc_DevPush == {"D_push_reads_unlocked"}
====
