---- MODULE MCIndexConc ----
EXTENDS IndexConc
O(op, k, v, file) == [op |-> op, k |-> k, v |-> v, file |-> file]
mc_NoDev == {}
mc_Race == {"D_lookup_replace_race"}
\* reader / replacer / second replacer, file-backed values
mc_ProgFile == [c \in {1, 2, 3} |->
    CASE c = 1 -> <<O("set", 1, 5, TRUE), O("get", 1, 0, FALSE), O("get", 1, 0, FALSE)>>
      [] c = 2 -> <<O("set", 1, 6, TRUE), O("setdefault", 1, 7, FALSE), O("set", 1, 8, FALSE)>>
      [] c = 3 -> <<O("get", 1, 0, FALSE), O("set", 1, 9, TRUE), O("get", 1, 0, FALSE)>>]
\* the same with inline values only
mc_ProgInline == [c \in {1, 2, 3} |->
    CASE c = 1 -> <<O("set", 1, 5, FALSE), O("get", 1, 0, FALSE), O("get", 1, 0, FALSE)>>
      [] c = 2 -> <<O("set", 1, 6, FALSE), O("setdefault", 1, 7, FALSE), O("set", 1, 8, FALSE)>>
      [] c = 3 -> <<O("get", 1, 0, FALSE), O("set", 1, 9, FALSE), O("get", 1, 0, FALSE)>>]
\* removals: del / pop / popitem / setdefault against lookups, two keys
mc_ProgRemove == [c \in {1, 2, 3} |->
    CASE c = 1 -> <<O("set", 1, 5, TRUE), O("set", 2, 6, TRUE), O("get", 2, 0, FALSE), O("del", 1, 0, FALSE)>>
      [] c = 2 -> <<O("setdefault", 2, 7, FALSE), O("popitem", 1, 0, FALSE), O("get", 1, 0, FALSE)>>
      [] c = 3 -> <<O("pop", 2, 0, FALSE), O("set", 2, 8, TRUE), O("setdefault", 1, 9, FALSE)>>]
mc_Clients == {1, 2, 3}
mc_Keys == {1, 2}
====
