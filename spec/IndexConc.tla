------------------------------ MODULE IndexConc ------------------------------
(***************************************************************************)
(* C12 design level, concurrency: clients of one Index at the granularity  *)
(* of the cache's transactions and value-file operations (the atomicity of *)
(* each transaction is C05/C06).                                           *)
(*   lookup      = read the row [; open the value file]      (no lock)     *)
(*   assignment  = [write the new file;] COMMIT the row; remove the old    *)
(*                 file                                                    *)
(*   del / pop / popitem = COMMIT the removal (value read inside the       *)
(*                 transaction); remove the file                           *)
(*   setdefault  = lookup; add (COMMIT if absent); lookup again            *)
(* Properties:                                                             *)
(*   PresentKeyAlwaysFound : a lookup of a key that was present during the *)
(*                 whole call does not report it missing                   *)
(*   ValuesExplained : a lookup returns a value the key had during the     *)
(*                 call                                                    *)
(*   RefsComplete : every committed row's file exists                      *)
(*   NoLeak (quiescent) : every file is referenced                         *)
(* Deviation D_lookup_replace_race = the released lookup: when the file    *)
(* named by the row has been removed by a concurrent replacement, it       *)
(* reports the key missing instead of reading the row again.               *)
(***************************************************************************)
EXTENDS Integers, Sequences, FiniteSets, TLC
CONSTANTS Clients, Keys, Prog, Dev      \* Prog[c] : sequence of [op, k, v, file]

Absent == [v |-> 0, f |-> -1]
KeyErr == -1
VARIABLES db, files, nextf, pc, ip, loc, pend, pres, cand, ret, bad
vars == <<db, files, nextf, pc, ip, loc, pend, pres, cand, ret, bad>>

Cur(c) == Prog[c][ip[c]]
ResultOf(r) == IF r = Absent THEN KeyErr ELSE r.v
InFlightOn(k) == {c \in Clients : pc[c] \notin {"idle", "end"} /\ Cur(c).k = k}

Init == /\ db = [k \in Keys |-> Absent] /\ files = {} /\ nextf = 1
        /\ pc = [c \in Clients |-> "idle"] /\ ip = [c \in Clients |-> 1]
        /\ loc = [c \in Clients |-> Absent] /\ pend = [c \in Clients |-> 0]
        /\ pres = [c \in Clients |-> FALSE] /\ cand = [c \in Clients |-> {}]
        /\ ret = [c \in Clients |-> 0] /\ bad = {}

Start(c) ==
    /\ pc[c] = "idle" /\ ip[c] <= Len(Prog[c])
    /\ LET o == Cur(c) IN
       /\ pc' = [pc EXCEPT ![c] = CASE o.op \in {"get", "setdefault"} -> "row"
                                    [] o.op = "set" -> IF o.file THEN "write" ELSE "commit"
                                    [] OTHER -> "commit"]
       /\ pres' = [pres EXCEPT ![c] = db[o.k] # Absent]
       /\ cand' = [cand EXCEPT ![c] = {ResultOf(db[o.k])}]
    /\ UNCHANGED <<db, files, nextf, ip, loc, pend, ret, bad>>

\* the call returns r
Finish(c, r) ==
    /\ ret' = [ret EXCEPT ![c] = r]
    /\ bad' = bad \cup (IF Cur(c).op = "get" /\ r = KeyErr /\ pres[c] THEN {"missed"} ELSE {})
                  \cup (IF Cur(c).op \in {"get", "setdefault"} /\ r \notin cand[c] /\ ~(r = KeyErr /\ pres[c]) THEN {"unexplained"} ELSE {})
    /\ pc' = [pc EXCEPT ![c] = IF ip[c] = Len(Prog[c]) THEN "end" ELSE "idle"]
    /\ ip' = [ip EXCEPT ![c] = @ + 1]

\* a commit on key k publishes row r: lookups in flight learn the new result; a removal ends "present throughout"
Publish(c, k, r) ==
    /\ db' = [db EXCEPT ![k] = r]
    /\ cand' = [d \in Clients |-> IF d \in InFlightOn(k) THEN cand[d] \cup {ResultOf(r)} ELSE cand[d]]
    /\ pres' = [d \in Clients |-> IF d \in InFlightOn(k) /\ r = Absent THEN FALSE ELSE pres[d]]

GetRow(c) ==
    /\ pc[c] = "row"
    /\ LET o == Cur(c)
           r == db[o.k] IN
       IF r = Absent
       THEN IF o.op = "get"
            THEN Finish(c, KeyErr) /\ UNCHANGED <<db, files, nextf, loc, pend, pres, cand>>
            ELSE pc' = [pc EXCEPT ![c] = "add"] /\ UNCHANGED <<db, files, nextf, ip, loc, pend, pres, cand, ret, bad>>
       ELSE IF r.f = 0
       THEN Finish(c, r.v) /\ UNCHANGED <<db, files, nextf, loc, pend, pres, cand>>
       ELSE /\ loc' = [loc EXCEPT ![c] = r] /\ pc' = [pc EXCEPT ![c] = "open"]
            /\ UNCHANGED <<db, files, nextf, ip, pend, pres, cand, ret, bad>>

GetOpen(c) ==
    /\ pc[c] = "open"
    /\ IF loc[c].f \in files
       THEN Finish(c, loc[c].v) /\ UNCHANGED <<db, files, nextf, loc, pend, pres, cand>>
       ELSE IF "D_lookup_replace_race" \in Dev
       THEN IF Cur(c).op = "get"
            THEN Finish(c, KeyErr) /\ UNCHANGED <<db, files, nextf, loc, pend, pres, cand>>
            ELSE pc' = [pc EXCEPT ![c] = "add"] /\ UNCHANGED <<db, files, nextf, ip, loc, pend, pres, cand, ret, bad>>
       ELSE pc' = [pc EXCEPT ![c] = "row"] /\ UNCHANGED <<db, files, nextf, ip, loc, pend, pres, cand, ret, bad>>

\* setdefault's add: one transaction; then look up again
SdAdd(c) ==
    /\ pc[c] = "add"
    /\ LET o == Cur(c) IN
       IF db[o.k] = Absent
       THEN Publish(c, o.k, [v |-> o.v, f |-> 0])
       ELSE UNCHANGED <<db, cand, pres>>
    /\ pc' = [pc EXCEPT ![c] = "row"]
    /\ UNCHANGED <<files, nextf, ip, loc, pend, ret, bad>>

SetWrite(c) ==
    /\ pc[c] = "write"
    /\ files' = files \cup {nextf} /\ loc' = [loc EXCEPT ![c] = [v |-> Cur(c).v, f |-> nextf]]
    /\ nextf' = nextf + 1 /\ pc' = [pc EXCEPT ![c] = "commit"]
    /\ UNCHANGED <<db, ip, pend, pres, cand, ret, bad>>

Commit(c) ==
    /\ pc[c] = "commit"
    /\ LET o == Cur(c) IN
       CASE o.op = "set" ->
              LET new == IF o.file THEN loc[c] ELSE [v |-> o.v, f |-> 0]
                  old == db[o.k] IN
              /\ Publish(c, o.k, new)
              /\ IF old # Absent /\ old.f > 0
                 THEN /\ pend' = [pend EXCEPT ![c] = old.f] /\ pc' = [pc EXCEPT ![c] = "cleanup"]
                      /\ UNCHANGED <<ip, ret, bad>>
                 ELSE Finish(c, 0) /\ UNCHANGED pend
         [] o.op \in {"del", "pop"} ->
              LET old == db[o.k] IN
              IF old = Absent THEN Finish(c, KeyErr) /\ UNCHANGED <<db, cand, pres, pend>>
              ELSE /\ Publish(c, o.k, Absent)
                   /\ ret' = [ret EXCEPT ![c] = old.v]
                   /\ IF old.f > 0
                      THEN /\ pend' = [pend EXCEPT ![c] = old.f] /\ pc' = [pc EXCEPT ![c] = "cleanup"] /\ UNCHANGED <<ip, bad>>
                      ELSE /\ pc' = [pc EXCEPT ![c] = IF ip[c] = Len(Prog[c]) THEN "end" ELSE "idle"]
                           /\ ip' = [ip EXCEPT ![c] = @ + 1] /\ UNCHANGED <<pend, bad>>
         [] o.op = "popitem" ->
              IF \A k \in Keys : db[k] = Absent THEN Finish(c, KeyErr) /\ UNCHANGED <<db, cand, pres, pend>>
              ELSE \E k \in Keys :
                     /\ db[k] # Absent
                     /\ Publish(c, k, Absent)
                     /\ ret' = [ret EXCEPT ![c] = db[k].v]
                     /\ IF db[k].f > 0
                        THEN /\ pend' = [pend EXCEPT ![c] = db[k].f] /\ pc' = [pc EXCEPT ![c] = "cleanup"] /\ UNCHANGED <<ip, bad>>
                        ELSE /\ pc' = [pc EXCEPT ![c] = IF ip[c] = Len(Prog[c]) THEN "end" ELSE "idle"]
                             /\ ip' = [ip EXCEPT ![c] = @ + 1] /\ UNCHANGED <<pend, bad>>
    /\ UNCHANGED <<files, nextf, loc>>

Cleanup(c) ==
    /\ pc[c] = "cleanup"
    /\ files' = files \ {pend[c]} /\ pend' = [pend EXCEPT ![c] = 0]
    /\ pc' = [pc EXCEPT ![c] = IF ip[c] = Len(Prog[c]) THEN "end" ELSE "idle"]
    /\ ip' = [ip EXCEPT ![c] = @ + 1]
    /\ UNCHANGED <<db, nextf, loc, pres, cand, ret, bad>>

Next == \E c \in Clients : Start(c) \/ GetRow(c) \/ GetOpen(c) \/ SdAdd(c) \/ SetWrite(c) \/ Commit(c) \/ Cleanup(c)
Spec == Init /\ [][Next]_vars /\ \A c \in Clients : WF_vars(Start(c) \/ GetRow(c) \/ GetOpen(c) \/ SdAdd(c) \/ SetWrite(c) \/ Commit(c) \/ Cleanup(c))

PresentKeyAlwaysFound == "missed" \notin bad
ValuesExplained == "unexplained" \notin bad
RefsComplete == \A k \in Keys : db[k] # Absent /\ db[k].f > 0 => db[k].f \in files
Quiescent == \A c \in Clients : pc[c] \in {"idle", "end"}
NoLeak == Quiescent => files = {db[k].f : k \in {j \in Keys : db[j] # Absent /\ db[j].f > 0}}
\* the intended lookup re-reads the row: it must still terminate when writers stop
AllEnd == <>(\A c \in Clients : pc[c] = "end")
=============================================================================
