\* C10 queues: prefixes None / a / a-5, both sides, expiring items, ordinary keys mixed in
SPECIFICATION Spec
CONSTANTS
  QBase = 10
  QIntStart <- mc_QIntStart
  QIntMax <- mc_QIntMax
  QDigits <- mc_QDigits
  CullBatch = 2
  Keys <- mc_KeysQ
  Vals = {1, 100012}
  FileVals = {100012}
  Tags = {}
  Ttls <- mc_TtlsMix
  QPrefixes <- mc_PrefQ
  MaxNow = 1
  Policies = {"none"}
  CullLimits = {1}
  Limits = {5}
  MaxRows = 3
  MaxCtr = 2
  Ops <- mc_QueueOps
CONSTRAINT Bounded
VIEW View
CHECK_DEADLOCK FALSE
INVARIANT UniqueKeys
INVARIANT ExpiredInvisible
INVARIANT LiveVisible
INVARIANT PeekIsNextPull
PROPERTY NoSpuriousRemoval
PROPERTY ExplicitRemovalExact
PROPERTY NoExpiryNeverExpires
PROPERTY ExpireComplete
PROPERTY LazyCullBounded
PROPERTY NoEarlyEviction
PROPERTY EvictionOrder
PROPERTY NoneNeverEvicts
PROPERTY CullPost
PROPERTY StatsExact
PROPERTY PrefixIsolation
PROPERTY PushAtEnd
