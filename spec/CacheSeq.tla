------------------------------- MODULE CacheSeq -------------------------------
(***************************************************************************)
(* One client, one cache directory, a controlled clock.                    *)
(* TLC explores every history of API calls over a small alphabet; the      *)
(* invariants are the property statements of C03 / C04 / C09 (and the      *)
(* sequential half of C10) phrased INDEPENDENTLY of the operator           *)
(* definitions in CacheOps, so that a slip in the reference dictionary     *)
(* itself is caught here, before the dictionary is used to judge the code. *)
(***************************************************************************)
EXTENDS CacheOps

CONSTANTS Keys,      \* ordinary keys
          Vals,      \* values (numbers < OpaqueBase, opaque ids >= OpaqueBase)
          FileVals,  \* subset of Vals stored in files; size = SizeOfVal
          Tags,      \* tags (NoTag excluded)
          Ttls,      \* ttl arguments: <<>> or <<n>>
          QPrefixes,  \* queue prefixes (<<>> = integer queue)
          MaxNow,    \* clock runs 0..MaxNow
          Policies, CullLimits, Limits,   \* configurations chosen in Init
          MaxRows,   \* state constraint: at most this many rows
          MaxCtr,    \* state constraint on hits/misses/access counts/values
          Ops        \* names of the operations enabled in this configuration

VARIABLES S, now, last
vars == <<S, now, last>>

SizeOfVal(v) == IF v \in FileVals THEN (v % 10) + 1 ELSE 0   \* 1..k size units

Init == /\ \E p \in Policies, c \in CullLimits, lim \in Limits, st \in BOOLEAN :
              S = EmptyCache(p, c, lim, st)
        /\ now = 0
        /\ last = [op |-> "init", args |-> <<>>, ret |-> RNone, removed |-> {}, pre |-> <<>>]

\* size units: the page bytes of the model are 0, so volume = sum of sizes
\* apply an operator result, then (for writes) any admissible lazy cull
Apply(op, args, res) ==
    /\ IF res.cull
       THEN \E V \in SUBSET KeysOf(res.S.rows) :
               /\ CullOK(res.S, V, now, LAMBDA rows : SizeSum(rows) >= res.S.limit)
               /\ S' = [res.S EXCEPT !.rows = RemoveKeys(@, V)]
               /\ last' = [op |-> op, args |-> args, ret |-> res.ret, removed |-> V,
                           pre |-> res.S.rows]
       ELSE /\ S' = res.S
            /\ last' = [op |-> op, args |-> args, ret |-> res.ret, removed |-> {},
                        pre |-> res.S.rows]
    /\ UNCHANGED now

Flags == {<<FALSE, FALSE>>, <<TRUE, TRUE>>}

ASet   == \E k \in Keys, v \in Vals, t \in Ttls, g \in Tags \cup {NoTag} :
             Apply("set", <<k, v, t, g>>, Set(S, k, v, SizeOfVal(v), t, g, now))
AAdd   == \E k \in Keys, v \in Vals, t \in Ttls, g \in Tags \cup {NoTag} :
             Apply("add", <<k, v, t, g>>, Add(S, k, v, SizeOfVal(v), t, g, now))
ATouch == \E k \in Keys, t \in Ttls : Apply("touch", <<k, t>>, Touch(S, k, t, now))
AIncr  == \E k \in Keys, d \in {1, -1}, df \in {<<>>, <<0>>} :
             Apply("incr", <<k, d, df>>, Incr(S, k, d, df, now))
\* get(key, default, expire_time=, tag=) / cache[key] and cache.read(key) (no flags)
AGet   == \E k \in Keys, f \in Flags, mk \in {"miss", "KeyError"} :
             /\ mk = "KeyError" => f = <<FALSE, FALSE>>
             /\ Apply("get", <<k, f, mk>>, Get(S, k, f, mk, now))
AContains == \E k \in Keys : Apply("contains", <<k>>, Has(S, k, now))
APop   == \E k \in Keys, f \in Flags : Apply("pop", <<k, f>>, Pop(S, k, f, now))
ADelete == \E k \in Keys, mk \in {"false", "KeyError"} :
             Apply("delete", <<k, mk>>, Delete(S, k, mk, now))
AClear == Apply("clear", <<>>, Clear(S))
AEvict == \E g \in Tags \cup {NoTag} : Apply("evict", <<g>>, Evict(S, g))
AExpire == Apply("expire", <<>>, Expire(S, now))
APush  == \E v \in Vals, P \in QPrefixes, b \in BOOLEAN, t \in Ttls :
             Apply("push", <<v, P, b, t>>, Push(S, v, SizeOfVal(v), P, b, t, NoTag, now))
APull  == \E P \in QPrefixes, b \in BOOLEAN :
             Apply("pull", <<P, b>>, Pull(S, P, b, <<FALSE, FALSE>>, now))
APeek  == \E P \in QPrefixes, b \in BOOLEAN :
             Apply("peek", <<P, b>>, Peek(S, P, b, <<FALSE, FALSE>>, now))
APeekItem == \E b \in BOOLEAN : Apply("peekitem", <<b>>, PeekItem(S, b, <<FALSE, FALSE>>, now))
ALen   == Apply("len", <<>>, Length(S))
AIter  == \E rev \in BOOLEAN, sorted \in BOOLEAN :
             Apply("iter", <<rev, sorted>>, IF sorted THEN IterKeys(S, rev) ELSE Iter(S, rev))
AStats == \E en \in BOOLEAN, rs \in BOOLEAN : Apply("stats", <<en, rs>>, Stats(S, en, rs))

\* explicit cull(): any admissible victim set
ACull  == \E V \in SUBSET KeysOf(S.rows) :
             /\ CullCallOK(S, V, now,
                           LAMBDA rows : SizeSum(rows) > S.limit,
                           LAMBDA rows : SizeSum(rows) > S.limit, 0)
             /\ S' = [S EXCEPT !.rows = RemoveKeys(@, V)]
             /\ last' = [op |-> "cull", args |-> <<>>, ret |-> RInt(Cardinality(V)),
                         removed |-> V, pre |-> S.rows]
             /\ UNCHANGED now

\* the clock is a separate, independently enabled step: "same instant" and
\* "later" are both explored
Tick == /\ now < MaxNow
        /\ now' = now + 1
        /\ last' = [op |-> "tick", args |-> <<>>, ret |-> RNone, removed |-> {}, pre |-> S.rows]
        /\ UNCHANGED S

Next == \/ ("set" \in Ops /\ ASet)       \/ ("add" \in Ops /\ AAdd)
        \/ ("touch" \in Ops /\ ATouch)   \/ ("incr" \in Ops /\ AIncr)
        \/ ("get" \in Ops /\ AGet)       \/ ("contains" \in Ops /\ AContains)
        \/ ("pop" \in Ops /\ APop)       \/ ("delete" \in Ops /\ ADelete)
        \/ ("clear" \in Ops /\ AClear)   \/ ("evict" \in Ops /\ AEvict)
        \/ ("expire" \in Ops /\ AExpire) \/ ("push" \in Ops /\ APush)
        \/ ("pull" \in Ops /\ APull)     \/ ("peek" \in Ops /\ APeek)
        \/ ("peekitem" \in Ops /\ APeekItem) \/ ("len" \in Ops /\ ALen)
        \/ ("iter" \in Ops /\ AIter)     \/ ("stats" \in Ops /\ AStats)
        \/ ("cull" \in Ops /\ ACull)     \/ Tick

Spec == Init /\ [][Next]_vars

\* queue numbers stay within a window around the start (push/pull drift is
\* unbounded otherwise); only meaningful for the width-2 model alphabet
QNum(k) == IF k[1] = 0 THEN k[2] * QBase + k[3]
           ELSE (k[Len(k) - 1] - 48) * 10 + (k[Len(k)] - 48)
QWindow == \A i \in DOMAIN S.rows :
              LET k == S.rows[i].key IN
              (\E P \in QPrefixes : InQueue(P, k)) /\ k \notin Keys => QNum(k) \in 48..52

Bounded == /\ Len(S.rows) <= MaxRows
           /\ QWindow
           /\ S.hits <= MaxCtr /\ S.misses <= MaxCtr
           /\ \A i \in DOMAIN S.rows :
                 /\ S.rows[i].ac <= MaxCtr
                 /\ IsNum(S.rows[i].val) => (S.rows[i].val <= MaxCtr /\ S.rows[i].val >= -MaxCtr)

View == <<S, now>>

(***************************************************************************)
(* Properties                                                              *)
(***************************************************************************)
Pre == last.pre     \* rows after the operation proper, before its lazy cull
                    \* (for non-writes: rows before = rows of the pre-state)

UniqueKeys == \A i, j \in DOMAIN S.rows : S.rows[i].key = S.rows[j].key => i = j

\* C03 "nothing is ever removed except by an explicit removal call, by expiry,
\* or by size-based eviction once the size limit has been reached"
RemovalOps == {"pop", "delete", "clear", "evict", "expire", "cull", "pull", "peek", "peekitem"}
NoSpuriousRemoval ==
    [][\/ last'.op \in RemovalOps
       \/ /\ KeysOf(S.rows) \subseteq KeysOf(last'.pre)   \* the operation proper removes nothing
          /\ \A i \in DOMAIN last'.pre :
                LET r == last'.pre[i] IN
                r.key \notin KeysOf(S'.rows) =>
                   /\ last'.op \in {"set", "add", "incr", "push"}
                   \* lazy cull of a write: expired, or evicted at the limit
                   /\ \/ ~Live(r, now)
                      \/ (S.policy # "none" /\ S.cull > 0 /\ SizeSum(last'.pre) >= S.limit)
      ]_vars

\* explicit removals remove exactly what they name (live items only)
ExplicitRemovalExact ==
    [][/\ (last'.op \in {"pop", "delete"}) =>
            KeysOf(S.rows) \ KeysOf(S'.rows) \subseteq {last'.args[1]}
       /\ (last'.op = "evict") =>
            \A i \in DOMAIN S.rows :
               (S.rows[i].key \notin KeysOf(S'.rows)) <=>
               (last'.args[1] # NoTag /\ S.rows[i].tag = last'.args[1])
       /\ (last'.op \in {"get", "contains", "len", "iter", "stats", "touch", "tick"}) =>
            KeysOf(S'.rows) = KeysOf(S.rows)
      ]_vars

\* C04: an expired item is never returned, reported present, incremented,
\* touched back to life, popped or pulled as a live item
ExpiredInvisible ==
    \A i \in DOMAIN S.rows :
       LET r == S.rows[i] IN
       (r.exp # NoExp /\ r.exp <= now) =>
          /\ Get(S, r.key, <<FALSE, FALSE>>, "miss", now).ret = RMiss
          /\ Has(S, r.key, now).ret = RFalse
          /\ Touch(S, r.key, <<5>>, now).ret = RFalse
          /\ Touch(S, r.key, <<5>>, now).S = S
          /\ Pop(S, r.key, <<FALSE, FALSE>>, now).ret = RMiss
          /\ Delete(S, r.key, "false", now).ret = RFalse
          /\ Incr(S, r.key, 1, <<>>, now).ret = RExc("KeyError")
          /\ Incr(S, r.key, 1, <<0>>, now).ret = RInt(1)
          /\ Add(S, r.key, 7, 0, NoTtl, NoTag, now).ret = RTrue
          /\ \A P \in QPrefixes, b \in BOOLEAN :
                /\ Pull(S, P, b, <<FALSE, FALSE>>, now).ret.k = "item" =>
                      Pull(S, P, b, <<FALSE, FALSE>>, now).ret.v[1] # r.key
                /\ Peek(S, P, b, <<FALSE, FALSE>>, now).ret.k = "item" =>
                      Peek(S, P, b, <<FALSE, FALSE>>, now).ret.v[1] # r.key
          /\ \A b \in BOOLEAN :
                PeekItem(S, b, <<FALSE, FALSE>>, now).ret.k = "item" =>
                   PeekItem(S, b, <<FALSE, FALSE>>, now).ret.v[1] # r.key

\* ... and is visible to every lookup until then
LiveVisible ==
    \A i \in DOMAIN S.rows :
       LET r == S.rows[i] IN
       (r.exp = NoExp \/ r.exp > now) =>
          /\ Get(S, r.key, <<TRUE, TRUE>>, "miss", now).ret = R("val", <<r.val, r.exp, r.tag>>)
          /\ Has(S, r.key, now).ret = RTrue
          /\ Add(S, r.key, 7, 0, NoTtl, NoTag, now).ret = RFalse
          /\ Add(S, r.key, 7, 0, NoTtl, NoTag, now).S = S

\* an item stored without a time-to-live never expires: it only disappears
\* through an explicit removal or policy eviction at the limit
NoExpiryNeverExpires ==
    [][\A i \in DOMAIN S.rows :
          LET r == S.rows[i] IN
          (r.exp = NoExp /\ r.key \notin KeysOf(S'.rows)) =>
             \/ last'.op \in {"pop", "delete", "clear", "evict", "cull", "pull"}
             \/ /\ last'.op \in {"set", "add", "incr", "push"}
                /\ \/ last'.pre[Find(last'.pre, r.key)].exp # NoExp   \* overwritten by the call
                   \/ (S.policy # "none" /\ S.cull > 0 /\ SizeSum(last'.pre) >= S.limit)
      ]_vars

\* expire() removes every item whose expiry time has passed and nothing else
ExpireComplete ==
    [][last'.op = "expire" =>
          /\ \A i \in DOMAIN S'.rows : ~Passed(S'.rows[i], now)
          /\ \A i \in DOMAIN S.rows :
                (S.rows[i].key \notin KeysOf(S'.rows)) => Passed(S.rows[i], now)
          /\ last'.ret = RInt(Len(S.rows) - Len(S'.rows))
      ]_vars

\* the lazy removal performed by writes removes at most cull_limit items,
\* none when it is zero
LazyCullBounded ==
    [][last'.op \in {"set", "add", "incr", "push"} =>
          /\ Cardinality(last'.removed) <= S.cull
          /\ last'.removed \subseteq KeysOf(last'.pre)
      ]_vars

\* C09: eviction starts only at the size limit ...
NoEarlyEviction ==
    [][\A k \in last'.removed :
          (last'.op \in {"set", "add", "incr", "push"}) =>
             LET r == last'.pre[Find(last'.pre, k)] IN
             \/ Passed(r, now)
             \/ (S.policy # "none" /\
                 SizeSum(RemoveKeys(last'.pre, PassedKeys(last'.pre, now) \cap last'.removed))
                    >= S.limit)
      ]_vars

\* ... and follows the policy order: every surviving item is at least as
\* "young" as every evicted (non-expired) item
EvictionOrder ==
    [][(last'.op \in {"set", "add", "incr", "push", "cull"}) =>
          \A k \in last'.removed :
             LET r == last'.pre[Find(last'.pre, k)] IN
             ~Passed(r, now) =>
                \A j \in DOMAIN S'.rows :
                   LET q == last'.pre[Find(last'.pre, S'.rows[j].key)] IN
                   ~Passed(q, now) => PolicyKey(S, r) <= PolicyKey(S, q)
      ]_vars

NoneNeverEvicts ==
    [][(S.policy = "none" /\ last'.op \in {"set", "add", "incr", "push", "cull"}) =>
          \A k \in last'.removed : Passed(last'.pre[Find(last'.pre, k)], now)
      ]_vars

\* cull(): expired first, then until no larger than the limit or empty;
\* returns the number removed
CullPost ==
    [][last'.op = "cull" =>
          /\ \A i \in DOMAIN S'.rows : ~Passed(S'.rows[i], now)
          /\ (S.policy # "none") => (SizeSum(S'.rows) <= S.limit \/ S'.rows = <<>>)
          /\ last'.ret = RInt(Len(S.rows) - Len(S'.rows))
      ]_vars

\* C10 (sequential half): peek returns what the next pull from that side
\* would return; pull/peek only touch the queue of their prefix
PeekIsNextPull ==
    \A P \in QPrefixes, b \in BOOLEAN :
       Peek(S, P, b, <<FALSE, FALSE>>, now).ret = Pull(S, P, b, <<FALSE, FALSE>>, now).ret

PrefixIsolation ==
    [][(last'.op \in {"pull", "peek"}) =>
          \A i \in DOMAIN S.rows :
             (S.rows[i].key \notin KeysOf(S'.rows)) => InQueue(last'.args[1], S.rows[i].key)
      ]_vars

PushAtEnd ==
    [][(last'.op = "push" /\ last'.ret.k = "key") =>
          LET k == last'.ret.v
              P == last'.args[2]
              back == last'.args[3]
          IN /\ InQueue(P, k)
             /\ k \notin KeysOf(S.rows)
             /\ \A i \in DOMAIN S.rows :
                   InQueue(P, S.rows[i].key) =>
                      IF back THEN KeyLT(S.rows[i].key, k) ELSE KeyLT(k, S.rows[i].key)
      ]_vars

\* statistics: hits + misses only move on get, by exactly one, when enabled
StatsExact ==
    [][/\ (last'.op = "get" /\ S.stats) =>
            \/ (last'.ret.k = "val" /\ S'.hits = S.hits + 1 /\ S'.misses = S.misses)
            \/ (last'.ret.k # "val" /\ S'.misses = S.misses + 1 /\ S'.hits = S.hits)
       /\ (last'.op \notin {"get", "stats"} \/ (last'.op = "get" /\ ~S.stats)) =>
            (S'.hits = S.hits /\ S'.misses = S.misses)
      ]_vars
=============================================================================
