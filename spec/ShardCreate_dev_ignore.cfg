\* ShardCreate: must fail ExplicitApplied (C09-r5m3)
SPECIFICATION Spec
CONSTANTS
  N = 3
  Dev = {"D_ignore_explicit"}
INVARIANT TypeOK
INVARIANT NeverUndivided
INVARIANT ExplicitApplied
INVARIANT AllOpened
PROPERTY StoredSurvives
