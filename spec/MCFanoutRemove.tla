---- MODULE MCFanoutRemove ----
EXTENDS FanoutRemove
mc_NoDev == {}
mc_Dev == {"D_overwrite_total"}
====
