------------------------------ MODULE LocksTrace ------------------------------
(***************************************************************************)
(* C15 on the real recipes: contenders (threads on a shared Cache, threads *)
(* with their own Cache objects, a forked process) run acquire / critical  *)
(* section / release under the deterministic scheduler.  The witness       *)
(* events enter/exit are emitted by the contender itself right after its   *)
(* acquire returned and right before it calls release.                     *)
(***************************************************************************)
EXTENDS Integers, Sequences, FiniteSets, TLC, Json, IOUtils, TLCExt
Doc == JsonDeserialize(IOEnv.TRACE_FILE)
Traces == Doc.traces
NT == Len(Traces)
VARIABLES tid, l, H, done
lvars == <<tid, l, H, done>>
V(ok, Hn, why) == [ok |-> ok, H |-> Hn, why |-> why]
Bound(t) == IF t.kind = "sem" THEN t.permits ELSE 1
Inside(Hh) == {c \in DOMAIN Hh : Hh[c] > 0}

Step(Hh, e, t) ==
    IF e.ev = "enter"
    THEN LET Hn == [Hh EXCEPT ![e.c] = @ + 1] IN
         IF Cardinality(Inside(Hn)) > Bound(t)
         THEN V(FALSE, Hh, "C15 " \o ToString(Cardinality(Inside(Hn))) \o " contenders inside the critical section at once (bound " \o ToString(Bound(t)) \o ")")
         ELSE IF Hh[e.c] > 0 /\ t.kind # "rlock"
         THEN V(FALSE, Hh, "C15 a contender acquired a non-reentrant resource twice")
         ELSE V(TRUE, Hn, "")
    ELSE IF e.ev = "exit"
    THEN IF Hh[e.c] = 0 THEN V(FALSE, Hh, "harness: exit without enter") ELSE V(TRUE, [Hh EXCEPT ![e.c] = @ - 1], "")
    ELSE IF e.ev = "ret" /\ e.op = "bad_release"
    THEN \* releasing what is not held is refused (RLock, BoundedSemaphore)
         IF t.kind \in {"rlock", "sem"} /\ e.ret.k # "AssertionError"
         THEN V(FALSE, Hh, "C15 releasing a " \o t.kind \o " that the caller does not hold was accepted: " \o ToJson(e.ret))
         ELSE V(TRUE, Hh, "")
    ELSE IF e.ev = "ret" /\ e.op = "locked"
    THEN \* Lock.locked(): certainly true while the caller itself holds the lock, certainly false when it is the only contender and does not
         IF Hh[e.c] > 0 /\ e.ret.k # "true" THEN V(FALSE, Hh, "C15 locked() is not True while the caller holds the lock: " \o ToJson(e.ret))
         ELSE IF t.nc = 1 /\ Hh[e.c] = 0 /\ e.ret.k # "false" THEN V(FALSE, Hh, "C15 locked() is not False although nobody holds the lock: " \o ToJson(e.ret))
         ELSE IF e.ret.k \notin {"true", "false"} THEN V(FALSE, Hh, "C15 locked() returned no boolean")
         ELSE V(TRUE, Hh, "")
    ELSE IF e.ev = "ret" /\ e.ret.k \notin {"none", "val"} /\ e.op # "bad_release"
    THEN V(FALSE, Hh, "C15 " \o e.op \o " failed with " \o e.ret.k)
    ELSE IF e.ev = "stuck"
    THEN V(FALSE, Hh, "C15 contenders are stuck: a waiting acquirer did not succeed after the resource was released")
    ELSE IF e.ev = "final"
    THEN IF Inside(Hh) # {} THEN V(FALSE, Hh, "harness: program ended inside the critical section")
         ELSE IF e.free # 1 THEN V(FALSE, Hh, "C15 the resource is not free after as many releases as acquisitions")
         ELSE V(TRUE, Hh, "")
    ELSE V(TRUE, Hh, "")

LInit == tid \in 1..NT /\ l = 1 /\ H = [c \in 1..Traces[tid].nc |-> 0] /\ done = FALSE
LNext == /\ ~done
         /\ LET t == Traces[tid]
                e == t.ev[l]
                r == Step(H, e, t)
            IN IF r.ok
               THEN /\ H' = r.H /\ l' = l + 1 /\ done' = (l = Len(t.ev))
                    /\ (l = Len(t.ev)) => PrintT("VERDICT " \o ToJson([id |-> t.id, ok |-> TRUE, n |-> l]))
               ELSE /\ PrintT("VERDICT " \o ToJson([id |-> t.id, ok |-> FALSE, at |-> l, why |-> r.why]))
                    /\ done' = TRUE /\ UNCHANGED <<l, H>>
         /\ UNCHANGED tid
LSpec == LInit /\ [][LNext]_lvars
=============================================================================
