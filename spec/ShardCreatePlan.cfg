\* plans: 2 shards, 3 opens, every kill position
SPECIFICATION PSpec
CONSTANTS
  N = 2
  Dev = {}
  Opens = 3
CONSTRAINT PlanOut
CHECK_DEADLOCK FALSE
