------------------------------- MODULE KeyTrace -------------------------------
(* C02 conformance: observations of key pairs judged by KeySpace.DocEq *)
EXTENDS KeySpace, Json, IOUtils, TLCExt
tr_Dev == {"D_bigint_float"}
tr_Universe == {}
Doc == JsonDeserialize(IOEnv.TRACE_FILE)
Traces == Doc.traces
NT == Len(Traces)
VARIABLES tid, l, done, kn
Judge(e) ==
    IF e.ev = "paging"
    THEN IF e.ok = 1 THEN "ok" ELSE "C02 sorted iteration across a page boundary skipped, duplicated or misordered keys (a bytes key and its serialized twin among " \o ToString(e.nk) \o " keys): forward " \o ToString(e.nf) \o " reverse " \o ToString(e.nr)
    ELSE LET same == DocEq(e.k1, e.k2) IN
         IF same /\ KnownPair(e.k1, e.k2) /\ e.n = 2 THEN "KNOWN"
         ELSE IF same /\ e.n # 1 THEN "C02 equal keys " \o e.r1 \o " and " \o e.r2 \o " address two entries"
         ELSE IF same /\ (e.g1 # "v2" \/ e.g2 # "v2") THEN "C02 equal keys do not see the same value"
         ELSE IF ~same /\ e.n # 2 THEN "C02 distinct keys " \o e.r1 \o " and " \o e.r2 \o " alias: one overwrote the other"
         ELSE IF ~same /\ (e.g1 # "v1" \/ e.g2 # "v2") THEN "C02 distinct keys " \o e.r1 \o " and " \o e.r2 \o " shadow each other on lookup"
         ELSE IF ~same /\ (e.p2 # "v2" \/ e.left # 1 \/ e.g1b # "v1") THEN "C02 removing " \o e.r2 \o " touched the distinct key " \o e.r1
         ELSE IF same /\ (e.in2 # 1 \/ e.a2 # 0 \/ e.an # 1 \/ e.ag1 # "v1")
         THEN "C02 with " \o e.r1 \o " stored, membership / add of the equal key " \o e.r2 \o " does not see it"
         ELSE IF ~same /\ (e.in2 # 0 \/ e.a2 # 1 \/ e.an # 2 \/ e.ag1 # "v1" \/ e.ag2 # "a2")
         THEN "C02 with " \o e.r1 \o " stored, membership / add of the distinct key " \o e.r2 \o " is confused with it"
         ELSE IF same /\ (e.t2 # "1" \/ e.x1 # 2 \/ e.d2 # "1" \/ e.left3 # 0 \/ e.i2 # "6" \/ e.gi1 # "6")
         THEN "C02 with " \o e.r1 \o " stored, touch / delete / incr through the equal key " \o e.r2 \o " do not reach it"
         ELSE IF ~same /\ (e.t2 # "0" \/ e.x1 # 1 \/ e.d2 # "0" \/ e.left3 # 1 \/ e.g1c # "v1" \/ e.i2 # "KeyError" \/ e.gi1 # "5")
         THEN "C02 with " \o e.r1 \o " stored, touch / delete / incr through the distinct key " \o e.r2 \o " reached it"
         ELSE IF e.types_ok # 1 THEN "C02 iteration returned a key that is not equal to / not of the type of the stored key (" \o e.r1 \o ", " \o e.r2 \o ")"
         ELSE IF e.rev_ok # 1 THEN "C02 sorted iteration forward and reverse disagree for " \o e.r1 \o ", " \o e.r2
         ELSE "ok"
KInit == tid \in 1..NT /\ l = 1 /\ done = FALSE /\ x = 0 /\ kn = {}
KNext == /\ ~done
         /\ LET t == Traces[tid]
                j == Judge(t.ev[l])
                kn2 == IF j = "KNOWN" THEN kn \cup {"D_bigint_float"} ELSE kn
            IN IF j = "ok" \/ j = "KNOWN"
               THEN /\ l' = l + 1 /\ done' = (l = Len(t.ev)) /\ kn' = kn2
                    /\ (l = Len(t.ev)) => PrintT("VERDICT " \o ToJson([id |-> t.id, ok |-> TRUE, n |-> l, known |-> kn2]))
               ELSE /\ PrintT("VERDICT " \o ToJson([id |-> t.id, ok |-> FALSE, at |-> l, why |-> j, known |-> kn]))
                    /\ done' = TRUE /\ UNCHANGED <<l, kn>>
         /\ UNCHANGED <<tid, x>>
KSpec == KInit /\ [][KNext]_<<tid, l, done, x, kn>>
=============================================================================
