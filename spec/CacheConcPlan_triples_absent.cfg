SPECIFICATION PSpec
CONSTANTS
  Clients <- mc_Clients3
  Programs <- mc_ProgTriples
  Keys <- mc_Keys
  MaxFiles = 5
  Dev <- mc_NoDev
  KillAllowed <- mc_NoKill
  InitRows <- mc_Init_absent
  PlanSample = 40
CONSTRAINT PlanOut
VIEW PlanView
CHECK_DEADLOCK FALSE
