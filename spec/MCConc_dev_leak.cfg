\* MUST FAIL (QuiescentAgreement): released behaviour, files written in an aborted block are left (known finding)
SPECIFICATION Spec
CONSTANTS
  Clients <- mc_Clients2
  Programs <- mc_ProgTx
  Keys <- mc_Keys
  MaxFiles = 5
  Dev <- mc_DevLeak
  KillAllowed <- mc_NoKill
  InitRows <- mc_InitRows
INVARIANT TypeOK
INVARIANT CommittedRefsComplete
INVARIANT AbsAgree
INVARIANT ReturnsLinearizable
INVARIANT DeadLeavesNoLock
INVARIANT QuiescentAgreement
CHECK_DEADLOCK FALSE
