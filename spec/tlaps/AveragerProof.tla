---------------------------- MODULE AveragerProof ----------------------------
(***************************************************************************)
(* Averager (Averager.tla) for an ARBITRARY set of clients and arbitrary   *)
(* integer values: EveryAddCounted proved with TLAPS.  total and count are *)
(* separate variables here (tuples add nothing to the argument).           *)
(***************************************************************************)
EXTENDS Integers, TLAPS
CONSTANTS Clients, NoOne
ASSUME NoOneAssump == NoOne \notin Clients
VARIABLES total, count, lock, pc, ltotal, lcount, arg, gtotal, gcount
vars == <<total, count, lock, pc, ltotal, lcount, arg, gtotal, gcount>>

Init == /\ total = 0 /\ count = 0 /\ gtotal = 0 /\ gcount = 0 /\ lock = NoOne
        /\ pc = [c \in Clients |-> "idle"] /\ ltotal = [c \in Clients |-> 0] /\ lcount = [c \in Clients |-> 0]
        /\ arg = [c \in Clients |-> 0]
StartAdd(c) == /\ pc[c] = "idle" /\ \E v \in Int : arg' = [arg EXCEPT ![c] = v]
               /\ pc' = [pc EXCEPT ![c] = "begin"] /\ UNCHANGED <<total, count, lock, ltotal, lcount, gtotal, gcount>>
Begin(c) == /\ pc[c] = "begin" /\ lock = NoOne /\ lock' = c /\ pc' = [pc EXCEPT ![c] = "read"]
            /\ UNCHANGED <<total, count, ltotal, lcount, arg, gtotal, gcount>>
Read(c) == /\ pc[c] = "read" /\ ltotal' = [ltotal EXCEPT ![c] = total] /\ lcount' = [lcount EXCEPT ![c] = count]
           /\ pc' = [pc EXCEPT ![c] = "write"] /\ UNCHANGED <<total, count, lock, arg, gtotal, gcount>>
Write(c) == /\ pc[c] = "write" /\ lock = c
            /\ total' = ltotal[c] + arg[c] /\ count' = lcount[c] + 1
            /\ gtotal' = gtotal + arg[c] /\ gcount' = gcount + 1
            /\ lock' = NoOne /\ pc' = [pc EXCEPT ![c] = "idle"] /\ UNCHANGED <<ltotal, lcount, arg>>
Pop(c) == /\ pc[c] = "idle" /\ lock = NoOne /\ total' = 0 /\ count' = 0 /\ gtotal' = 0 /\ gcount' = 0
          /\ UNCHANGED <<lock, pc, ltotal, lcount, arg>>
Next == \E c \in Clients : StartAdd(c) \/ Begin(c) \/ Read(c) \/ Write(c) \/ Pop(c)
Spec == Init /\ [][Next]_vars

EveryAddCounted == total = gtotal /\ count = gcount
Inv == /\ total \in Int /\ count \in Int /\ gtotal \in Int /\ gcount \in Int
       /\ pc \in [Clients -> {"idle", "begin", "read", "write"}]
       /\ ltotal \in [Clients -> Int] /\ lcount \in [Clients -> Int] /\ arg \in [Clients -> Int]
       /\ lock \in Clients \cup {NoOne}
       /\ EveryAddCounted
       /\ \A c \in Clients : (pc[c] \in {"read", "write"}) <=> (lock = c)
       /\ \A c \in Clients : pc[c] = "write" => (ltotal[c] = total /\ lcount[c] = count)

THEOREM InitInv == Init => Inv
  BY NoOneAssump DEF Init, Inv, EveryAddCounted

THEOREM NextInv == Inv /\ [Next]_vars => Inv'
<1> SUFFICES ASSUME Inv, [Next]_vars PROVE Inv'
  OBVIOUS
<1>1. ASSUME NEW c \in Clients, StartAdd(c) PROVE Inv'
  BY <1>1, NoOneAssump DEF StartAdd, Inv, EveryAddCounted
<1>2. ASSUME NEW c \in Clients, Begin(c) PROVE Inv'
  BY <1>2, NoOneAssump DEF Begin, Inv, EveryAddCounted
<1>3. ASSUME NEW c \in Clients, Read(c) PROVE Inv'
  BY <1>3, NoOneAssump DEF Read, Inv, EveryAddCounted
<1>4. ASSUME NEW c \in Clients, Write(c) PROVE Inv'
  BY <1>4, NoOneAssump DEF Write, Inv, EveryAddCounted
<1>5. ASSUME NEW c \in Clients, Pop(c) PROVE Inv'
  BY <1>5, NoOneAssump DEF Pop, Inv, EveryAddCounted
<1>6. CASE UNCHANGED vars
  BY <1>6 DEF vars, Inv, EveryAddCounted
<1> QED BY <1>1, <1>2, <1>3, <1>4, <1>5, <1>6 DEF Next

THEOREM Safety == Spec => []EveryAddCounted
<1>1. Spec => []Inv
  BY InitInv, NextInv, PTL DEF Spec
<1>2. Inv => EveryAddCounted
  BY DEF Inv
<1> QED BY <1>1, <1>2, PTL
=============================================================================
