---------------------------- MODULE ThrottleProofNoCap ----------------------------
(***************************************************************************)
(* The token bucket of diskcache.recipes.throttle (Throttle.tla without    *)
(* its history variable, ONE caller class abstracted away: a step either   *)
(* lets time pass or is one pass of the loop), with a machine-checked      *)
(* proof (TLAPS) that the accounting invariant is inductive for ANY Count, *)
(* Q >= 1 — Apalache discharges the same obligation for fixed constants.   *)
(*   Inv : 0 <= tally <= Count*Q  /\  n*Q + tally <= Count*Q + last        *)
(*         /\ 0 <= last <= now /\ n >= 0                                   *)
(* Consequence: n*Q <= Count*Q + now  (starts so far are bounded by the    *)
(* bucket plus the elapsed time).                                          *)
(***************************************************************************)
EXTENDS Integers, TLAPS
CONSTANTS Count, Q
ASSUME ConstAssump == Count \in Nat /\ Q \in Nat /\ Count >= 1 /\ Q >= 1
VARIABLES now, last, tally, n
vars == <<now, last, tally, n>>

Init == now = 0 /\ last = 0 /\ tally = Count * Q /\ n = 0
Tick == now' = now + 1 /\ UNCHANGED <<last, tally, n>>
\* one pass of the loop at the current instant: start (capped or not) or go to sleep (nothing stored)
Pass == LET t == tally + (now - last) IN
        \/ t > Count * Q /\ tally' = t - Q /\ last' = now /\ n' = n + 1 /\ UNCHANGED now
        \/ t <= Count * Q /\ t >= Q /\ tally' = t - Q /\ last' = now /\ n' = n + 1 /\ UNCHANGED now
        \/ t < Q /\ UNCHANGED vars
Next == Tick \/ Pass
Spec == Init /\ [][Next]_vars

Inv == /\ now \in Int /\ last \in Int /\ tally \in Int /\ n \in Int
       /\ tally >= 0 /\ tally <= Count * Q
       /\ n * Q + tally <= Count * Q + last
       /\ last >= 0 /\ last <= now /\ n >= 0
RateFromZero == n * Q <= Count * Q + now

THEOREM InitInv == Init => Inv
  BY ConstAssump DEF Init, Inv

THEOREM NextInv == Inv /\ [Next]_vars => Inv'
<1> SUFFICES ASSUME Inv, [Next]_vars PROVE Inv'
  OBVIOUS
<1>1. CASE Tick
  BY <1>1, ConstAssump DEF Tick, Inv
<1>2. CASE Pass
  <2> DEFINE t == tally + (now - last)
  <2>1. CASE t > Count * Q /\ tally' = t - Q /\ last' = now /\ n' = n + 1 /\ UNCHANGED now
    <3>1. (n + 1) * Q = n * Q + Q
      BY ConstAssump DEF Inv
    <3> QED BY <2>1, <3>1, ConstAssump DEF Inv
  <2>2. CASE t <= Count * Q /\ t >= Q /\ tally' = t - Q /\ last' = now /\ n' = n + 1 /\ UNCHANGED now
    <3>1. (n + 1) * Q = n * Q + Q
      BY ConstAssump DEF Inv
    <3> QED BY <2>2, <3>1, ConstAssump DEF Inv
  <2>3. CASE t < Q /\ UNCHANGED vars
    BY <2>3 DEF Inv, vars
  <2> QED BY <1>2, <2>1, <2>2, <2>3 DEF Pass
<1>3. CASE UNCHANGED vars
  BY <1>3 DEF Inv, vars
<1> QED BY <1>1, <1>2, <1>3 DEF Next

THEOREM InvImpliesRate == Inv => RateFromZero
  BY ConstAssump DEF Inv, RateFromZero

THEOREM Safety == Spec => []Inv
  BY InitInv, NextInv, PTL DEF Spec
=============================================================================
