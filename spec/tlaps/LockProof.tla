------------------------------ MODULE LockProof ------------------------------
(***************************************************************************)
(* diskcache.recipes.Lock and RLock (Locks.tla) for an ARBITRARY set of    *)
(* contenders, with machine-checked TLAPS proofs of mutual exclusion and   *)
(* RLock ownership (TLC explores 3 contenders x 2 rounds).                 *)
(*   Lock  : acquire = add(key) succeeded ; release = delete(key)          *)
(*   RLock : (owner, count) read-modify-write in one transaction           *)
(***************************************************************************)
EXTENDS Integers, TLAPS
CONSTANT Procs
VARIABLES key, holders,          \* Lock: "free" / "held"; the contenders inside
          rk, held               \* RLock: [o |-> owner or "none", n |-> count]; held[p] = times p holds it
vars == <<key, holders, rk, held>>
None == CHOOSE x : x \notin Procs

Init == /\ key = "free" /\ holders = {}
        /\ rk = [o |-> None, n |-> 0] /\ held = [p \in Procs |-> 0]
Acquire(p) == /\ key = "free" /\ key' = "held" /\ holders' = holders \cup {p} /\ UNCHANGED <<rk, held>>
Release(p) == /\ p \in holders /\ key' = "free" /\ holders' = holders \ {p} /\ UNCHANGED <<rk, held>>
RAcquire(p) == /\ (rk.n = 0 \/ rk.o = p)
               /\ rk' = [o |-> p, n |-> rk.n + 1] /\ held' = [held EXCEPT ![p] = @ + 1] /\ UNCHANGED <<key, holders>>
RRelease(p) == /\ rk.o = p /\ rk.n > 0                   \* a release by a non-owner is refused
               /\ rk' = [o |-> p, n |-> rk.n - 1] /\ held' = [held EXCEPT ![p] = @ - 1] /\ UNCHANGED <<key, holders>>
Next == \E p \in Procs : Acquire(p) \/ Release(p) \/ RAcquire(p) \/ RRelease(p)
Spec == Init /\ [][Next]_vars

MutualExclusion == \A p, q \in holders : p = q
LockInv == /\ holders \subseteq Procs
           /\ (key = "free" /\ holders = {}) \/ (key = "held" /\ \E p \in Procs : holders = {p})
RLockInv == /\ held \in [Procs -> Nat] /\ rk.n \in Nat
            /\ (rk.n = 0 => \A p \in Procs : held[p] = 0)
            /\ (rk.n > 0 => (rk.o \in Procs /\ held[rk.o] = rk.n /\ \A q \in Procs \ {rk.o} : held[q] = 0))
RLockExclusion == \A p, q \in Procs : held[p] > 0 /\ held[q] > 0 => p = q
Inv == LockInv /\ RLockInv

THEOREM InitInv == Init => Inv
  BY DEF Init, Inv, LockInv, RLockInv

THEOREM NextInv == Inv /\ [Next]_vars => Inv'
<1> SUFFICES ASSUME Inv, [Next]_vars PROVE Inv'
  OBVIOUS
<1>1. ASSUME NEW p \in Procs, Acquire(p) PROVE Inv'
  BY <1>1 DEF Acquire, Inv, LockInv, RLockInv
<1>2. ASSUME NEW p \in Procs, Release(p) PROVE Inv'
  BY <1>2 DEF Release, Inv, LockInv, RLockInv
<1>3. ASSUME NEW p \in Procs, RAcquire(p) PROVE Inv'
  BY <1>3 DEF RAcquire, Inv, LockInv, RLockInv
<1>4. ASSUME NEW p \in Procs, RRelease(p) PROVE Inv'
  BY <1>4 DEF RRelease, Inv, LockInv, RLockInv
<1>5. CASE UNCHANGED vars
  BY <1>5 DEF vars, Inv, LockInv, RLockInv
<1> QED BY <1>1, <1>2, <1>3, <1>4, <1>5 DEF Next

THEOREM InvImpliesExclusion == Inv => MutualExclusion /\ RLockExclusion
  BY DEF Inv, LockInv, RLockInv, MutualExclusion, RLockExclusion

THEOREM Safety == Spec => [](MutualExclusion /\ RLockExclusion)
<1>1. Spec => []Inv
  BY InitInv, NextInv, PTL DEF Spec
<1> QED BY <1>1, InvImpliesExclusion, PTL
=============================================================================
