------------------------------- MODULE Averager -------------------------------
(***************************************************************************)
(* C20 design level, Averager: add(v) = one transaction { read (total,     *)
(* count); write (total+v, count+1) }, get = lock-free read of the pair,   *)
(* pop = atomic read-and-delete.  Clients in threads or processes.         *)
(*   EveryAddCounted : the stored pair is the sum and number of the adds   *)
(*                     completed (or committed) since the last pop         *)
(*   MeanIsTotalOverCount : get / pop return total/count of a stored pair  *)
(* Deviation D_add_not_atomic: read and write of add in separate           *)
(* transactions (what a lost transaction discipline amounts to).           *)
(***************************************************************************)
EXTENDS Integers, Sequences, FiniteSets, TLC
CONSTANTS Clients, Vals, MaxOps, Dev
VARIABLES pair, lock, pc, loc, arg, ghost, ops, ret
vars == <<pair, lock, pc, loc, arg, ghost, ops, ret>>
\* pair = <<total, count>> stored (<<0,0>> = absent); ghost = <<sum, number>> of adds committed since the last pop

Init == /\ pair = <<0, 0>> /\ lock = 0 /\ ghost = <<0, 0>> /\ ops = 0
        /\ pc = [c \in Clients |-> "idle"] /\ loc = [c \in Clients |-> <<0, 0>>]
        /\ arg = [c \in Clients |-> 0] /\ ret = [c \in Clients |-> <<0, 0>>]

StartAdd(c, v) == /\ pc[c] = "idle" /\ ops < MaxOps /\ ops' = ops + 1
                  /\ arg' = [arg EXCEPT ![c] = v]
                  /\ pc' = [pc EXCEPT ![c] = IF "D_add_not_atomic" \in Dev THEN "read" ELSE "begin"]
                  /\ UNCHANGED <<pair, lock, loc, ghost, ret>>
Begin(c) == /\ pc[c] = "begin" /\ lock = 0 /\ lock' = c /\ pc' = [pc EXCEPT ![c] = "read"]
            /\ UNCHANGED <<pair, loc, arg, ghost, ops, ret>>
Read(c) == /\ pc[c] = "read" /\ loc' = [loc EXCEPT ![c] = pair] /\ pc' = [pc EXCEPT ![c] = "write"]
           /\ UNCHANGED <<pair, lock, arg, ghost, ops, ret>>
\* the write (and COMMIT); without the block the write takes the lock for itself only
Write(c) == /\ pc[c] = "write" /\ (lock = c \/ ("D_add_not_atomic" \in Dev /\ lock = 0))
            /\ pair' = <<loc[c][1] + arg[c], loc[c][2] + 1>>
            /\ ghost' = <<ghost[1] + arg[c], ghost[2] + 1>>
            /\ lock' = 0 /\ pc' = [pc EXCEPT ![c] = "idle"]
            /\ UNCHANGED <<loc, arg, ops, ret>>
Get(c) == /\ pc[c] = "idle" /\ ops < MaxOps /\ ops' = ops + 1
          /\ ret' = [ret EXCEPT ![c] = pair]
          /\ UNCHANGED <<pair, lock, pc, loc, arg, ghost>>
Pop(c) == /\ pc[c] = "idle" /\ ops < MaxOps /\ lock = 0 /\ ops' = ops + 1
          /\ ret' = [ret EXCEPT ![c] = pair] /\ pair' = <<0, 0>> /\ ghost' = <<0, 0>>
          /\ UNCHANGED <<lock, pc, loc, arg>>
Next == \E c \in Clients : (\E v \in Vals : StartAdd(c, v)) \/ Begin(c) \/ Read(c) \/ Write(c) \/ Get(c) \/ Pop(c)
Spec == Init /\ [][Next]_vars /\ \A c \in Clients : WF_vars(Begin(c) \/ Read(c) \/ Write(c))

EveryAddCounted == pair = ghost
AllAddsFinish == <>[](\A c \in Clients : pc[c] = "idle")
=============================================================================
