\* C15 design: lock, 3 contenders x 2 rounds (RLock nesting depth 2, semaphore value 2)
SPECIFICATION Spec
CONSTANTS
  Dev = {}
  Procs = {p1, p2, p3}
  Kind = "lock"
  Permits = 2
  Rounds = 2
  Depth = 2
INVARIANT MutualExclusion
INVARIANT SemBound
INVARIANT RLockOwner
INVARIANT FreeWhenNoHolder
PROPERTY AllDone
CHECK_DEADLOCK FALSE
