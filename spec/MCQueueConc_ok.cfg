\* 2 producers x 2 pushes, 2 consumers x 2 pulls, every interleaving of their statements
SPECIFICATION Spec
CONSTANTS
  Producers = {p1, p2}
  Consumers = {c1, c2}
  PerProducer = 2
  PullsEach = 2
  Dev <- mc_NoDev
  Kills = FALSE
INVARIANT AtMostOnce
INVARIANT NoLoss
INVARIANT KeysIncrease
INVARIANT Fifo
CHECK_DEADLOCK FALSE
