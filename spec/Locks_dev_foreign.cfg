\* MUST FAIL: D_foreign_release
\* C15 design: rlock, 3 contenders x 2 rounds (RLock nesting depth 2, semaphore value 2)
SPECIFICATION Spec
CONSTANTS
  Dev = {"D_foreign_release"}
  Procs = {p1, p2, p3}
  Kind = "rlock"
  Permits = 2
  Rounds = 2
  Depth = 2
INVARIANT MutualExclusion
INVARIANT SemBound
INVARIANT RLockOwner
INVARIANT FreeWhenNoHolder
CHECK_DEADLOCK FALSE
