\* every directory state with <= 2 rows, 3 file ids, sizes {1,2}, files at the top level or in two nested directories, stray empty directories, counters off
SPECIFICATION Spec
CONSTANTS
  MaxRows = 2
  Fids = {1, 2, 3}
  Sizes = {1, 2}
INVARIANT FixConverges
INVARIANT FixIdempotent
INVARIANT FixPreservesUndamaged
INVARIANT OnlyDamageReported
CHECK_DEADLOCK FALSE
