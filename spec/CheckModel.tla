------------------------------ MODULE CheckModel ------------------------------
(***************************************************************************)
(* C17 design level: over EVERY small directory state O (rows referring to *)
(* files that may be missing or of the wrong size, stray files, empty      *)
(* directories at two levels, counters off) the repair defined in CheckOps *)
(*   FixConverges          : Report(Fixed(O)) = {}                         *)
(*   FixIdempotent         : Fixed(Fixed(O)) = Fixed(O)                    *)
(*   FixPreservesUndamaged : a row whose file exists with the recorded     *)
(*                           size, or that has no file, is in Fixed(O)     *)
(*                           unchanged; no row is invented                 *)
(*   OnlyDamageReported    : Report(O) = {} iff O is consistent            *)
(* The state is chosen in Init (one TLC "behaviour" per O).                *)
(***************************************************************************)
EXTENDS CheckOps
CONSTANTS MaxRows, Fids, Sizes
VARIABLE O
Dirs == {<<1, 0>>, <<2, 1>>, <<3, 0>>}           \* directory 1 in the cache directory, 2 inside 1, 3 in the cache directory
RowChoices == {<<k, f, s, 7>> : k \in 1..MaxRows, f \in {-1} \cup Fids, s \in Sizes}
FileChoices == [Fids -> {<<0, 0>>} \cup (Sizes \X {0, 1, 2})]     \* per file id: absent, or <<size, directory>> (0: top level)

Init == \E r1, r2 \in RowChoices \cup {<<0, -1, 0, 0>>}, fc \in FileChoices, extra \in SUBSET Dirs, c \in 0..MaxRows, z \in 0..(2 * MaxRows) :
          LET rows == SelectSeq(<<r1, r2>>, LAMBDA r : r[1] # 0)
              files == {<<f, fc[f][1], fc[f][2]>> : f \in {g \in Fids : fc[g] # <<0, 0>>}}
              used == {d \in Dirs : \E f \in files : f[3] = d[1]} \cup {d \in Dirs : \E f \in files : f[3] = 2 /\ d[1] = 1}
              dirs == used \cup extra \cup {d \in Dirs : \E e \in extra : e[2] = d[1]}
          IN /\ (Len(rows) = 2 => rows[1][1] < rows[2][1] /\ (rows[1][2] = -1 \/ rows[1][2] # rows[2][2]))   \* distinct keys, distinct files
             /\ O = [rows |-> rows, files |-> SetToSeq(files),
                     dirs |-> SetToSeq({DirRec(d, dirs, files) : d \in dirs}), ctr |-> <<c, z>>]
Next == UNCHANGED O
Spec == Init /\ [][Next]_O

Consistent(S) == /\ Missing(S) = {} /\ WrongSize(S) = {} /\ Unknown(S) = {} /\ EmptyDirs(S) = {}
                 /\ S.ctr = <<Len(S.rows), SumSizes(S)>>
FixConverges == Report(Fixed(O)) = {}
FixIdempotent == LET F == Fixed(O) IN Fixed(F).rows = F.rows /\ SetOf(Fixed(F).files) = SetOf(F.files) /\ SetOf(Fixed(F).dirs) = SetOf(F.dirs) /\ Fixed(F).ctr = F.ctr
FixPreservesUndamaged ==
    /\ \A r \in SetOf(O.rows) : (r[2] = -1 \/ (r[2] \in FileIds(O) /\ SizeOfFile(O, r[2]) = r[3])) => r \in SetOf(Fixed(O).rows)
    /\ \A r \in SetOf(Fixed(O).rows) : \E q \in SetOf(O.rows) : q[1] = r[1] /\ q[2] = r[2] /\ q[4] = r[4]
OnlyDamageReported == (Report(O) = {}) <=> Consistent(O)
\* the repair of the released version removed a directory it emptied but not the parents emptied by that (repaired,
\* F17-empty-parent): that variant MUST NOT converge
FixedOnePass(S) ==
    LET rows == FixedRows(S)
        files == FixedFiles(S)
        dirs0 == {<<d[1], d[2]>> : d \in SetOf(S.dirs)}
        empty == {d \in dirs0 : d[1] # 0 /\ (~\E f \in files : f[3] = d[1]) /\ (~\E c \in dirs0 : c[2] = d[1] /\ c # d)}
        dirs == dirs0 \ empty
    IN [rows |-> rows, files |-> SetToSeq(files), dirs |-> SetToSeq({DirRec(d, dirs, files) : d \in dirs}),
        ctr |-> <<Len(rows), FoldSeq(LAMBDA r, acc : acc + r[3], 0, rows)>>]
OnePassConverges == Report(FixedOnePass(O)) = {}
=============================================================================
