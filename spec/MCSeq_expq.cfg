\* C04 quick: 2 keys, ttl in {None,0,1,-1}, clock 0..2, cull limit {0,1}
SPECIFICATION Spec
CONSTANTS
  QBase = 10
  QIntStart <- mc_QIntStart
  QIntMax <- mc_QIntMax
  QDigits <- mc_QDigits
  CullBatch = 2
  Keys <- mc_Keys2
  Vals = {1}
  FileVals = {}
  Tags = {}
  Ttls <- mc_TtlsCore
  QPrefixes <- mc_PrefNone
  MaxNow = 2
  Policies = {"none"}
  CullLimits = {0, 1}
  Limits = {5}
  MaxRows = 2
  MaxCtr = 2
  Ops <- mc_ExpOps2
CONSTRAINT Bounded
VIEW View
CHECK_DEADLOCK FALSE
INVARIANT UniqueKeys
INVARIANT ExpiredInvisible
INVARIANT LiveVisible
PROPERTY NoSpuriousRemoval
PROPERTY ExplicitRemovalExact
PROPERTY NoExpiryNeverExpires
PROPERTY ExpireComplete
PROPERTY LazyCullBounded
PROPERTY NoEarlyEviction
PROPERTY EvictionOrder
PROPERTY NoneNeverEvicts
PROPERTY CullPost
PROPERTY StatsExact
