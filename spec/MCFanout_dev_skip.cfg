\* aggregate operations skipping the last shard: MUST violate SameResults or UnionIsReference
SPECIFICATION Spec
CONSTANTS
  QBase = 10
  QIntStart <- mc_QIntStart
  QIntMax <- mc_QIntMax
  QDigits <- mc_QDigits
  CullBatch = 2
  FKeys <- mc_FKeys
  FVals = {1, 100001}
  NShards = 2
  MaxNow = 2
  MaxLook = 2
  Dev <- mc_Skip
CONSTRAINT Bounded
INVARIANT SameResults
INVARIANT UnionIsReference
INVARIANT Partition
CHECK_DEADLOCK FALSE
