\* MUST FAIL (AbsAgree / ReturnsLinearizable): SELECT before BEGIN in pop and add
SPECIFICATION Spec
CONSTANTS
  Clients <- mc_Clients2
  Programs <- mc_ProgPairs
  Keys <- mc_Keys
  MaxFiles = 4
  Dev <- mc_DevSelect
  KillAllowed <- mc_NoKill
  InitRows <- mc_InitRows
INVARIANT TypeOK
INVARIANT CommittedRefsComplete
INVARIANT AbsAgree
INVARIANT ReturnsLinearizable
INVARIANT DeadLeavesNoLock
INVARIANT QuiescentAgreement
CHECK_DEADLOCK FALSE
