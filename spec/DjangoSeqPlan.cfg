\* C19 contract refinement: key "1:a" x versions 1..2 x prefixes {"", "p"} x backend TIMEOUT {None, 0, 2} x timeouts {DEFAULT, None, 0, 1}, values {1, opaque}, 2 instants
SPECIFICATION PSpec
CONSTANTS
  QBase = 10
  QIntStart <- mc_QIntStart
  QIntMax <- mc_QIntMax
  QDigits <- mc_QDigits
  CullBatch = 2
  DKeys <- mc_OneKey
  DVals = {1, 2}
  KeyPrefixes <- mc_Prefixes
  BackendTimeouts <- mc_Timeouts
  MaxNow = 1
  DjDev <- mc_NoDjDev
  PlanDepth = 12
  PlanSample = 300
  MaxVer = 2
  Tms <- mc_Tms
CONSTRAINT PlanOut
VIEW PlanView
CHECK_DEADLOCK FALSE
