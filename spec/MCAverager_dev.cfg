\* Averager: 3 clients, values {1, 2}, up to 5 operations (add / get / pop); add without its transaction block: MUST violate EveryAddCounted
SPECIFICATION Spec
CONSTANTS
  Clients = {c1, c2, c3}
  Vals = {1, 2}
  MaxOps = 5
  Dev <- mc_Dev
INVARIANT EveryAddCounted
PROPERTY AllAddsFinish
CHECK_DEADLOCK FALSE
