SPECIFICATION LSpec
CONSTANTS
  QBase = 10000000
  QIntStart <- tr_QIntStart
  QIntMax <- tr_QIntMax
  QDigits <- tr_QDigits
  CullBatch = 10
CONSTRAINT Record
POSTCONDITION Report
CHECK_DEADLOCK FALSE
