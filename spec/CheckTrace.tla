------------------------------ MODULE CheckTrace ------------------------------
(***************************************************************************)
(* C17: check() as a FUNCTION of the directory state, and check(fix=True)  *)
(* as a state transformer.                                                 *)
(* Observed state O (taken with plain SQL and os.walk, not by the library):*)
(*   rows  : <<key, fid | -1, recorded size, value id>>                    *)
(*   files : <<fid, actual size, dir id>>        (every *.val / stray file)*)
(*   dirs  : <<dir id, parent dir id, #files, #subdirs>>  (0 = cache dir)  *)
(*   ctr   : <<count, size>>                                               *)
(* Report(O): the inconsistencies check() must report;  Fixed(O): what     *)
(* check(fix=True) must leave.  Properties: ReportComplete, PlainCheckPure,*)
(* FixConverges (second report empty), FixPreservesUndamaged.              *)
(***************************************************************************)
EXTENDS CheckOps, Json, IOUtils, TLCExt
CONSTANT Dev
tr_Dev == {"D_fix_keeps_corrupt_pickle"}
Doc == JsonDeserialize(IOEnv.TRACE_FILE)
Traces == Doc.traces
NT == Len(Traces)
VARIABLES tid, done

RowsOf(O) == O.rows
Judge(t) ==
    LET O0 == t.obs0
        O1 == t.obs1     \* after plain check()
        O2 == t.obs2     \* after check(fix=True)
        W1 == SetOf(t.warn1)
        W2 == SetOf(t.warn2)
        W3 == SetOf(t.warn3)
        fixedRows == FixedRows(O0)
    IN IF t.busy = 1 /\ t.raised0 = 0 /\ SetOf(t.warn0) # Report(O0)
       THEN "C17 check() returned while another client held the write lock and left out inconsistencies: expected "
            \o ToJson(Report(O0)) \o " got " \o ToJson(SetOf(t.warn0))
       ELSE IF W1 # Report(O0)
       THEN "C17 check() did not report exactly the inconsistencies of the directory: expected " \o ToJson(Report(O0)) \o " got " \o ToJson(W1)
       ELSE IF O1 # O0 THEN "C17 check() without fix changed the cache"
       ELSE IF ~(Report(O0) \subseteq W2)
       THEN "C17 check(fix=True) did not report every inconsistency: missing " \o ToJson(Report(O0) \ W2)
       ELSE IF \E w \in W2 \ Report(O0) : w[1] # "empty-dir"
       THEN "C17 check(fix=True) reported something that is not there: " \o ToJson(W2 \ Report(O0))
       ELSE IF W3 # {} THEN "C17 a second check after check(fix=True) still reports " \o ToJson(W3)
       ELSE IF O2.rows # fixedRows
       THEN "C17 after the repair the items are not 'undamaged items untouched, items with a missing file dropped, sizes corrected': expected "
            \o ToJson(fixedRows) \o " got " \o ToJson(O2.rows)
       ELSE IF SetOf(O2.files) # FixedFiles(O0) THEN "C17 after the repair the value files are not exactly the referenced ones"
       ELSE IF \E r \in SetOf(O2.rows) : r[4] = -2
       THEN \* known finding: a value stored as a pickle file whose file was truncated / extended keeps its row
            IF "D_fix_keeps_corrupt_pickle" \in Dev /\
               \A r \in SetOf(O2.rows) : r[4] = -2 => \E w \in WrongSize(O0) : w[1] = r[1]
            THEN "KNOWN"
            ELSE "C17 an item left by the repair is not readable"
       ELSE IF O2.ctr # <<Len(fixedRows), FoldSeq(LAMBDA r, acc : acc + r[3], 0, fixedRows)>> THEN "C17 counters wrong after the repair"
       ELSE IF EmptyDirs(O2) # {} THEN "C17 the repair left an empty directory"
       ELSE "ok"

CInit == tid \in 1..NT /\ done = FALSE
CNext == /\ ~done /\ done' = TRUE /\ UNCHANGED tid
         /\ LET t == Traces[tid]
                j == Judge(t)
            IN PrintT("VERDICT " \o ToJson(IF j = "ok" THEN [id |-> t.id, ok |-> TRUE, n |-> 1, known |-> {}]
                                           ELSE IF j = "KNOWN" THEN [id |-> t.id, ok |-> TRUE, n |-> 1, known |-> {"D_fix_keeps_corrupt_pickle"}]
                                           ELSE [id |-> t.id, ok |-> FALSE, at |-> 1, why |-> j]))
CSpec == CInit /\ [][CNext]_<<tid, done>>
=============================================================================
