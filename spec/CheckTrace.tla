------------------------------ MODULE CheckTrace ------------------------------
(***************************************************************************)
(* C17: check() as a FUNCTION of the directory state, and check(fix=True)  *)
(* as a state transformer.                                                 *)
(* Observed state O (taken with plain SQL and os.walk, not by the library):*)
(*   rows  : <<key, fid | -1, recorded size, value id>>                    *)
(*   files : <<fid, actual size, dir id>>        (every *.val / stray file)*)
(*   dirs  : <<dir id, parent dir id, #files, #subdirs>>  (0 = cache dir)  *)
(*   ctr   : <<count, size>>                                               *)
(* Report(O): the inconsistencies check() must report;  Fixed(O): what     *)
(* check(fix=True) must leave.  Properties: ReportComplete, PlainCheckPure,*)
(* FixConverges (second report empty), FixPreservesUndamaged.              *)
(***************************************************************************)
EXTENDS Integers, Sequences, FiniteSets, TLC, Json, IOUtils, TLCExt, FiniteSetsExt, SequencesExt
CONSTANT Dev
tr_Dev == {"D_fix_keeps_corrupt_pickle"}
Doc == JsonDeserialize(IOEnv.TRACE_FILE)
Traces == Doc.traces
NT == Len(Traces)
VARIABLES tid, done

SetOf(s) == {s[i] : i \in DOMAIN s}
FileIds(O) == {f[1] : f \in SetOf(O.files)}
SizeOfFile(O, fid) == (CHOOSE f \in SetOf(O.files) : f[1] = fid)[2]
Refs(O) == {r[2] : r \in {x \in SetOf(O.rows) : x[2] >= 0}}

Missing(O) == {r \in SetOf(O.rows) : r[2] >= 0 /\ r[2] \notin FileIds(O)}
WrongSize(O) == {r \in SetOf(O.rows) : r[2] >= 0 /\ r[2] \in FileIds(O) /\ SizeOfFile(O, r[2]) # r[3]}
Unknown(O) == {f \in SetOf(O.files) : f[1] \notin Refs(O)}
EmptyDirs(O) == {d \in SetOf(O.dirs) : d[1] # 0 /\ d[3] = 0 /\ d[4] = 0}
SumSizes(O) == FoldSeq(LAMBDA r, acc : acc + r[3], 0, O.rows)

\* <<category, target>>
Report(O) ==
    {<<"file-not-found", r[2]>> : r \in Missing(O)} \cup {<<"wrong-size", r[2]>> : r \in WrongSize(O)}
    \cup {<<"unknown-file", f[1]>> : f \in Unknown(O)} \cup {<<"empty-dir", d[1]>> : d \in EmptyDirs(O)}
    \cup (IF O.ctr[1] # Len(O.rows) THEN {<<"count", 0>>} ELSE {})
    \cup (IF O.ctr[2] # SumSizes(O) THEN {<<"size", 0>>} ELSE {})

\* rows that survive a repair, with their repaired sizes (keys keep their order)
FixedRows(O) == LET keep == SelectSeq(O.rows, LAMBDA r : r \notin Missing(O))
                IN [i \in DOMAIN keep |-> IF keep[i][2] >= 0 THEN <<keep[i][1], keep[i][2], SizeOfFile(O, keep[i][2]), keep[i][4]>> ELSE keep[i]]
FixedFiles(O) == {f \in SetOf(O.files) : f[1] \in Refs(O)}

RowsOf(O) == O.rows
Judge(t) ==
    LET O0 == t.obs0
        O1 == t.obs1     \* after plain check()
        O2 == t.obs2     \* after check(fix=True)
        W1 == SetOf(t.warn1)
        W2 == SetOf(t.warn2)
        W3 == SetOf(t.warn3)
        fixedRows == FixedRows(O0)
    IN IF t.busy = 1 /\ t.raised0 = 0 /\ SetOf(t.warn0) # Report(O0)
       THEN "C17 check() returned while another client held the write lock and left out inconsistencies: expected "
            \o ToJson(Report(O0)) \o " got " \o ToJson(SetOf(t.warn0))
       ELSE IF W1 # Report(O0)
       THEN "C17 check() did not report exactly the inconsistencies of the directory: expected " \o ToJson(Report(O0)) \o " got " \o ToJson(W1)
       ELSE IF O1 # O0 THEN "C17 check() without fix changed the cache"
       ELSE IF ~(Report(O0) \subseteq W2)
       THEN "C17 check(fix=True) did not report every inconsistency: missing " \o ToJson(Report(O0) \ W2)
       ELSE IF \E w \in W2 \ Report(O0) : w[1] # "empty-dir"
       THEN "C17 check(fix=True) reported something that is not there: " \o ToJson(W2 \ Report(O0))
       ELSE IF W3 # {} THEN "C17 a second check after check(fix=True) still reports " \o ToJson(W3)
       ELSE IF O2.rows # fixedRows
       THEN "C17 after the repair the items are not 'undamaged items untouched, items with a missing file dropped, sizes corrected': expected "
            \o ToJson(fixedRows) \o " got " \o ToJson(O2.rows)
       ELSE IF SetOf(O2.files) # FixedFiles(O0) THEN "C17 after the repair the value files are not exactly the referenced ones"
       ELSE IF \E r \in SetOf(O2.rows) : r[4] = -2
       THEN \* known finding: a value stored as a pickle file whose file was truncated / extended keeps its row
            IF "D_fix_keeps_corrupt_pickle" \in Dev /\
               \A r \in SetOf(O2.rows) : r[4] = -2 => \E w \in WrongSize(O0) : w[1] = r[1]
            THEN "KNOWN"
            ELSE "C17 an item left by the repair is not readable"
       ELSE IF O2.ctr # <<Len(fixedRows), FoldSeq(LAMBDA r, acc : acc + r[3], 0, fixedRows)>> THEN "C17 counters wrong after the repair"
       ELSE IF EmptyDirs(O2) # {} THEN "C17 the repair left an empty directory"
       ELSE "ok"

CInit == tid \in 1..NT /\ done = FALSE
CNext == /\ ~done /\ done' = TRUE /\ UNCHANGED tid
         /\ LET t == Traces[tid]
                j == Judge(t)
            IN PrintT("VERDICT " \o ToJson(IF j = "ok" THEN [id |-> t.id, ok |-> TRUE, n |-> 1, known |-> {}]
                                           ELSE IF j = "KNOWN" THEN [id |-> t.id, ok |-> TRUE, n |-> 1, known |-> {"D_fix_keeps_corrupt_pickle"}]
                                           ELSE [id |-> t.id, ok |-> FALSE, at |-> 1, why |-> j]))
CSpec == CInit /\ [][CNext]_<<tid, done>>
=============================================================================
