\* C14: an independent lock holder against every call, with and without retry
SPECIFICATION Spec
CONSTANTS
  Clients <- mc_Clients2
  Programs <- mc_ProgLock
  Keys <- mc_Keys
  MaxFiles = 4
  Dev <- mc_NoDev
  KillAllowed <- mc_NoKill
  InitRows <- mc_InitRows
INVARIANT TypeOK
INVARIANT CommittedRefsComplete
INVARIANT AbsAgree
INVARIANT ReturnsLinearizable
INVARIANT DeadLeavesNoLock
INVARIANT QuiescentAgreement
CHECK_DEADLOCK FALSE
