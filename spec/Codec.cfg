SPECIFICATION Spec
INVARIANT RoundTripOrReject
INVARIANT RejectOnlyUnstorable
