SPECIFICATION Spec
CONSTANTS
  Dev <- mc_NoDev
  Vals <- mc_Vals3
  Names <- mc_Names
  MaxPos = 3
INVARIANT Inv
