------------------------------ MODULE MemoTrace ------------------------------
(* C16 conformance: observations of the real decorators judged by Memo.tla *)
EXTENDS Memo, Json, IOUtils, TLCExt
tr_Dev == {"D_none_separator"}
tr_Vals == {"N", "s:a", "i:1", "f:1"}
tr_Names == {"a", "b"}
Doc == JsonDeserialize(IOEnv.TRACE_FILE)
Traces == Doc.traces
NT == Len(Traces)
VARIABLES tid, l, done
mvars == <<tid, l, done, x>>
SetOf(s) == {s[i] : i \in DOMAIN s}

Judge(e) ==
    IF e.ev = "pair"
    THEN LET ign == SetOf(e.ign)
             typed == e.typed = 1
             same == Same(e.s1, e.s2, ign)
             relKeyEq == KeyCode(e.s1, typed, ign) = KeyCode(e.s2, typed, ign)    \* key of the released args_to_key
         IN IF e.r1ok # 1 THEN [ok |-> FALSE, why |-> "C16 the first call did not return what the undecorated function returns"]
            ELSE IF same /\ e.shared # 1
            THEN [ok |-> FALSE, why |-> "C16 a repeated call with the same arguments ran the function again"]
            ELSE IF same /\ e.s1 = e.s2 /\ e.r2ok # 1
            THEN [ok |-> FALSE, why |-> "C16 the cached result differs from what the function returns"]
            ELSE IF ~same /\ (e.shared = 1 \/ e.r2ok # 1 \/ e.samekey = 1)
            THEN IF relKeyEq /\ "D_none_separator" \in Dev
                 THEN [ok |-> TRUE, why |-> "KNOWN"]
                 ELSE [ok |-> FALSE, why |-> "C16 two calls with different arguments share a cache entry (second call served the first call's result)"]
            ELSE [ok |-> TRUE, why |-> ""]
    ELSE IF e.ev = "ttl"
    THEN IF e.expire = 0
         THEN IF e.calls2 = 2 /\ e.stored = 0 THEN [ok |-> TRUE, why |-> ""]
              ELSE [ok |-> FALSE, why |-> "C16 an expiry of zero stored something or served a cached result"]
         ELSE IF e.calls2 # 1 THEN [ok |-> FALSE, why |-> "C16 a repeated call within the expiry time ran the function again"]
         ELSE IF e.expire > 0 /\ e.calls3 # 2 THEN [ok |-> FALSE, why |-> "C16 a call after the expiry time was served from the cache"]
         ELSE IF e.expire < 0 /\ e.calls3 # 1 THEN [ok |-> FALSE, why |-> "C16 an entry without expiry was recomputed"]
         ELSE IF e.rok # 1 THEN [ok |-> FALSE, why |-> "C16 result differs from the undecorated function"]
         ELSE [ok |-> TRUE, why |-> ""]
    ELSE IF e.ev = "busy"
    THEN \* the lookup of a repeated call while another client holds the write lock (statistics on: the lookup writes)
         IF e.raised # "" THEN [ok |-> FALSE, why |-> "C16 a repeated call failed with " \o e.raised \o " while another client held the lock"]
         ELSE IF e.calls # 1 THEN [ok |-> FALSE, why |-> "C16 a repeated call within the expiry time ran the function again (its lookup did not wait for the lock held by another client)"]
         ELSE IF e.rok # 1 THEN [ok |-> FALSE, why |-> "C16 result differs from the undecorated function"]
         ELSE [ok |-> TRUE, why |-> ""]
    ELSE IF e.ev = "names"
    THEN IF e.q1 # e.q2 /\ (e.shared = 1 \/ e.r2ok # 1)
         THEN [ok |-> FALSE, why |-> "C16 two different functions (" \o e.q1 \o ", " \o e.q2 \o ") share a cache entry"]
         ELSE IF e.q1 = e.q2 /\ (e.shared # 1 \/ e.r2ok # 1)
         THEN [ok |-> FALSE, why |-> "C16 the same function decorated twice did not find its own entry"]
         ELSE [ok |-> TRUE, why |-> ""]
    ELSE IF e.ev = "stamp"
    THEN IF e.ok12 # 1 THEN [ok |-> FALSE, why |-> "C16 memoize_stampede returned a wrong result around an early recomputation"]
         ELSE IF e.rok # 1 THEN [ok |-> FALSE, why |-> "C16 after an early recomputation of f(*X) the call f(*X, None) did not get its own result (shared entry with the recomputation marker)"]
         ELSE [ok |-> TRUE, why |-> ""]
    ELSE [ok |-> TRUE, why |-> ""]

MInit == tid \in 1..NT /\ l = 1 /\ done = FALSE /\ x = 0
MNext == /\ ~done
         /\ LET t == Traces[tid]
                r == Judge(t.ev[l])
            IN IF r.ok /\ r.why = "KNOWN"
               THEN /\ PrintT("VERDICT " \o ToJson([id |-> t.id, ok |-> TRUE, n |-> l, known |-> {"D_none_separator"}]))
                    /\ done' = TRUE /\ UNCHANGED l
               ELSE IF r.ok
               THEN /\ l' = l + 1 /\ done' = (l = Len(t.ev))
                    /\ (l = Len(t.ev)) => PrintT("VERDICT " \o ToJson([id |-> t.id, ok |-> TRUE, n |-> l, known |-> {}]))
               ELSE /\ PrintT("VERDICT " \o ToJson([id |-> t.id, ok |-> FALSE, at |-> l, why |-> r.why]))
                    /\ done' = TRUE /\ UNCHANGED l
         /\ UNCHANGED <<tid, x>>
MSpec == MInit /\ [][MNext]_mvars
=============================================================================
