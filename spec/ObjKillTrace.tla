----------------------------- MODULE ObjKillTrace -----------------------------
(***************************************************************************)
(* C07 over Deque and Index operations: a victim process runs operations   *)
(* on a Deque / Index and is killed before one of its boundary events; a   *)
(* fresh handle then lists the contents.  Reference: DequeOps / IndexOps.  *)
(*   CompletedPresent : with no call in flight the contents are those      *)
(*                      after the completed calls                          *)
(*   AllOrNothing     : otherwise they are the contents before or after    *)
(*                      the interrupted operation (clear and a lowered     *)
(*                      maxlen are bulk removals: partly applied)          *)
(*   SelfConsistent   : check() of the underlying cache reports at most    *)
(*                      unreferenced files / empty directories; writable   *)
(* Deviation D_inner_cleanup: see MonitorTrace (value file of an item       *)
(* removed inside a block deleted before the block commits).               *)
(* Deviation D_compound_not_atomic: operations made of several             *)
(* transactions (rotate, reverse, extend, extendleft, update) interrupted  *)
(* between them leave an intermediate state.                               *)
(***************************************************************************)
EXTENDS DequeOps, IndexOps, Json, IOUtils, TLCExt
CONSTANT Dev
tr_Dev == {"D_compound_not_atomic", "D_inner_cleanup"}
Doc == JsonDeserialize(IOEnv.TRACE_FILE)
Traces == Doc.traces
NT == Len(Traces)
VARIABLES tid, l, T, done
kvars == <<tid, l, T, done>>
NoCall == [op |-> "none"]
V(ok, Tn, why) == [ok |-> ok, T |-> Tn, why |-> why]
Apply(kind, S, e) == IF kind = "deque" THEN LET r == DDispatch(S, e) IN [S |-> r.D, ret |-> r.ret]
                     ELSE LET r == IDispatch(S, e) IN [S |-> r.X, ret |-> r.ret]
Contents(kind, S) == IF kind = "deque" THEN S.items ELSE S
RangeOf(s) == {s[i] : i \in DOMAIN s}
Compound(op) == op \in {"rotate", "reverse", "extend", "extendleft", "update"}
BulkRemoval(op) == op \in {"clear", "setmaxlen"}
Debris == {"unknown-file", "empty-dir"}

Step(kind, To, e) ==
    IF e.ev = "call" THEN V(TRUE, [To EXCEPT !.pend = [op |-> e.op, a |-> e.a]], "")
    ELSE IF e.ev = "ret"
    THEN LET r == Apply(kind, To.S, To.pend) IN
         IF r.ret.k # e.ret.k \/ r.ret.v # e.ret.v
         THEN V(FALSE, To, To.pend.op \o " returned " \o ToJson(e.ret) \o "; the reference returns " \o ToJson(r.ret))
         ELSE V(TRUE, [To EXCEPT !.S = r.S, !.pend = NoCall], "")
    ELSE IF e.ev = "obs"
    THEN IF e.opened # 1 THEN V(FALSE, To, "C07 a fresh handle cannot open the directory after the kill")
         ELSE IF e.unreadable # "" THEN V(FALSE, To, "C07 the contents cannot be listed after the kill: " \o e.unreadable)
         \* known finding (C06/C07/C08): an operation that is a transaction block around a removal (append at maxlen =
         \* push + pop of the other end, a lowered maxlen, popitem = peekitem + delete) deletes the removed item's value
         \* file when the inner call returns, before the block commits; killed there, the item is back without its file
         ELSE IF "D_inner_cleanup" \in Dev /\ "file-not-found" \in RangeOf(e.warn) /\ RangeOf(e.warn) \subseteq Debris \cup {"file-not-found"}
                 /\ To.pend.op \in {"append", "appendleft", "extend", "extendleft", "setmaxlen", "popitem"}
         THEN V(TRUE, [To EXCEPT !.known = @ \cup {"D_inner_cleanup"}], "")
         ELSE IF ~(RangeOf(e.warn) \subseteq Debris)
         THEN V(FALSE, To, "C07 the cache under the " \o kind \o " is not self-consistent after the kill: check() reports " \o ToJson(e.warn))
         ELSE IF e.wrote # 1 THEN V(FALSE, To, "C07 the directory cannot be written after the kill")
         ELSE IF To.pend.op = "none"
         THEN IF e.items = Contents(kind, To.S) THEN V(TRUE, To, "")
              ELSE V(FALSE, To, "C07 an operation that had completed before the kill is not fully present: expected " \o ToJson(Contents(kind, To.S)))
         ELSE LET before == Contents(kind, To.S)
                  after == Contents(kind, Apply(kind, To.S, To.pend).S)
              IN IF e.items = before \/ e.items = after THEN V(TRUE, To, "")
                 ELSE IF BulkRemoval(To.pend.op) /\ RangeOf(e.items) \subseteq RangeOf(before) /\ Len(e.items) <= Len(before)
                 THEN V(TRUE, To, "")
                 ELSE IF "D_compound_not_atomic" \in Dev /\ Compound(To.pend.op)
                         /\ RangeOf(e.items) \subseteq (RangeOf(before) \cup RangeOf(after))
                 THEN V(TRUE, [To EXCEPT !.known = @ \cup {"D_compound_not_atomic"}], "")
                 ELSE V(FALSE, To, "C07 the interrupted " \o To.pend.op \o " is neither fully applied nor not applied: found "
                                   \o ToJson(e.items) \o ", before " \o ToJson(before) \o ", after " \o ToJson(after))
    ELSE V(TRUE, To, "")

KInit == /\ tid \in 1..NT /\ l = 1 /\ done = FALSE
         /\ T = [S |-> IF Traces[tid].kind = "deque" THEN [items |-> Traces[tid].init, maxlen |-> Traces[tid].maxlen] ELSE Traces[tid].init,
                 pend |-> NoCall, known |-> {}]
KNext == /\ ~done
         /\ LET t == Traces[tid]
                r == Step(t.kind, T, t.ev[l])
            IN IF r.ok
               THEN /\ T' = r.T /\ l' = l + 1 /\ done' = (l = Len(t.ev))
                    /\ (l = Len(t.ev)) => PrintT("VERDICT " \o ToJson([id |-> t.id, ok |-> TRUE, n |-> l, known |-> r.T.known]))
               ELSE /\ PrintT("VERDICT " \o ToJson([id |-> t.id, ok |-> FALSE, at |-> l, why |-> r.why]))
                    /\ done' = TRUE /\ UNCHANGED <<l, T>>
         /\ UNCHANGED tid
KSpec == KInit /\ [][KNext]_kvars
=============================================================================
