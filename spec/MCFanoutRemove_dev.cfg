\* aggregate removal over 3 shards x 0..3 items, pages of 2, lock holders taking a shard lock up to 3 times; Timeout count overwriting the total: MUST violate CountsEverything
SPECIFICATION Spec
CONSTANTS
  NShards = 3
  Items = 3
  Page = 2
  MaxHolds = 3
  Dev <- mc_Dev
INVARIANT CountsEverything
INVARIANT EveryShardOnce
PROPERTY Terminates
CHECK_DEADLOCK FALSE
