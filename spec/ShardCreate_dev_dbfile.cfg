\* ShardCreate: must fail NeverUndivided (F19)
SPECIFICATION Spec
CONSTANTS
  N = 3
  Dev = {"D_test_db_file"}
INVARIANT TypeOK
INVARIANT NeverUndivided
INVARIANT ExplicitApplied
INVARIANT AllOpened
PROPERTY StoredSurvives
