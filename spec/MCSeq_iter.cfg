\* C03 iteration / peekitem / len over 3 keys with deletions and expiry
SPECIFICATION Spec
CONSTANTS
  QBase = 10
  QIntStart <- mc_QIntStart
  QIntMax <- mc_QIntMax
  QDigits <- mc_QDigits
  CullBatch = 2
  Keys <- mc_Keys3
  Vals = {1}
  FileVals = {}
  Tags = {}
  Ttls <- mc_TtlsMix
  QPrefixes <- mc_PrefNone
  MaxNow = 2
  Policies = {"none"}
  CullLimits = {1}
  Limits = {5}
  MaxRows = 3
  MaxCtr = 2
  Ops <- mc_IterOps
CONSTRAINT Bounded
VIEW View
CHECK_DEADLOCK FALSE
INVARIANT UniqueKeys
INVARIANT ExpiredInvisible
INVARIANT LiveVisible
PROPERTY NoSpuriousRemoval
PROPERTY ExplicitRemovalExact
PROPERTY NoExpiryNeverExpires
PROPERTY ExpireComplete
PROPERTY LazyCullBounded
PROPERTY NoEarlyEviction
PROPERTY EvictionOrder
PROPERTY NoneNeverEvicts
PROPERTY CullPost
PROPERTY StatsExact
