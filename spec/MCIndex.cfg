\* C12 refinement: 3 keys (two ints, one text), values {1,2}, all operations incl. two-pair update
SPECIFICATION Spec
CONSTANTS
  QBase = 10
  QIntStart <- mc_QIntStart
  QIntMax <- mc_QIntMax
  QDigits <- mc_QDigits
  CullBatch = 2
  IKeys <- mc_IKeys
  IVals = {1, 2}
  MaxItems = 3
CONSTRAINT Bounded
INVARIANT Refinement
INVARIANT SameResults
INVARIANT UniqueKeysX
CHECK_DEADLOCK FALSE
