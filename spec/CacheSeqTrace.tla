---------------------------- MODULE CacheSeqTrace ----------------------------
(***************************************************************************)
(* Trace validation of single-client histories recorded from the real      *)
(* Cache against the reference dictionary CacheOps.                        *)
(*                                                                         *)
(* The input (IOEnv.TRACE_FILE) is a JSON document                         *)
(*   { "traces": [ { "id": n, "init": {policy, cull, limit, stats},        *)
(*                   "ev": [ event, ... ] }, ... ] }                       *)
(* Every event carries the operation, its arguments, the controlled clock, *)
(* the page bytes the code saw when it computed its volume (pb), the       *)
(* return value, and the full projection of the cache after the call       *)
(* (rows in row-id order, counters).  The monitor is TOTAL and             *)
(* DETERMINISTIC: at every event it computes the reference result, names   *)
(* the first clause that disagrees and stops that trace, or moves on.      *)
(* One verdict line per trace is printed: ACCEPT or REJECT (JSON).         *)
(***************************************************************************)
EXTENDS CacheDispatch, Json, IOUtils, TLCExt

\* constants of the real code (substituted in CacheSeqTrace.cfg)
tr_QIntStart == <<0, 50000000, 0>>            \* 500000000000000
tr_QIntMax   == <<0, 99999999, 9999999>>      \* 999999999999999
tr_QDigits   == <<53, 48, 48, 48, 48, 48, 48, 48, 48, 48, 48, 48, 48, 48, 48>>

Doc == JsonDeserialize(IOEnv.TRACE_FILE)
Traces == Doc.traces
NT == Len(Traces)

VARIABLES tid, l, S, done
tvars == <<tid, l, S, done>>

InitState(c) == EmptyCache(c.policy, c.cull, c.limit, B(c.stats))

ObsKeys(e) == {e.rows[i][1] : i \in DOMAIN e.rows}

\* Page bytes: exact when the code looked (pb non-empty), otherwise the
\* driver's measurement after the call with a slack for pages allocated and
\* released inside the call.
Slack == 65536
VolLo(e, i) == IF Len(e.pb) >= i THEN e.pb[i] ELSE e.pbe - Slack
VolHi(e, i) == IF Len(e.pb) >= i THEN e.pb[i] ELSE e.pbe + Slack

LazyCullOK(S1, V, e) ==
    \/ CullOK(S1, V, e.now, LAMBDA rows : VolLo(e, 1) + SizeSum(rows) >= S1.limit)
    \/ CullOK(S1, V, e.now, LAMBDA rows : VolHi(e, 1) + SizeSum(rows) >= S1.limit)

MaxSeq(s, dflt) == IF s = <<>> THEN dflt ELSE Max({s[i] : i \in DOMAIN s})
ExplicitCullOK(S0, V, e) ==
    LET n == Len(e.pb)
        hi == MaxSeq(e.pb, e.pbe + Slack)
    IN \/ CullCallOK(S0, V, e.now,
                     LAMBDA rows : VolLo(e, 1) + SizeSum(rows) > S0.limit,
                     LAMBDA rows : VolLo(e, IF n = 0 THEN 1 ELSE n) + SizeSum(rows) > S0.limit, hi)
       \/ CullCallOK(S0, V, e.now,
                     LAMBDA rows : VolHi(e, 1) + SizeSum(rows) > S0.limit,
                     LAMBDA rows : VolHi(e, IF n = 0 THEN 1 ELSE n) + SizeSum(rows) > S0.limit, hi)

\* verdict of one event: [ok, S, why, exp]
Verdict(ok, St, why, exp) == [ok |-> ok, S |-> St, why |-> why, exp |-> exp]

Step(St, e) ==
    IF e.op = "cull"
    THEN LET V == KeysOf(St.rows) \ ObsKeys(e)
             S2 == [St EXCEPT !.rows = RemoveKeys(@, V)]
         IN IF e.ret # RInt(Cardinality(V))
               THEN Verdict(FALSE, St, "cull: return value is not the number of items removed",
                            ToJson(RInt(Cardinality(V))))
            ELSE IF ~ExplicitCullOK(St, V, e)
               THEN Verdict(FALSE, St, "cull: removed set violates expired-first / policy order / size-limit rule",
                            ToJson(Proj(St)))
            ELSE IF Proj(S2) # e.rows
               THEN Verdict(FALSE, St, "cull: surviving rows differ", ToJson(Proj(S2)))
            ELSE IF Counters(S2) # e.ctr
               THEN Verdict(FALSE, St, "counters differ", ToJson(Counters(S2)))
            ELSE Verdict(TRUE, S2, "", "")
    ELSE LET res == Dispatch(St, e)
             S1  == res.S
             V   == KeysOf(S1.rows) \ ObsKeys(e)
             S2  == [S1 EXCEPT !.rows = RemoveKeys(@, V)]
         IN IF res.ret.k # e.ret.k \/ res.ret.v # e.ret.v
               THEN Verdict(FALSE, St, "return value differs from the reference dictionary",
                            ToJson(res.ret))
            ELSE IF ~res.cull /\ V # {}
               THEN Verdict(FALSE, St, "items disappeared in a call that removes nothing of the kind",
                            ToJson(Proj(S1)))
            ELSE IF res.cull /\ ~LazyCullOK(S1, V, e)
               THEN Verdict(FALSE, St, "lazy cull: removed set violates expired-only / cull_limit / policy order / size-limit rule",
                            ToJson(Proj(S1)))
            ELSE IF Proj(S2) # e.rows
               THEN Verdict(FALSE, St, "contents differ from the reference dictionary", ToJson(Proj(S2)))
            ELSE IF Counters(S2) # e.ctr
               THEN Verdict(FALSE, St, "counters (count, size, hits, misses) differ", ToJson(Counters(S2)))
            ELSE Verdict(TRUE, S2, "", "")

TInit == /\ tid \in 1..NT
         /\ l = 1
         /\ S = InitState(Traces[tid].init)
         /\ done = (Len(Traces[tid].ev) = 0)
         /\ (Len(Traces[tid].ev) = 0) =>
               PrintT("VERDICT " \o ToJson([id |-> Traces[tid].id, ok |-> TRUE, n |-> 0]))

TNext == /\ ~done
         /\ LET ev == Traces[tid].ev
                r  == Step(S, ev[l])
            IN IF r.ok
               THEN /\ S' = r.S
                    /\ l' = l + 1
                    /\ done' = (l = Len(ev))
                    /\ (l = Len(ev)) =>
                          PrintT("VERDICT " \o ToJson([id |-> Traces[tid].id, ok |-> TRUE, n |-> l]))
               ELSE /\ PrintT("VERDICT " \o ToJson([id |-> Traces[tid].id, ok |-> FALSE, at |-> l,
                                                    op |-> ev[l].op, why |-> r.why, expected |-> r.exp]))
                    /\ done' = TRUE
                    /\ UNCHANGED <<l, S>>
         /\ UNCHANGED tid

TSpec == TInit /\ [][TNext]_tvars
=============================================================================
