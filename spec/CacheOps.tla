------------------------------ MODULE CacheOps ------------------------------
(***************************************************************************)
(* The reference dictionary of python-diskcache as PURE OPERATORS.         *)
(*                                                                         *)
(* One cache directory is a record                                         *)
(*   [rows, hits, misses, stats, policy, cull, limit]                      *)
(* where rows is the sequence of items in ascending row-id order.  SQLite  *)
(* gives a new row max(rowid)+1, so a new row is always last and replacing *)
(* a key keeps the position; only the ORDER is observable, so absolute     *)
(* row ids are not part of the state.                                      *)
(*                                                                         *)
(* Every public operation is an operator Op(S, args, now) that returns     *)
(* [S |-> state after the operation proper, ret |-> return value,          *)
(*  cull |-> TRUE iff the call continues with the lazy cull of writes].    *)
(* The lazy cull and cull() are RELATIONS (CullOK, CullCallOK): SQL leaves *)
(* the order of ties open and the decision depends on the page bytes of    *)
(* the database file, which is an input (env).                             *)
(*                                                                         *)
(* The same operators are used by                                          *)
(*   - CacheSeq.tla   (TLC explores all histories over a small alphabet),  *)
(*   - CacheSeqTrace.tla (TLC validates traces recorded from the code),    *)
(*   - Monitor.tla / CacheConc.tla (linearization points of concurrent     *)
(*     calls), Fanout.tla, Django.tla, DequeImpl.tla, IndexImpl.tla.       *)
(***************************************************************************)
EXTENDS Integers, Sequences, FiniteSets, TLC, SequencesExt, FiniteSetsExt

CONSTANTS QBase,      \* limb base of integer queue keys (10^7 for the code)
          QIntStart,  \* <<0, hi, lo>> : first integer queue key (500 trillion)
          QIntMax,    \* <<0, hi, lo>> : exclusive upper bound (999999999999999)
          QDigits,    \* digit sequence (char codes) of the first text queue number
          CullBatch   \* rows removed per round of cull() (10 in the code)

NoExp == -1000000      \* "no expiry" (JSON has no null in TLC's reader)
NoTag == 0
NoTtl == <<>>          \* ttl argument: <<>> = None, <<n>> = n ticks

(***************************************************************************)
(* Keys are sequences of integers.  <<0, hi, lo>> is the integer hi*QBase  *)
(* + lo, <<1, c1, ..., cn>> the text with code points c1..cn, <<2, i>> the *)
(* i-th pickled (composite) key in bytewise order of the pickles.  The     *)
(* lexicographic order of these sequences is SQLite's order of the key     *)
(* column: numeric < text < blob, numbers by value, text by code point.    *)
(***************************************************************************)
RECURSIVE SeqLT(_, _)
SeqLT(a, b) == IF a = <<>> THEN b # <<>>
               ELSE IF b = <<>> THEN FALSE
               ELSE IF a[1] # b[1] THEN a[1] < b[1]
               ELSE SeqLT(Tail(a), Tail(b))
KeyLT(a, b) == SeqLT(a, b)
KeyLE(a, b) == a = b \/ SeqLT(a, b)

Min2(a, b) == IF a < b THEN a ELSE b
Max2(a, b) == IF a > b THEN a ELSE b

(***************************************************************************)
(* Values are integers.  v < OpaqueBase: a number stored inline (incr      *)
(* works on it); OpaqueBase <= v: an opaque value (text, bytes, pickle),   *)
(* identified by id; its size argument says whether it lives in a file.    *)
(***************************************************************************)
OpaqueBase == 100000
IsNum(v) == v < OpaqueBase

\* The policy columns (store time, access time, access count) are kept only
\* as far as the configured policy looks at them: they are never compared
\* with the database, they only decide which victims are admissible.
Row(S, k, v, exp, tag, size, now) ==
    [key |-> k, val |-> v, exp |-> exp, tag |-> tag, size |-> size,
     st |-> IF S.policy = "lrs" THEN now ELSE 0,
     at |-> IF S.policy = "lru" THEN now ELSE 0, ac |-> 0]

ExpOf(ttl, now) == IF ttl = NoTtl THEN NoExp ELSE now + ttl[1]

\* visibility and physical removal: ONE definition each, used everywhere
Live(r, now)   == r.exp = NoExp \/ r.exp > now
Passed(r, now) == r.exp # NoExp /\ r.exp < now

Find(rows, k) == IF \E i \in DOMAIN rows : rows[i].key = k
                 THEN CHOOSE i \in DOMAIN rows : rows[i].key = k
                 ELSE 0

RemoveKeys(rows, K) == SelectSeq(rows, LAMBDA r : r.key \notin K)
KeysOf(rows) == {rows[i].key : i \in DOMAIN rows}
SizeSum(rows) == FoldSeq(LAMBDA r, acc : acc + r.size, 0, rows)

\* return values: [k |-> kind, v |-> payload]; payloads are only compared
\* when the kinds agree
R(kind, v) == [k |-> kind, v |-> v]
RTrue  == R("true", <<>>)
RFalse == R("false", <<>>)
RMiss  == R("miss", <<>>)
RNone  == R("none", <<>>)
RExc(name) == R(name, <<>>)
RInt(n) == R("int", <<n>>)

Res(S, ret, cull) == [S |-> S, ret |-> ret, cull |-> cull]

(***************************************************************************)
(* Writes                                                                  *)
(***************************************************************************)
\* set: replace in place or append; always followed by the lazy cull
Set(S, k, v, size, ttl, tag, now) ==
    LET i == Find(S.rows, k)
        r == Row(S, k, v, ExpOf(ttl, now), tag, size, now)
    IN Res([S EXCEPT !.rows = IF i = 0 THEN Append(@, r) ELSE [@ EXCEPT ![i] = r]],
           RTrue, TRUE)

\* add: refused (and nothing culled) when a live item is present
Add(S, k, v, size, ttl, tag, now) ==
    LET i == Find(S.rows, k)
    IN IF i # 0 /\ Live(S.rows[i], now)
       THEN Res(S, RFalse, FALSE)
       ELSE Set(S, k, v, size, ttl, tag, now)

\* touch: only a live item; only the expiry changes
Touch(S, k, ttl, now) ==
    LET i == Find(S.rows, k)
    IN IF i # 0 /\ Live(S.rows[i], now)
       THEN Res([S EXCEPT !.rows[i].exp = ExpOf(ttl, now)], RTrue, FALSE)
       ELSE Res(S, RFalse, FALSE)

\* incr/decr: dflt = <<>> (None: KeyError when missing) or <<n>>
Incr(S, k, delta, dflt, now) ==
    LET i == Find(S.rows, k)
    IN IF i = 0 \/ ~Live(S.rows[i], now)
       THEN IF dflt = <<>> THEN Res(S, RExc("KeyError"), FALSE)
            ELSE LET r == Row(S, k, dflt[1] + delta, NoExp, NoTag, 0, now)
                 IN Res([S EXCEPT !.rows = IF i = 0 THEN Append(@, r)
                                            ELSE [@ EXCEPT ![i] = r]],
                        RInt(dflt[1] + delta), TRUE)
       ELSE IF ~IsNum(S.rows[i].val) THEN Res(S, RExc("TypeError"), FALSE)
       ELSE LET old == S.rows[i]
                new == [old EXCEPT !.val = @ + delta,
                                   !.st = IF S.policy = "lrs" THEN now ELSE @,
                                   !.at = IF S.policy = "lru" THEN now ELSE @,
                                   !.ac = IF S.policy = "lfu" THEN @ + 1 ELSE @]
            IN Res([S EXCEPT !.rows[i] = new], RInt(old.val + delta), FALSE)

(***************************************************************************)
(* Lookups.  flags = <<wantExpire, wantTag>> (booleans)                    *)
(***************************************************************************)
Payload(r, flags) == <<r.val>> \o (IF flags[1] THEN <<r.exp>> ELSE <<>>)
                                \o (IF flags[2] THEN <<r.tag>> ELSE <<>>)

\* get / __getitem__ / read: statistics and policy columns are refreshed
\* missKind = "miss" for get, "KeyError" for the indexing and read forms
Get(S, k, flags, missKind, now) ==
    LET i == Find(S.rows, k)
    IN IF i # 0 /\ Live(S.rows[i], now)
       THEN LET old == S.rows[i]
                new == [old EXCEPT !.at = IF S.policy = "lru" THEN now ELSE @,
                                   !.ac = IF S.policy = "lfu" THEN @ + 1 ELSE @]
            IN Res([S EXCEPT !.rows[i] = new,
                             !.hits = IF S.stats THEN @ + 1 ELSE @],
                   R("val", Payload(old, flags)), FALSE)
       ELSE Res([S EXCEPT !.misses = IF S.stats THEN @ + 1 ELSE @],
                R(missKind, <<>>), FALSE)

Has(S, k, now) ==
    LET i == Find(S.rows, k)
    IN Res(S, IF i # 0 /\ Live(S.rows[i], now) THEN RTrue ELSE RFalse, FALSE)

Pop(S, k, flags, now) ==
    LET i == Find(S.rows, k)
    IN IF i # 0 /\ Live(S.rows[i], now)
       THEN Res([S EXCEPT !.rows = RemoveAt(@, i)],
                R("val", Payload(S.rows[i], flags)), FALSE)
       ELSE Res(S, RMiss, FALSE)

\* delete / del: an expired item is "missing" and stays where it is
Delete(S, k, missKind, now) ==
    LET i == Find(S.rows, k)
    IN IF i # 0 /\ Live(S.rows[i], now)
       THEN Res([S EXCEPT !.rows = RemoveAt(@, i)], RTrue, FALSE)
       ELSE Res(S, R(missKind, <<>>), FALSE)

(***************************************************************************)
(* Bulk removals (each page is its own transaction in the code; for one    *)
(* client the result is the whole set)                                     *)
(***************************************************************************)
Clear(S) == Res([S EXCEPT !.rows = <<>>], RInt(Len(S.rows)), FALSE)

Evict(S, tag) ==
    LET V == {S.rows[i].key : i \in {j \in DOMAIN S.rows :
                                tag # NoTag /\ S.rows[j].tag = tag}}
    IN Res([S EXCEPT !.rows = RemoveKeys(@, V)], RInt(Cardinality(V)), FALSE)

PassedKeys(rows, now) == {rows[i].key : i \in {j \in DOMAIN rows : Passed(rows[j], now)}}

Expire(S, now) ==
    LET V == PassedKeys(S.rows, now)
    IN Res([S EXCEPT !.rows = RemoveKeys(@, V)], RInt(Cardinality(V)), FALSE)

(***************************************************************************)
(* Size-based eviction.                                                    *)
(***************************************************************************)
PolicyKey(S, r) == CASE S.policy = "lrs" -> r.st
                     [] S.policy = "lru" -> r.at
                     [] S.policy = "lfu" -> r.ac
                     [] OTHER -> 0

\* V is a set of keys of rows; it is a minimal set w.r.t. measure m among rows
IsMinSet(V, rows, m(_)) ==
    \A i, j \in DOMAIN rows :
        (rows[i].key \in V /\ rows[j].key \notin V) => m(rows[i]) <= m(rows[j])

\* Lazy cull performed at the end of a write: V = set of keys removed.
\* volOK(rowsAfterExpiredRemoval) tells whether the size limit is reached.
CullOK(S, V, now, VolReached(_)) ==
    IF S.cull = 0 THEN V = {}
    ELSE LET E  == PassedKeys(S.rows, now)
             nE == Min2(Cardinality(E), S.cull)
             VE == V \cap E
             VP == V \ E
             rows1 == RemoveKeys(S.rows, VE)
             c2 == S.cull - nE
         IN /\ V \subseteq KeysOf(S.rows)
            /\ Cardinality(VE) = nE
            /\ IsMinSet(VE, SelectSeq(S.rows, LAMBDA r : r.key \in E), LAMBDA r : r.exp)
            /\ IF c2 = 0 \/ S.policy = "none" \/ ~VolReached(rows1)
               THEN VP = {}
               ELSE /\ Cardinality(VP) = Min2(c2, Len(rows1))
                    /\ IsMinSet(VP, rows1, LAMBDA r : PolicyKey(S, r))

\* explicit cull(): V = keys removed, ret = count.
\*   VolFirst(rows): size limit exceeded (strictly) at the first look
\*   VolLast(rows) : still exceeded at the last look
\*   MaxPage       : an upper bound of the page bytes seen during the call
SumSizesOf(rows, K) == SizeSum(SelectSeq(rows, LAMBDA r : r.key \in K))
\* the b largest sizes among the rows with key in K (upper bound of any batch)
RECURSIVE TopSizes(_, _)
TopSizes(szs, b) == IF b = 0 \/ szs = <<>> THEN 0
                    ELSE LET m == CHOOSE i \in DOMAIN szs : \A j \in DOMAIN szs : szs[i] >= szs[j]
                         IN szs[m] + TopSizes(RemoveAt(szs, m), b - 1)

CullCallOK(S, V, now, VolFirst(_), VolLast(_), maxPage) ==
    LET E  == PassedKeys(S.rows, now)
        VP == V \ E
        rows1 == RemoveKeys(S.rows, E)
        rows2 == RemoveKeys(S.rows, V)
        n  == Cardinality(VP)
        lastBatch == IF n = 0 THEN 0 ELSE ((n - 1) % CullBatch) + 1
        szs == [i \in 1..Len(SelectSeq(rows1, LAMBDA r : r.key \in VP)) |->
                    SelectSeq(rows1, LAMBDA r : r.key \in VP)[i].size]
    IN /\ V \subseteq KeysOf(S.rows)
       /\ E \subseteq V                              \* expired items go first, all of them
       /\ IF S.policy = "none" \/ ~VolFirst(rows1)
          THEN VP = {}                               \* nothing goes early
          ELSE /\ IsMinSet(VP, rows1, LAMBDA r : PolicyKey(S, r))
               /\ rows2 = <<>> \/ ~VolLast(rows2)    \* continues until small enough or empty
               /\ n > 0
               \* stops as soon as it is small enough: before the last batch
               \* the limit was still exceeded (necessary condition, sound)
               /\ maxPage + SizeSum(rows2) + TopSizes(szs, lastBatch) > S.limit

(***************************************************************************)
(* Queues: push / pull / peek over a key range per prefix                  *)
(* prefix = <<>> : integer keys; otherwise the code points of the prefix.  *)
(***************************************************************************)
IsDigit(c) == c \in 48..57
\* prefix argument: <<>> = None (integer keys); <<-1>> = the empty text '' ; otherwise the code points of the prefix
EmptyP == <<-1>>
TextP(P0) == IF P0 = EmptyP THEN <<>> ELSE P0
InQueue(P0, key) ==
    LET P == TextP(P0) IN
    IF P0 = <<>>
    THEN /\ key[1] = 0
         /\ SeqLT(<<0, 0, 0>>, key) /\ SeqLT(key, QIntMax)
    ELSE /\ key[1] = 1
         /\ Len(key) = 1 + Len(P) + 1 + Len(QDigits)
         /\ SubSeq(key, 2, Len(P) + 2) = P \o <<45>>
         /\ \A i \in (Len(P) + 3)..Len(key) : IsDigit(key[i])
         \* the bounds prefix-000..0 and prefix-999..9 themselves are outside
         /\ \E i \in (Len(P) + 3)..Len(key) : key[i] # 48
         /\ \E i \in (Len(P) + 3)..Len(key) : key[i] # 57

RECURSIVE IncDigits(_), DecDigits(_)
IncDigits(d) == IF d = <<>> THEN <<49>>
                ELSE IF Last(d) = 57 THEN IncDigits(Front(d)) \o <<48>>
                ELSE Front(d) \o <<Last(d) + 1>>
DecDigits(d) == IF d = <<>> THEN <<>>
                ELSE IF Last(d) = 48 THEN DecDigits(Front(d)) \o <<57>>
                ELSE Front(d) \o <<Last(d) - 1>>

NextKey(P0, key, back) ==
    LET P == TextP(P0) IN
    IF P0 = <<>>
    THEN IF back THEN (IF key[3] + 1 = QBase THEN <<0, key[2] + 1, 0>> ELSE <<0, key[2], key[3] + 1>>)
                 ELSE (IF key[3] = 0 THEN <<0, key[2] - 1, QBase - 1>> ELSE <<0, key[2], key[3] - 1>>)
    ELSE LET d == SubSeq(key, Len(P) + 3, Len(key))
         IN <<1>> \o P \o <<45>> \o (IF back THEN IncDigits(d) ELSE DecDigits(d))

FirstKey(P0) == IF P0 = <<>> THEN QIntStart ELSE <<1>> \o TextP(P0) \o <<45>> \o QDigits

QueueIdx(rows, P) == {i \in DOMAIN rows : InQueue(P, rows[i].key)}
\* index of the extreme row of queue P: back = largest key
Extreme(rows, P, back) ==
    LET Q == QueueIdx(rows, P)
    IN IF Q = {} THEN 0
       ELSE CHOOSE i \in Q : \A j \in Q :
                IF back THEN KeyLE(rows[j].key, rows[i].key)
                        ELSE KeyLE(rows[i].key, rows[j].key)

Push(S, v, size, P, back, ttl, tag, now) ==
    LET e == Extreme(S.rows, P, back)
        k == IF e = 0 THEN FirstKey(P) ELSE NextKey(P, S.rows[e].key, back)
    IN IF Find(S.rows, k) # 0
       THEN Res(S, RExc("IntegrityError"), FALSE)   \* cannot happen when InQueue is exact
       ELSE Res([S EXCEPT !.rows = Append(@, Row(S, k, v, ExpOf(ttl, now), tag, size, now))],
                R("key", k), TRUE)

\* pull removes expired heads and then the first live head, which it returns;
\* peek removes only the expired heads
RECURSIVE DropDead(_, _, _, _)
DropDead(rows, P, back, now) ==
    LET e == Extreme(rows, P, back)
    IN IF e = 0 \/ Live(rows[e], now) THEN rows
       ELSE DropDead(RemoveAt(rows, e), P, back, now)

Pull(S, P, back, flags, now) ==
    LET rows1 == DropDead(S.rows, P, back, now)
        e == Extreme(rows1, P, back)
    IN IF e = 0 THEN Res([S EXCEPT !.rows = rows1], RMiss, FALSE)
       ELSE Res([S EXCEPT !.rows = RemoveAt(rows1, e)],
                R("item", <<rows1[e].key>> \o Payload(rows1[e], flags)), FALSE)

Peek(S, P, back, flags, now) ==
    LET rows1 == DropDead(S.rows, P, back, now)
        e == Extreme(rows1, P, back)
    IN IF e = 0 THEN Res([S EXCEPT !.rows = rows1], RMiss, FALSE)
       ELSE Res([S EXCEPT !.rows = rows1],
                R("item", <<rows1[e].key>> \o Payload(rows1[e], flags)), FALSE)

\* peekitem: by insertion order; removes expired ends; KeyError when empty
RECURSIVE DropDeadEnd(_, _, _)
DropDeadEnd(rows, last, now) ==
    IF rows = <<>> THEN rows
    ELSE LET e == IF last THEN Len(rows) ELSE 1
         IN IF Live(rows[e], now) THEN rows ELSE DropDeadEnd(RemoveAt(rows, e), last, now)

PeekItem(S, last, flags, now) ==
    LET rows1 == DropDeadEnd(S.rows, last, now)
    IN IF rows1 = <<>> THEN Res([S EXCEPT !.rows = rows1], RExc("KeyError"), FALSE)
       ELSE LET e == IF last THEN Len(rows1) ELSE 1
            IN Res([S EXCEPT !.rows = rows1],
                   R("item", <<rows1[e].key>> \o Payload(rows1[e], flags)), FALSE)

(***************************************************************************)
(* Observers                                                               *)
(***************************************************************************)
Length(S) == Res(S, RInt(Len(S.rows)), FALSE)

KeySeq(rows) == [i \in DOMAIN rows |-> rows[i].key]
Iter(S, reverse) ==
    Res(S, R("keys", IF reverse THEN Reverse(KeySeq(S.rows)) ELSE KeySeq(S.rows)), FALSE)
IterKeys(S, reverse) ==
    LET sorted == SortSeq(KeySeq(S.rows), KeyLT)
    IN Res(S, R("keys", IF reverse THEN Reverse(sorted) ELSE sorted), FALSE)

\* stats(enable, reset) returns the counters as they were
Stats(S, enable, reset) ==
    Res([S EXCEPT !.stats = enable,
                  !.hits = IF reset THEN 0 ELSE @,
                  !.misses = IF reset THEN 0 ELSE @],
        R("pair", <<S.hits, S.misses>>), FALSE)

(***************************************************************************)
(* Projection compared with the real cache after every call                *)
(***************************************************************************)
ProjRow(r) == <<r.key, r.val, r.exp, r.tag, r.size>>
Proj(S) == [i \in DOMAIN S.rows |-> ProjRow(S.rows[i])]
Counters(S) == <<Len(S.rows), SizeSum(S.rows), S.hits, S.misses>>

EmptyCache(policy, cull, limit, stats) ==
    [rows |-> <<>>, hits |-> 0, misses |-> 0, stats |-> stats,
     policy |-> policy, cull |-> cull, limit |-> limit]
=============================================================================
