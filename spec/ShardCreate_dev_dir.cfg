\* ShardCreate: must fail NeverUndivided (C13-r5m1)
SPECIFICATION Spec
CONSTANTS
  N = 3
  Dev = {"D_test_dir"}
INVARIANT TypeOK
INVARIANT NeverUndivided
INVARIANT ExplicitApplied
INVARIANT AllOpened
PROPERTY StoredSurvives
