------------------------------- MODULE MCConc -------------------------------
(* Programs and constants for the exhaustive runs of CacheConc *)
EXTENDS CacheConc
K1 == "k"
O(op, v, retry) == [op |-> op, k |-> K1, v |-> v, retry |-> retry]
Alpha == {O("set", 2, FALSE), O("set", 12, FALSE), O("set", 13, TRUE), O("add", 3, FALSE), O("add", 14, FALSE),
          O("incr", 0, FALSE), O("incr", 0, TRUE), O("get", 0, FALSE), O("contains", 0, FALSE), O("pop", 0, FALSE),
          O("delete", 0, FALSE), O("delete", 0, TRUE)}
TX(op) == [op |-> op, k |-> K1, v |-> 0, retry |-> TRUE]
mc_Clients2 == {1, 2}
mc_Clients3 == {1, 2, 3}
\* all pairs of single calls
mc_ProgPairs == [mc_Clients2 -> {<<o>> : o \in Alpha}]
\* three clients, one call each, from a smaller alphabet
Alpha3 == {O("set", 12, FALSE), O("add", 3, FALSE), O("incr", 0, TRUE), O("get", 0, FALSE), O("pop", 0, FALSE), O("delete", 0, FALSE)}
mc_ProgTriples == [mc_Clients3 -> {<<o>> : o \in Alpha3}]
\* two calls against one call
mc_ProgSeq == {[c \in mc_Clients2 |-> IF c = 1 THEN <<a, b>> ELSE <<d>>] : a \in Alpha3, b \in Alpha3, d \in Alpha3}
\* transaction blocks (bodies of one or two calls, committed or raised, nested) against one concurrent call
Body == {<<O("set", 2, FALSE)>>, <<O("set", 12, FALSE)>>, <<O("incr", 0, FALSE), O("get", 0, FALSE)>>, <<O("pop", 0, FALSE)>>,
         <<O("delete", 0, FALSE), O("add", 14, FALSE)>>, <<O("set", 13, FALSE), O("pop", 0, FALSE)>>,
         <<TX("txbegin"), O("set", 12, FALSE), TX("txend")>>}
mc_ProgTx == {[c \in mc_Clients2 |-> IF c = 1 THEN <<TX("txbegin")>> \o b \o <<TX(e)>> \o <<O("get", 0, FALSE)>> ELSE <<d>>]
                 : b \in Body, e \in {"txend", "txraise"}, d \in Alpha3 \cup {O("set", 2, TRUE)}}
\* an independent lock holder (an empty block) against every call: timeouts and retries
mc_ProgLock == {[c \in mc_Clients2 |-> IF c = 1 THEN <<TX("txbegin"), TX("txend")>> ELSE <<d, O("get", 0, FALSE)>>] : d \in Alpha}
mc_Keys == {K1}
mc_InitRows == {[k \in {K1} |-> None], [k \in {K1} |-> [v |-> 1, f |-> 0]], [k \in {K1} |-> [v |-> 11, f |-> 1]]}
mc_Init_absent == {[k \in {K1} |-> None]}
mc_Init_inline == {[k \in {K1} |-> [v |-> 1, f |-> 0]]}
mc_Init_file == {[k \in {K1} |-> [v |-> 11, f |-> 1]]}
mc_NoDev == {}
mc_Kill1 == {1}
mc_KillAll == {1, 2}
mc_NoKill == {}
mc_DevRemove == {"D_remove_before_commit"}
mc_DevSelect == {"D_select_before_begin"}
mc_DevTimeout == {"D_no_timeout_cleanup"}
mc_DevInner == {"D_inner_cleanup"}
mc_DevLeak == {"D_abort_leak"}
=============================================================================
