\* MUST FAIL (one-pass pruning of emptied directories): every directory state with <= 2 rows, 3 file ids, sizes {1,2}, files at the top level or in two nested directories, stray empty directories, counters off
SPECIFICATION Spec
CONSTANTS
  MaxRows = 2
  Fids = {1, 2}
  Sizes = {1, 2}
INVARIANT OnePassConverges
CHECK_DEADLOCK FALSE
