---- MODULE MCFanout ----
EXTENDS FanoutSeq
mc_QIntStart == <<0, 5, 0>>
mc_QIntMax   == <<0, 9, 9>>
mc_QDigits   == <<53, 48>>
mc_FKeys == {<<0, 0, 1>>, <<1, 97>>}
mc_FKeys3 == {<<0, 0, 1>>, <<0, 0, 2>>, <<1, 97>>}
mc_NoDev == {}
mc_Skip == {"D_skip_last_shard"}
====
