----------------------------- MODULE FixtureTrace -----------------------------
(* C18 format stability: what the current tree reads from the committed reference directory
   (written by the released version) must be what was recorded.  A golden-file comparison
   expressed as a trace: each event names an object of the fixture, the recorded and the observed digest. *)
EXTENDS Integers, Sequences, TLC, Json, IOUtils, TLCExt
Doc == JsonDeserialize(IOEnv.TRACE_FILE)
Traces == Doc.traces
NT == Len(Traces)
VARIABLES tid, l, done
FInit == tid \in 1..NT /\ l = 1 /\ done = FALSE
FNext == /\ ~done
         /\ LET t == Traces[tid]
                e == t.ev[l]
            IN IF e.exp = e.obs
               THEN /\ l' = l + 1 /\ done' = (l = Len(t.ev))
                    /\ (l = Len(t.ev)) => PrintT("VERDICT " \o ToJson([id |-> t.id, ok |-> TRUE, n |-> l]))
               ELSE /\ PrintT("VERDICT " \o ToJson([id |-> t.id, ok |-> FALSE, at |-> l,
                              why |-> "C18 the released-format reference directory is not read back as recorded: " \o e.what
                                      \o " recorded " \o e.exp \o " observed " \o e.obs]))
                    /\ done' = TRUE /\ UNCHANGED l
         /\ UNCHANGED tid
FSpec == FInit /\ [][FNext]_<<tid, l, done>>
=============================================================================
