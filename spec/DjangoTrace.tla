----------------------------- MODULE DjangoTrace -----------------------------
(***************************************************************************)
(* C19: the Django cache-backend contract on top of the reference          *)
(* dictionary.  Keys are namespaced  prefix:version:key ; a timeout of     *)
(* None means forever, zero or negative already expired, DEFAULT the       *)
(* backend's TIMEOUT.  Only RETURN VALUES are compared (the contract is    *)
(* about them); the state is the CacheOps state over the made keys, with   *)
(* no lazy cull and no eviction (removing expired items is invisible       *)
(* through this API).  The same plans are run through Django's own         *)
(* LocMemCache, which validates this reading of the contract.              *)
(***************************************************************************)
EXTENDS DjangoOps, Json, IOUtils, TLCExt
tr_NoDjDev == {}
tr_QIntStart == <<0, 50000000, 0>>
tr_QIntMax   == <<0, 99999999, 9999999>>
tr_QDigits   == <<53, 48, 48, 48, 48, 48, 48, 48, 48, 48, 48, 48, 48, 48, 48>>
Doc == JsonDeserialize(IOEnv.TRACE_FILE)
Traces == Doc.traces
NT == Len(Traces)
VARIABLES tid, l, S, done
dvars == <<tid, l, S, done>>

DInit == tid \in 1..NT /\ l = 1 /\ S = EmptyCache("none", 0, 1000000000, FALSE) /\ done = FALSE
DNext == /\ ~done
         /\ LET t == Traces[tid]
                e == t.ev[l]
                r == Op(t, S, e)
            IN IF ~r.judged \/ (r.ret.k = e.ret.k /\ r.ret.v = e.ret.v)
               THEN /\ S' = r.S /\ l' = l + 1 /\ done' = (l = Len(t.ev))
                    /\ (l = Len(t.ev)) => PrintT("VERDICT " \o ToJson([id |-> t.id, ok |-> TRUE, n |-> l]))
               ELSE /\ PrintT("VERDICT " \o ToJson([id |-> t.id, ok |-> FALSE, at |-> l, op |-> e.op,
                                 why |-> e.op \o " returned " \o ToJson(e.ret) \o "; the contract says " \o ToJson(r.ret)]))
                    /\ done' = TRUE /\ UNCHANGED <<l, S>>
         /\ UNCHANGED tid
DSpec == DInit /\ [][DNext]_dvars
=============================================================================
