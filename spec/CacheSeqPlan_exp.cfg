SPECIFICATION PSpec
CONSTANTS
  QBase = 10
  QIntStart <- mc_QIntStart
  QIntMax <- mc_QIntMax
  QDigits <- mc_QDigits
  CullBatch = 2
  Keys <- mc_Keys2
  Vals = {1}
  FileVals = {}
  Tags = {1}
  Ttls <- mc_TtlsCore
  QPrefixes <- mc_PrefQ2
  MaxNow = 2
  Policies = {"none"}
  CullLimits = {0, 1}
  Limits = {4}
  MaxRows = 3
  MaxCtr = 2
  Ops <- mc_ExpOps
  PlanDepth = 30
  PlanSample = 300
CONSTRAINT PlanOut
VIEW PlanView
CHECK_DEADLOCK FALSE
