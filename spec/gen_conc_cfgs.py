#!/usr/bin/env python3
"""MCConc_*.cfg: exhaustive configs of the design model, and one config per deviation that MUST fail."""
BASE = '''\\* {comment}
SPECIFICATION {spec}
CONSTANTS
  Clients <- {clients}
  Programs <- {programs}
  Keys <- mc_Keys
  MaxFiles = {maxfiles}
  Dev <- {dev}
  KillAllowed <- {kill}
  InitRows <- mc_InitRows
INVARIANT TypeOK
INVARIANT CommittedRefsComplete
INVARIANT AbsAgree
INVARIANT ReturnsLinearizable
INVARIANT DeadLeavesNoLock
INVARIANT QuiescentAgreement
CHECK_DEADLOCK FALSE
'''
def cfg(name, comment, **kw):
    d = dict(spec='Spec', clients='mc_Clients2', programs='mc_ProgPairs', maxfiles=4, dev='mc_NoDev', kill='mc_NoKill')
    d.update(kw)
    open('MCConc_%s.cfg' % name, 'w').write(BASE.format(comment=comment, **d))
cfg('pairs', 'C05: all pairs of single calls (12-operation alphabet) x 3 initial contents, all interleavings')
cfg('pairs_kill', 'C07: the same with a kill of either client at every step', kill='mc_KillAll')
cfg('triples', 'C05: three clients, one call each', clients='mc_Clients3', programs='mc_ProgTriples', maxfiles=5)
cfg('seq', 'C05: two calls against one call', programs='mc_ProgSeq', maxfiles=5)
cfg('tx', 'C06: transaction blocks (commit / raise / nested) against one concurrent call', programs='mc_ProgTx', maxfiles=5)
cfg('tx_kill', 'C06/C07: the same with a kill of the block owner at every step', programs='mc_ProgTx', maxfiles=5, kill='mc_Kill1')
cfg('lock', 'C14: an independent lock holder against every call, with and without retry', programs='mc_ProgLock', maxfiles=4)
cfg('dev_remove', 'MUST FAIL (CommittedRefsComplete): value file removed before the commit', spec='SpecDev', dev='mc_DevRemove', kill='mc_KillAll')
cfg('dev_select', 'MUST FAIL (AbsAgree / ReturnsLinearizable): SELECT before BEGIN in pop and add', dev='mc_DevSelect')
cfg('dev_timeout', 'MUST FAIL (QuiescentAgreement): file not removed on lock timeout', programs='mc_ProgLock', dev='mc_DevTimeout')
cfg('dev_inner', 'MUST FAIL (CommittedRefsComplete): released behaviour, files removed at inner call exit inside a block (known finding)', programs='mc_ProgTx', maxfiles=5, dev='mc_DevInner')
cfg('dev_leak', 'MUST FAIL (QuiescentAgreement): released behaviour, files written in an aborted block are left (known finding)', programs='mc_ProgTx', maxfiles=5, dev='mc_DevLeak')
