---------------------------- MODULE CacheSeqPlan ----------------------------
(***************************************************************************)
(* Plan generation: behaviours of CacheSeq with a history variable.  Run   *)
(* with `tlc -simulate`; every behaviour that reaches PlanDepth steps is   *)
(* printed as one JSON line ("PLAN [...]"): the initial configuration and  *)
(* the sequence of (operation, arguments) labels.  The driver replays the  *)
(* labels on the real cache; TLC's own expected states are NOT used - the  *)
(* recorded trace is validated separately by CacheSeqTrace.                *)
(***************************************************************************)
EXTENDS MCSeq, Json

CONSTANTS PlanDepth, PlanSample
VARIABLE hist
pvars == <<S, now, last, hist>>

PInit == Init /\ hist = <<[op |-> "init", args |-> <<S.policy, S.cull, S.limit, IF S.stats THEN 1 ELSE 0>>]>>
PNext == Next /\ hist' = Append(hist, [op |-> last'.op, args |-> last'.args])
PSpec == PInit /\ [][PNext]_pvars

\* BFS with VIEW <<S, now>>: every distinct abstract state keeps the history of
\* its first (shortest) discovery, and the constraint below is evaluated on
\* every generated successor, i.e. once per TRANSITION of the state graph:
\* the printed plans are an edge cover of the reachable graph (PlanSample = 1)
\* or a uniform sample of its edges (one in PlanSample).
PlanView == <<S, now>>
PlanOut == /\ Bounded
           /\ Len(hist) <= PlanDepth + 1
           /\ (RandomElement(1..PlanSample) = 1) => PrintT("PLAN " \o ToJson(hist))
=============================================================================
