----------------------------- MODULE FanoutRemove -----------------------------
(***************************************************************************)
(* C13/C14 design level: an aggregate removal of a FanoutCache (clear,     *)
(* expire, evict, cull) while other clients hold shard locks for a while.  *)
(* Each shard removes page by page (one transaction per page); a page that *)
(* cannot get the lock ends that shard call with Timeout(count so far);    *)
(* FanoutCache._remove adds that count and calls the shard again until it  *)
(* completes, then goes to the next shard.                                 *)
(*   CountsEverything : when the call returns, its result is the number of *)
(*                      items removed from all shards                      *)
(*   EveryShardOnce   : every shard has been emptied                       *)
(*   Terminates       : if lock holders let go eventually, the call ends   *)
(* Deviation D_overwrite_total: the count carried by a Timeout replaces    *)
(* the running total.                                                      *)
(***************************************************************************)
EXTENDS Integers, Sequences, FiniteSets, TLC
CONSTANTS NShards, Items, Page, MaxHolds, Dev
Shards == 1..NShards
VARIABLES left, held, holds, cur, part, total, removed, pc
vars == <<left, held, holds, cur, part, total, removed, pc>>
\* left[s] : items still in shard s;  held[s] : another client holds its lock;  cur : shard being worked on;
\* part : count of the running shard call;  removed : ghost, items actually removed

Init == /\ left \in [Shards -> 0..Items] /\ held = [s \in Shards |-> FALSE] /\ holds = 0
        /\ cur = 1 /\ part = 0 /\ total = 0 /\ removed = 0 /\ pc = "page"

Grab(s) == /\ ~held[s] /\ holds < MaxHolds /\ pc # "done"
           /\ held' = [held EXCEPT ![s] = TRUE] /\ holds' = holds + 1
           /\ UNCHANGED <<left, cur, part, total, removed, pc>>
Release(s) == /\ held[s] /\ held' = [held EXCEPT ![s] = FALSE] /\ UNCHANGED <<left, holds, cur, part, total, removed, pc>>

\* one page of the running shard call
PageStep ==
    /\ pc = "page" /\ cur <= NShards
    /\ IF held[cur]
       THEN \* Timeout(part): _remove adds it and calls the shard again
            /\ total' = IF "D_overwrite_total" \in Dev THEN part ELSE total + part
            /\ part' = 0 /\ UNCHANGED <<left, cur, removed, pc>>
       ELSE IF left[cur] = 0
       THEN \* the shard call returns its count
            /\ total' = total + part /\ part' = 0 /\ cur' = cur + 1
            /\ pc' = IF cur = NShards THEN "done" ELSE "page"
            /\ UNCHANGED <<left, removed>>
       ELSE LET n == IF left[cur] < Page THEN left[cur] ELSE Page IN
            /\ left' = [left EXCEPT ![cur] = @ - n] /\ part' = part + n /\ removed' = removed + n
            /\ UNCHANGED <<cur, total, pc>>
    /\ UNCHANGED <<held, holds>>

Next == PageStep \/ \E s \in Shards : Grab(s) \/ Release(s)
Spec == Init /\ [][Next]_vars /\ WF_vars(PageStep) /\ \A s \in Shards : WF_vars(Release(s))

CountsEverything == pc = "done" => total = removed
EveryShardOnce == pc = "done" => \A s \in Shards : left[s] = 0
Terminates == <>(pc = "done")
=============================================================================
