------------------------------ MODULE DequeOps ------------------------------
(***************************************************************************)
(* collections.deque as pure operators: the reference for diskcache.Deque  *)
(* (C11).  State: [items : Seq(Int), maxlen : Int]  (maxlen = -1: None).   *)
(* Every operator returns [D |-> new state, ret |-> [k, v]].               *)
(* The same operators are driven through Python's collections.deque by the *)
(* harness (cross-check of this module against the standard library).      *)
(***************************************************************************)
EXTENDS Integers, Sequences, FiniteSets, TLC, SequencesExt

NoMax == -1
DR(kind, v) == [k |-> kind, v |-> v]
DRes(D, ret) == [D |-> D, ret |-> ret]
DNone == DR("none", <<>>)
DExc(name) == DR(name, <<>>)

TrimLeft(D)  == IF D.maxlen # NoMax /\ Len(D.items) > D.maxlen
                THEN [D EXCEPT !.items = SubSeq(@, Len(@) - D.maxlen + 1, Len(@))] ELSE D
TrimRight(D) == IF D.maxlen # NoMax /\ Len(D.items) > D.maxlen
                THEN [D EXCEPT !.items = SubSeq(@, 1, D.maxlen)] ELSE D

DAppend(D, v)     == DRes(TrimLeft([D EXCEPT !.items = Append(@, v)]), DNone)
DAppendLeft(D, v) == DRes(TrimRight([D EXCEPT !.items = <<v>> \o @]), DNone)

RECURSIVE DExtend(_, _), DExtendLeft(_, _)
DExtend(D, vs)     == IF vs = <<>> THEN DRes(D, DNone) ELSE DExtend(DAppend(D, Head(vs)).D, Tail(vs))
DExtendLeft(D, vs) == IF vs = <<>> THEN DRes(D, DNone) ELSE DExtendLeft(DAppendLeft(D, Head(vs)).D, Tail(vs))

DPop(D) == IF D.items = <<>> THEN DRes(D, DExc("IndexError"))
           ELSE DRes([D EXCEPT !.items = Front(@)], DR("val", <<Last(D.items)>>))
DPopLeft(D) == IF D.items = <<>> THEN DRes(D, DExc("IndexError"))
               ELSE DRes([D EXCEPT !.items = Tail(@)], DR("val", <<Head(D.items)>>))
DPeek(D) == IF D.items = <<>> THEN DRes(D, DExc("IndexError")) ELSE DRes(D, DR("val", <<Last(D.items)>>))
DPeekLeft(D) == IF D.items = <<>> THEN DRes(D, DExc("IndexError")) ELSE DRes(D, DR("val", <<Head(D.items)>>))

\* Python index -> position 1..Len, or 0 when out of range
Pos(D, i) == LET n == Len(D.items) IN
             IF i >= 0 THEN (IF i < n THEN i + 1 ELSE 0) ELSE (IF -i <= n THEN n + i + 1 ELSE 0)

DGetItem(D, i) == IF Pos(D, i) = 0 THEN DRes(D, DExc("IndexError"))
                  ELSE DRes(D, DR("val", <<D.items[Pos(D, i)]>>))
DSetItem(D, i, v) == IF Pos(D, i) = 0 THEN DRes(D, DExc("IndexError"))
                     ELSE DRes([D EXCEPT !.items[Pos(D, i)] = v], DNone)
DDelItem(D, i) == IF Pos(D, i) = 0 THEN DRes(D, DExc("IndexError"))
                  ELSE DRes([D EXCEPT !.items = RemoveAt(@, Pos(D, i))], DNone)

\* rotate(n): right for positive n
DRotate(D, n) ==
    LET len == Len(D.items) IN
    IF len = 0 THEN DRes(D, DNone)
    ELSE LET k == n % len       \* 0..len-1 (TLA+ modulus is non-negative for positive divisor)
         IN DRes([D EXCEPT !.items = SubSeq(@, len - k + 1, len) \o SubSeq(@, 1, len - k)], DNone)

DReverse(D) == DRes([D EXCEPT !.items = Reverse(@)], DNone)

DRemove(D, v) == IF \E i \in DOMAIN D.items : D.items[i] = v
                 THEN LET i == CHOOSE j \in DOMAIN D.items :
                                  D.items[j] = v /\ \A m \in 1..(j - 1) : D.items[m] # v
                      IN DRes([D EXCEPT !.items = RemoveAt(@, i)], DNone)
                 ELSE DRes(D, DExc("ValueError"))

DCount(D, v) == DRes(D, DR("int", <<Cardinality({i \in DOMAIN D.items : D.items[i] = v})>>))
DClear(D) == DRes([D EXCEPT !.items = <<>>], DNone)
DLen(D) == DRes(D, DR("int", <<Len(D.items)>>))
DIter(D, rev) == DRes(D, DR("vals", IF rev THEN Reverse(D.items) ELSE D.items))

\* comparison with a sequence: lexicographic, as Python sequences compare
RECURSIVE SeqCmp(_, _)
SeqCmp(a, b) == IF a = <<>> /\ b = <<>> THEN 0
                ELSE IF a = <<>> THEN -1 ELSE IF b = <<>> THEN 1
                ELSE IF a[1] < b[1] THEN -1 ELSE IF a[1] > b[1] THEN 1
                ELSE SeqCmp(Tail(a), Tail(b))
DCompare(D, rel, other) ==
    LET c == SeqCmp(D.items, other)
        b == CASE rel = "eq" -> c = 0 [] rel = "ne" -> c # 0 [] rel = "lt" -> c < 0
               [] rel = "le" -> c <= 0 [] rel = "gt" -> c > 0 [] rel = "ge" -> c >= 0
    IN DRes(D, DR(IF b THEN "true" ELSE "false", <<>>))

\* diskcache extension: assigning maxlen trims from the left
DSetMaxlen(D, m) == DRes(TrimLeft([D EXCEPT !.maxlen = m]), DNone)

\* reopen / copy / unpickle: the same sequence, the maxlen given to the new handle
DReopen(D, m) == DRes([D EXCEPT !.maxlen = m], DNone)

DDispatch(D, e) ==
    CASE e.op = "append"     -> DAppend(D, e.a.v)
      [] e.op = "appendleft" -> DAppendLeft(D, e.a.v)
      [] e.op = "extend"     -> DExtend(D, e.a.vs)
      [] e.op = "extendleft" -> DExtendLeft(D, e.a.vs)
      [] e.op = "pop"        -> DPop(D)
      [] e.op = "popleft"    -> DPopLeft(D)
      [] e.op = "peek"       -> DPeek(D)
      [] e.op = "peekleft"   -> DPeekLeft(D)
      [] e.op = "getitem"    -> DGetItem(D, e.a.i)
      [] e.op = "setitem"    -> DSetItem(D, e.a.i, e.a.v)
      [] e.op = "delitem"    -> DDelItem(D, e.a.i)
      [] e.op = "rotate"     -> DRotate(D, e.a.n)
      [] e.op = "reverse"    -> DReverse(D)
      [] e.op = "remove"     -> DRemove(D, e.a.v)
      [] e.op = "count"      -> DCount(D, e.a.v)
      [] e.op = "clear"      -> DClear(D)
      [] e.op = "len"        -> DLen(D)
      [] e.op = "iter"       -> DIter(D, e.a.rev = 1)
      [] e.op = "compare"    -> DCompare(D, e.a.rel, e.a.other)
      [] e.op = "setmaxlen"  -> DSetMaxlen(D, e.a.m)
      [] e.op = "reopen"     -> DReopen(D, e.a.m)
      [] e.op = "copy"       -> DReopen(D, D.maxlen)
      [] e.op = "pickle"     -> DReopen(D, D.maxlen)
      [] OTHER               -> DRes(D, DR("unknown-op", <<>>))
=============================================================================
