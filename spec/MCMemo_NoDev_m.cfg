SPECIFICATION Spec
CONSTANTS
  Dev <- mc_NoDev
  Vals <- mc_Vals
  Names <- mc_Names
  MaxPos = 2
INVARIANT Inv
