SPECIFICATION KSpec
CONSTANTS
  Dev <- tr_Dev
CHECK_DEADLOCK FALSE
