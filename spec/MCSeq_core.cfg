\* C03 core dictionary: 2 keys, number + file value, tag, ttl in {None,0,1,-1}, clock 0..2, policy none
SPECIFICATION Spec
CONSTANTS
  QBase = 10
  QIntStart <- mc_QIntStart
  QIntMax <- mc_QIntMax
  QDigits <- mc_QDigits
  CullBatch = 2
  Keys <- mc_Keys2
  Vals = {1, 100012}
  FileVals = {100012}
  Tags = {1}
  Ttls <- mc_TtlsCore
  QPrefixes <- mc_PrefNone
  MaxNow = 2
  Policies = {"none"}
  CullLimits = {1}
  Limits = {5}
  MaxRows = 2
  MaxCtr = 2
  Ops <- mc_CoreOps
CONSTRAINT Bounded
VIEW View
CHECK_DEADLOCK FALSE
INVARIANT UniqueKeys
INVARIANT ExpiredInvisible
INVARIANT LiveVisible
PROPERTY NoSpuriousRemoval
PROPERTY ExplicitRemovalExact
PROPERTY NoExpiryNeverExpires
PROPERTY ExpireComplete
PROPERTY LazyCullBounded
PROPERTY NoEarlyEviction
PROPERTY EvictionOrder
PROPERTY NoneNeverEvicts
PROPERTY CullPost
PROPERTY StatsExact
