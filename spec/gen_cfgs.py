#!/usr/bin/env python3
"""Generates the MCSeq_*.cfg files (one source of truth for the constants)."""
BASE = '''SPECIFICATION Spec
CONSTANTS
  QBase = 10
  QIntStart <- mc_QIntStart
  QIntMax <- mc_QIntMax
  QDigits <- mc_QDigits
  CullBatch = 2
  Keys <- {keys}
  Vals = {vals}
  FileVals = {fvals}
  Tags = {tags}
  Ttls <- {ttls}
  QPrefixes <- {pref}
  MaxNow = {maxnow}
  Policies = {policies}
  CullLimits = {culls}
  Limits = {limits}
  MaxRows = {maxrows}
  MaxCtr = {maxctr}
  Ops <- {ops}
CONSTRAINT Bounded
VIEW View
CHECK_DEADLOCK FALSE
'''
INV = ['UniqueKeys', 'ExpiredInvisible', 'LiveVisible']
PROP = ['NoSpuriousRemoval', 'ExplicitRemovalExact', 'NoExpiryNeverExpires', 'ExpireComplete',
        'LazyCullBounded', 'NoEarlyEviction', 'EvictionOrder', 'NoneNeverEvicts', 'CullPost', 'StatsExact']
QINV = ['PeekIsNextPull']
QPROP = ['PrefixIsolation', 'PushAtEnd']

def cfg(name, comment, inv=INV, prop=PROP, **kw):
    d = dict(keys='mc_Keys2', vals='{1, 100012}', fvals='{100012}', tags='{1}', ttls='mc_TtlsCore',
             pref='mc_PrefNone', maxnow=2, policies='{"none"}', culls='{1}', limits='{5}', maxrows=2,
             maxctr=2, ops='mc_CoreOps')
    d.update(kw)
    s = '\\* ' + comment + '\n' + BASE.format(**d)
    s += ''.join('INVARIANT %s\n' % i for i in inv) + ''.join('PROPERTY %s\n' % p for p in prop)
    open('MCSeq_%s.cfg' % name, 'w').write(s)

cfg('core', 'C03 core dictionary: 2 keys, number + file value, tag, ttl in {None,0,1,-1}, clock 0..2, policy none')
cfg('coreq', 'C03 quick: as core with clock 0..1 and ttl in {None,1,-1}', maxnow=1, ttls='mc_TtlsQ')
cfg('stats', 'C03 statistics: hits/misses across get variants, stats toggled mid-history',
    vals='{1}', fvals='{}', tags='{}', ttls='mc_TtlsMix', maxnow=1, maxctr=3, ops='mc_StatOps')
cfg('iter', 'C03 iteration / peekitem / len over 3 keys with deletions and expiry',
    keys='mc_Keys3', vals='{1}', fvals='{}', tags='{}', ttls='mc_TtlsMix', maxnow=2, maxrows=3, ops='mc_IterOps')
cfg('exp', 'C04 expiry: every operation that reads or writes expiry, lazy cull limit in {0,1,2}, 3 keys sharing expiries',
    keys='mc_Keys3', vals='{1}', fvals='{}', tags='{}', ttls='mc_TtlsExp', maxnow=3, maxrows=3, culls='{0, 1, 2}',
    ops='mc_ExpOps2')
cfg('expq', 'C04 quick: 2 keys, ttl in {None,0,1,-1}, clock 0..2, cull limit {0,1}',
    keys='mc_Keys2', vals='{1}', fvals='{}', tags='{}', ttls='mc_TtlsCore', maxnow=2, maxrows=2, culls='{0, 1}',
    ops='mc_ExpOps2')
cfg('evict', 'C09 eviction: 3 keys, file sizes 2/3 units + inline, all policies, cull limit {0,1,2}, limits {3,5}, reads and incr mixed in',
    keys='mc_Keys3', vals='{1, 100011, 100012}', fvals='{100011, 100012}', tags='{}', ttls='mc_TtlsMix',
    maxnow=2, maxrows=3, policies='{"lrs", "lru", "lfu", "none"}', culls='{0, 1, 2}', limits='{3, 5}',
    ops='mc_EvictOps')
cfg('evictq', 'C09 quick: 2 keys, one file size, policies lru/lfu, cull limit {1,2}',
    keys='mc_Keys2', vals='{1, 100011}', fvals='{100011}', tags='{}', ttls='mc_TtlsNone',
    maxnow=2, maxrows=2, policies='{"lru", "lfu"}', culls='{1, 2}', limits='{3}', ops='mc_EvictOps')
cfg('queue', 'C10 queues: prefixes None / a / a-5, both sides, expiring items, ordinary keys mixed in',
    inv=INV + QINV, prop=PROP + QPROP,
    keys='mc_KeysQ', vals='{1, 100012}', fvals='{100012}', tags='{}', ttls='mc_TtlsMix', pref='mc_PrefQ',
    maxnow=1, maxrows=3, ops='mc_QueueOps')
cfg('queueq', 'C10 quick: prefixes a / a-5, 2 rows',
    inv=INV + QINV, prop=PROP + QPROP,
    keys='mc_KeysQ1', vals='{1}', fvals='{}', tags='{}', ttls='mc_TtlsMix', pref='mc_PrefQ2',
    maxnow=1, maxrows=2, ops='mc_QueueOps')
