SPECIFICATION Spec
CONSTANTS
  Callers = {c1, c2}
  Count = 3
  Q = 3
  MaxTick = 24
  CallsEach = 3
  Dev <- mc_NoDev
INVARIANT RateBound
INVARIANT TallyBounded
PROPERTY EventuallyThrough
CHECK_DEADLOCK FALSE
