------------------------------- MODULE FanoutSeq ------------------------------
(***************************************************************************)
(* C13 design level: a FanoutCache is observably ONE cache.                *)
(*   Ref  : the reference, one CacheOps state                                *)
(*   Sh : N CacheOps states (the shards) + a routing function chosen in    *)
(*        Init among ALL functions Keys -> shards (the property must not   *)
(*        depend on which one the hash happens to be)                      *)
(* Key-addressed operations run on Ref and on shard route[k]; aggregate      *)
(* operations fold over every shard exactly once.  TLC checks that both    *)
(* return the same results and that the union of the shards is Ref.          *)
(* Policy none (eviction with the divided limit is a relation on observed  *)
(* volumes: FanoutTrace).                                                  *)
(***************************************************************************)
EXTENDS CacheOps
CONSTANTS FKeys, FVals, NShards, MaxNow, MaxLook, Dev
VARIABLES Ref, Sh, route, now, ok
fsvars == <<Ref, Sh, route, now, ok>>

FF == <<FALSE, FALSE>>
Ttls == {NoTtl, <<1>>}
FTags == {NoTag, 1}
Shards == 1..NShards
E0 == EmptyCache("none", 10, 1000000, TRUE)

Init == /\ route \in [FKeys -> Shards] /\ Ref = E0 /\ Sh = [s \in Shards |-> E0] /\ now = 0 /\ ok = TRUE

KeyStep(k, r1, r2) == /\ Ref' = r1.S /\ Sh' = [Sh EXCEPT ![route[k]] = r2.S] /\ ok' = (r1.ret = r2.ret) /\ UNCHANGED <<route, now>>
Sum(f(_)) == FoldSet(LAMBDA s, acc : acc + f(Sh[s]), 0, Shards)
\* a fold that skips the last shard: the kind of slip the property excludes
Covered == IF "D_skip_last_shard" \in Dev THEN 1..(NShards - 1) ELSE Shards
AggStep(r1, f(_)) ==
    LET rs == [s \in Shards |-> IF s \in Covered THEN f(Sh[s]) ELSE Res(Sh[s], RInt(0), FALSE)]
    IN /\ Ref' = r1.S /\ Sh' = [s \in Shards |-> rs[s].S]
       /\ ok' = (r1.ret = RInt(FoldSet(LAMBDA s, acc : acc + rs[s].ret.v[1], 0, Shards)))
       /\ UNCHANGED <<route, now>>

Next ==
    \/ now < MaxNow /\ now' = now + 1 /\ UNCHANGED <<Ref, Sh, route, ok>>
    \/ \E k \in FKeys, v \in FVals, ttl \in Ttls, tag \in FTags :
          \/ KeyStep(k, Set(Ref, k, v, 0, ttl, tag, now), Set(Sh[route[k]], k, v, 0, ttl, tag, now))
          \/ KeyStep(k, Add(Ref, k, v, 0, ttl, tag, now), Add(Sh[route[k]], k, v, 0, ttl, tag, now))
    \/ \E k \in FKeys, ttl \in Ttls : KeyStep(k, Touch(Ref, k, ttl, now), Touch(Sh[route[k]], k, ttl, now))
    \/ \E k \in FKeys, d \in {<<>>, <<0>>} : KeyStep(k, Incr(Ref, k, 1, d, now), Incr(Sh[route[k]], k, 1, d, now))
    \/ \E k \in FKeys : \/ KeyStep(k, Get(Ref, k, FF, "miss", now), Get(Sh[route[k]], k, FF, "miss", now))
                        \/ KeyStep(k, Has(Ref, k, now), Has(Sh[route[k]], k, now))
                        \/ KeyStep(k, Pop(Ref, k, FF, now), Pop(Sh[route[k]], k, FF, now))
                        \/ KeyStep(k, Delete(Ref, k, "false", now), Delete(Sh[route[k]], k, "false", now))
    \/ AggStep(Clear(Ref), LAMBDA S : Clear(S))
    \/ AggStep(Expire(Ref, now), LAMBDA S : Expire(S, now))
    \/ \E tag \in FTags : AggStep(Evict(Ref, tag), LAMBDA S : Evict(S, tag))
    \/ AggStep(Length(Ref), LAMBDA S : Length(S))
    \/ \* statistics: the sums; iteration: every stored key exactly once
       /\ ok' = /\ Ref.hits = Sum(LAMBDA S : S.hits) /\ Ref.misses = Sum(LAMBDA S : S.misses)
                /\ Len(Ref.rows) = Sum(LAMBDA S : Len(S.rows))
                /\ KeysOf(Ref.rows) = UNION {KeysOf(Sh[s].rows) : s \in Shards}
       /\ UNCHANGED <<Ref, Sh, route, now>>

Spec == Init /\ [][Next]_fsvars

Bounded == /\ Ref.hits + Ref.misses <= MaxLook
           /\ \A i \in DOMAIN Ref.rows : Ref.rows[i].val <= 2 \/ Ref.rows[i].val >= OpaqueBase
SameResults == ok
RowSet(S) == {ProjRow(S.rows[i]) : i \in DOMAIN S.rows}
UnionIsReference == RowSet(Ref) = UNION {RowSet(Sh[s]) : s \in Shards}
Partition == \A s \in Shards : \A i \in DOMAIN Sh[s].rows : route[Sh[s].rows[i].key] = s
=============================================================================
