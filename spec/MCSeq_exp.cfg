\* C04 expiry: every operation that reads or writes expiry, lazy cull limit in {0,1,2}, 3 keys sharing expiries
SPECIFICATION Spec
CONSTANTS
  QBase = 10
  QIntStart <- mc_QIntStart
  QIntMax <- mc_QIntMax
  QDigits <- mc_QDigits
  CullBatch = 2
  Keys <- mc_Keys3
  Vals = {1}
  FileVals = {}
  Tags = {}
  Ttls <- mc_TtlsExp
  QPrefixes <- mc_PrefNone
  MaxNow = 3
  Policies = {"none"}
  CullLimits = {0, 1, 2}
  Limits = {5}
  MaxRows = 3
  MaxCtr = 2
  Ops <- mc_ExpOps2
CONSTRAINT Bounded
VIEW View
CHECK_DEADLOCK FALSE
INVARIANT UniqueKeys
INVARIANT ExpiredInvisible
INVARIANT LiveVisible
PROPERTY NoSpuriousRemoval
PROPERTY ExplicitRemovalExact
PROPERTY NoExpiryNeverExpires
PROPERTY ExpireComplete
PROPERTY LazyCullBounded
PROPERTY NoEarlyEviction
PROPERTY EvictionOrder
PROPERTY NoneNeverEvicts
PROPERTY CullPost
PROPERTY StatsExact
