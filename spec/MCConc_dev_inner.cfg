\* MUST FAIL (CommittedRefsComplete): released behaviour, files removed at inner call exit inside a block (known finding)
SPECIFICATION Spec
CONSTANTS
  Clients <- mc_Clients2
  Programs <- mc_ProgTx
  Keys <- mc_Keys
  MaxFiles = 5
  Dev <- mc_DevInner
  KillAllowed <- mc_NoKill
  InitRows <- mc_InitRows
INVARIANT TypeOK
INVARIANT CommittedRefsComplete
INVARIANT AbsAgree
INVARIANT ReturnsLinearizable
INVARIANT DeadLeavesNoLock
INVARIANT QuiescentAgreement
CHECK_DEADLOCK FALSE
