------------------------------- MODULE DjangoSeq ------------------------------
(***************************************************************************)
(* C19 design level.  Two state machines in lock step:                     *)
(*   D : the Django cache contract stated directly: a map                  *)
(*       (key, version) -> value with an expiry instant; timeouts DEFAULT  *)
(*       (the backend's TIMEOUT), None (forever), zero/negative (already   *)
(*       expired), positive                                                *)
(*   S : the reference dictionary driven the way DjangoCache composes its  *)
(*       operations over made keys prefix:version:key (DjangoOps)          *)
(* for every backend configuration (prefix, default version, TIMEOUT)      *)
(* chosen in Init.  TLC checks equal results and that what is visible      *)
(* through the contract is what the composition stores.                    *)
(***************************************************************************)
EXTENDS DjangoOps
CONSTANTS DKeys, DVals, KeyPrefixes, BackendTimeouts, MaxNow, MaxVer, Tms
VARIABLES D, S, cfg, now, ok
djvars == <<D, S, cfg, now, ok>>

Vers == 1..MaxVer
Absent == [v |-> 0, exp |-> -2]
T == [init |-> cfg]
EffVer(ver) == IF ver = 0 THEN cfg.version ELSE ver
ExpAbs(tm) == LET eff == IF tm[1] = "d" THEN cfg.timeout ELSE tm
              IN IF eff[1] = "n" THEN NoExp ELSE IF eff[2] <= 0 THEN now - 1 ELSE now + eff[2]
Vis(d) == d # Absent /\ (d.exp = NoExp \/ d.exp > now)
A(Dn, ret, judged) == [D |-> Dn, ret |-> ret, judged |-> judged]
Store(k, ver, v, tm) == [D EXCEPT ![<<k, EffVer(ver)>>] = [v |-> v, exp |-> ExpAbs(tm)]]

Contract(e) ==
    LET kv == <<e.a.k, EffVer(e.a.ver)>>
        d == D[kv]
    IN CASE e.op = "set" -> A(Store(e.a.k, e.a.ver, e.a.v, e.a.tm), RNone, FALSE)
         [] e.op = "add" -> IF Vis(d) THEN A(D, RFalse, TRUE) ELSE A(Store(e.a.k, e.a.ver, e.a.v, e.a.tm), RTrue, TRUE)
         [] e.op = "get" -> A(D, IF Vis(d) THEN R("val", <<d.v>>) ELSE R("none", <<>>), TRUE)
         [] e.op = "touch" -> IF Vis(d) THEN A([D EXCEPT ![kv].exp = ExpAbs(e.a.tm)], RTrue, TRUE) ELSE A(D, RFalse, TRUE)
         [] e.op = "delete" -> IF Vis(d) THEN A([D EXCEPT ![kv] = Absent], RTrue, TRUE)
                               ELSE A(D, RFalse, d = Absent)
         [] e.op = "has_key" -> A(D, IF Vis(d) THEN RTrue ELSE RFalse, TRUE)
         [] e.op = "incr" -> IF ~Vis(d) THEN A(D, RExc("ValueError"), TRUE)
                             ELSE IF ~IsNum(d.v) THEN A(D, RExc("TypeError"), TRUE)
                             ELSE A([D EXCEPT ![kv].v = @ + e.a.d], RInt(d.v + e.a.d), TRUE)
         [] e.op = "pop" -> IF Vis(d) THEN A([D EXCEPT ![kv] = Absent], R("val", <<d.v>>), TRUE) ELSE A(D, R("none", <<>>), TRUE)
         [] e.op = "get_or_set" -> IF Vis(d) THEN A(D, R("val", <<d.v>>), TRUE)
                                   ELSE A(Store(e.a.k, e.a.ver, e.a.v, e.a.tm), R("val", <<e.a.v>>), TRUE)
         [] e.op = "incr_version" ->
               IF ~Vis(d) THEN A(D, RExc("ValueError"), TRUE)
               ELSE A([D EXCEPT ![<<e.a.k, EffVer(e.a.ver) + e.a.d>>] = [v |-> d.v, exp |-> ExpAbs(<<"d">>)], ![kv] = Absent],
                      RInt(EffVer(e.a.ver) + e.a.d), TRUE)
         [] e.op = "clear" -> A([x \in DOMAIN D |-> Absent], RNone, FALSE)

Init == /\ cfg \in [prefix : KeyPrefixes, version : {1, 2}, timeout : BackendTimeouts]
        /\ D = [x \in DKeys \X Vers |-> Absent]
        /\ S = EmptyCache("none", 0, 1000000000, FALSE) /\ now = 0 /\ ok = TRUE

Do(e) == LET c == Contract(e)
             r == Op(T, S, e)
         IN /\ D' = c.D /\ S' = r.S
            /\ ok' = ((c.judged /\ r.judged) => (c.ret.k = r.ret.k /\ c.ret.v = r.ret.v))
            /\ UNCHANGED <<cfg, now>>
Ev(op, k, v, tm, ver, d) == [op |-> op, a |-> [k |-> k, v |-> v, tm |-> tm, ver |-> ver, d |-> d], now |-> now]

\* every call of the model, as an event record (the same records drive the real backend in DjangoSeqPlan)
Events ==
    UNION {
      {Ev(op, k, v, tm, ver, 0) : op \in {"set", "add", "get_or_set"}, k \in DKeys, v \in DVals, tm \in Tms, ver \in {0, 1, 2}},
      {Ev("touch", k, 0, tm, ver, 0) : k \in DKeys, tm \in Tms, ver \in {0, 1, 2}},
      {Ev(op, k, 0, <<"d">>, ver, 0) : op \in {"get", "delete", "has_key", "pop"}, k \in DKeys, ver \in {0, 1, 2}},
      {Ev("incr", k, 0, <<"d">>, ver, d) : k \in DKeys, ver \in {0, 1, 2}, d \in {1, -1}},
      {Ev("incr_version", k, 0, <<"d">>, ver, d) : k \in DKeys, ver \in {0, 1, 2}, d \in {1, -1}},
      {Ev("clear", <<>>, 0, <<"d">>, 0, 0)} }
Enabled(e) == e.op = "incr_version" => (IF e.a.d = 1 THEN EffVer(e.a.ver) < MaxVer ELSE EffVer(e.a.ver) > 1)
TickStep == now < MaxNow /\ now' = now + 1 /\ UNCHANGED <<D, S, cfg, ok>>
Next == TickStep \/ \E e \in Events : Enabled(e) /\ Do(e)

Spec == Init /\ [][Next]_djvars

SameResults == ok
\* what is visible through the contract is exactly what the composition would return
Agreement == \A k \in DKeys, ver \in Vers :
    LET d == D[<<k, ver>>]
        i == Find(S.rows, Made(T, k, ver))
    IN /\ Vis(d) <=> (i # 0 /\ Live(S.rows[i], now))
       /\ Vis(d) => (S.rows[i].val = d.v /\ S.rows[i].exp = d.exp)
\* namespacing: made keys of different (key, version) are different
Namespaced == \A k1, k2 \in DKeys, v1, v2 \in Vers : Made(T, k1, v1) = Made(T, k2, v2) => (k1 = k2 /\ v1 = v2)
Bounded == \A x \in DOMAIN D : D[x].v \in 0..2 \/ D[x].v >= OpaqueBase
=============================================================================
