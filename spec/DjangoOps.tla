------------------------------ MODULE DjangoOps ------------------------------
(***************************************************************************)
(* C19: DjangoCache's methods as compositions of the reference dictionary  *)
(* operators (CacheOps) over made keys  prefix:version:key  with the       *)
(* timeout mapping (DEFAULT -> backend TIMEOUT, None forever, 0/negative   *)
(* already expired).  t.init = [prefix, version, timeout] of the backend.  *)
(* Used by DjangoTrace (trace validation) and DjangoSeq (design level).    *)
(***************************************************************************)
EXTENDS CacheOps
CONSTANT DjDev      \* named deviations of the composition (design-level must-fail configs); {} for the code as it is
\* made key: text "prefix:version:key"; versions are single digits
\* deviation D_version_ignored: the version left out of the made key
Made(t, k, ver) == IF "D_version_ignored" \in DjDev THEN <<1>> \o t.init.prefix \o <<58, 58>> \o k
                   ELSE <<1>> \o t.init.prefix \o <<58, 48 + (IF ver = 0 THEN t.init.version ELSE ver), 58>> \o k
\* timeout argument: <<"d">> DEFAULT_TIMEOUT, <<"n">> None, <<"t", n>> a number
Ttl(t, tm) == LET eff == IF tm[1] = "d" THEN t.init.timeout ELSE tm
              IN IF eff[1] = "n" THEN NoTtl
                 \* deviation D_default_zero_forever: a backend TIMEOUT of 0 reaching the cache as "no expiry"
                 ELSE IF eff[2] = 0 /\ tm[1] = "d" /\ "D_default_zero_forever" \in DjDev THEN NoTtl
                 ELSE IF eff[2] = 0 THEN <<-1>> ELSE <<eff[2]>>
FF == <<FALSE, FALSE>>
V(ok, Sn, why) == [ok |-> ok, S |-> Sn, why |-> why]
Val(r) == IF r.ret.k = "val" THEN R("val", <<r.ret.v[1]>>) ELSE R("none", <<>>)

RECURSIVE SetMany(_, _, _, _, _), GetMany(_, _, _, _, _), DelMany(_, _, _, _)
SetMany(t, St, pairs, ver, e) ==
    IF pairs = <<>> THEN St
    ELSE SetMany(t, Set(St, Made(t, pairs[1][1], ver), pairs[1][2], 0, Ttl(t, e.a.tm), NoTag, e.now).S, Tail(pairs), ver, e)
GetMany(t, St, ks, ver, e) ==
    IF ks = <<>> THEN <<>>
    ELSE LET r == Get(St, Made(t, ks[1], ver), FF, "miss", e.now)
         IN (IF r.ret.k = "val" THEN <<<<ks[1], r.ret.v[1]>>>> ELSE <<>>) \o GetMany(t, St, Tail(ks), ver, e)
DelMany(t, St, ks, ver) ==
    IF ks = <<>> THEN St ELSE DelMany(t, Delete(St, Made(t, ks[1], ver), "false", 0).S, Tail(ks), ver)

\* returns [S, ret, judged] ; judged = FALSE: the contract leaves the return value open
Op(t, St, e) ==
    LET k == Made(t, e.a.k, e.a.ver)
        J(res) == [S |-> res.S, ret |-> res.ret, judged |-> TRUE]
    IN CASE e.op = "set" -> [S |-> Set(St, k, e.a.v, 0, Ttl(t, e.a.tm), NoTag, e.now).S, ret |-> RNone, judged |-> FALSE]
         [] e.op = "add" -> J(Add(St, k, e.a.v, 0, Ttl(t, e.a.tm), NoTag, e.now))
         [] e.op = "get" -> LET r == Get(St, k, FF, "miss", e.now) IN [S |-> St, ret |-> Val(r), judged |-> TRUE]
         \* extension: read(key, version) is the lookup that raises KeyError for an absent key
         [] e.op = "read" -> LET r == Get(St, k, FF, "miss", e.now) IN
                             [S |-> St, ret |-> IF r.ret.k = "val" THEN Val(r) ELSE RExc("KeyError"), judged |-> TRUE]
         [] e.op = "touch" -> J(Touch(St, k, Ttl(t, e.a.tm), e.now))
         [] e.op = "delete" -> \* deleting an expired, not yet removed item: the contract leaves the return value open
                               [S |-> Delete(St, k, "false", e.now).S, ret |-> Delete(St, k, "false", e.now).ret,
                                judged |-> (Find(St.rows, k) = 0 \/ Live(St.rows[Find(St.rows, k)], e.now))]
         [] e.op = "has_key" -> J(Has(St, k, e.now))
         [] e.op = "incr" -> LET r == Incr(St, k, e.a.d, <<>>, e.now) IN
                             [S |-> r.S, ret |-> IF r.ret.k = "KeyError" THEN RExc("ValueError") ELSE r.ret, judged |-> TRUE]
         [] e.op = "pop" -> LET fl == <<"fx" \in DOMAIN e.a /\ e.a.fx = 1, "ft" \in DOMAIN e.a /\ e.a.ft = 1>>
                                r == Pop(St, k, fl, e.now)
                            IN [S |-> r.S, ret |-> IF r.ret.k = "val" THEN R("val", r.ret.v) ELSE R("none", <<>>), judged |-> TRUE]
         [] e.op = "get_many" -> [S |-> St, ret |-> R("pairs", GetMany(t, St, e.a.ks, e.a.ver, e)), judged |-> TRUE]
         [] e.op = "set_many" -> [S |-> SetMany(t, St, e.a.pairs, e.a.ver, e), ret |-> R("list", <<>>), judged |-> TRUE]
         [] e.op = "delete_many" -> [S |-> DelMany(t, St, e.a.ks, e.a.ver), ret |-> RNone, judged |-> FALSE]
         [] e.op = "get_or_set" ->
               LET r == Get(St, k, FF, "miss", e.now)
               IN IF r.ret.k = "val" THEN [S |-> St, ret |-> Val(r), judged |-> TRUE]
                  \* add, then get with the default as fallback: the caller always gets the value
                  ELSE [S |-> Add(St, k, e.a.v, 0, Ttl(t, e.a.tm), NoTag, e.now).S,
                        ret |-> R("val", <<e.a.v>>), judged |-> TRUE]
         [] e.op = "incr_version" ->
               \* get the value, store it under version+delta with the DEFAULT timeout, delete the old one
               LET r == Get(St, k, FF, "miss", e.now)
                   v0 == IF e.a.ver = 0 THEN t.init.version ELSE e.a.ver
               IN IF r.ret.k # "val" THEN [S |-> St, ret |-> RExc("ValueError"), judged |-> TRUE]
                  ELSE [S |-> Delete(Set(St, Made(t, e.a.k, v0 + e.a.d), r.ret.v[1], 0, Ttl(t, <<"d">>), NoTag, e.now).S,
                                     k, "false", e.now).S,
                        ret |-> RInt(v0 + e.a.d), judged |-> TRUE]
         [] e.op = "clear" -> [S |-> Clear(St).S, ret |-> RNone, judged |-> FALSE]
         \* extensions of DjangoCache that forward to the sharded cache
         [] e.op = "settag" -> [S |-> Set(St, k, e.a.v, 0, Ttl(t, e.a.tm), e.a.tag, e.now).S, ret |-> RNone, judged |-> FALSE]
         \* (their counts depend on how many expired items earlier writes already removed lazily: not judged; what they
         \*  leave behind is judged by the lookups that follow)
         [] e.op = "evict" -> [S |-> Evict(St, e.a.tag).S, ret |-> RNone, judged |-> FALSE]
         [] e.op \in {"expire", "cull"} -> [S |-> Expire(St, e.now).S, ret |-> RNone, judged |-> FALSE]
         [] e.op = "tick" -> [S |-> St, ret |-> RNone, judged |-> FALSE]
         [] OTHER -> [S |-> St, ret |-> R("unknown-op", <<>>), judged |-> TRUE]

=============================================================================
