\* C06/C07: the same with a kill of the block owner at every step
SPECIFICATION Spec
CONSTANTS
  Clients <- mc_Clients2
  Programs <- mc_ProgTx
  Keys <- mc_Keys
  MaxFiles = 5
  Dev <- mc_NoDev
  KillAllowed <- mc_Kill1
  InitRows <- mc_InitRows
INVARIANT TypeOK
INVARIANT CommittedRefsComplete
INVARIANT AbsAgree
INVARIANT ReturnsLinearizable
INVARIANT DeadLeavesNoLock
INVARIANT QuiescentAgreement
CHECK_DEADLOCK FALSE
