SPECIFICATION TSpec
CONSTANT Dev <- tr_Dev
CHECK_DEADLOCK FALSE
