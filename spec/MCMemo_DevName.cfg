SPECIFICATION Spec
CONSTANTS
  Dev <- mc_DevName
  Vals <- mc_Vals
  Names <- mc_Names
  MaxPos = 0
INVARIANT InvNames
