SPECIFICATION PSpec
CONSTANTS
  Producers = {p1, p2}
  Consumers = {c1, c2}
  PerProducer = 2
  PullsEach = 2
  Dev <- mc_NoDev
  Kills = FALSE
  PlanSample = 2
CONSTRAINT PlanOut
VIEW PlanView
CHECK_DEADLOCK FALSE
