\* C19 contract refinement: keys "a" and "1:a" x versions 1..2 x prefix "" x backend TIMEOUT {None, 0} x timeouts {DEFAULT, 1}, numeric values, 2 instants
SPECIFICATION Spec
CONSTANTS
  QBase = 10
  QIntStart <- mc_QIntStart
  QIntMax <- mc_QIntMax
  QDigits <- mc_QDigits
  CullBatch = 2
  DKeys <- mc_DKeys
  DVals = {1}
  KeyPrefixes <- mc_OnePrefix
  BackendTimeouts <- mc_TimeoutNone
  MaxNow = 1
  DjDev <- mc_NoDjDev
  MaxVer = 2
  Tms <- mc_Tms2
CONSTRAINT Bounded
INVARIANT SameResults
INVARIANT Agreement
INVARIANT Namespaced
CHECK_DEADLOCK FALSE
