\* C18 lifecycle: 3 handles, up to 3 processes, create with arguments (policy, serializer class and argument), open / busy open / close / pickle / fork / store / remove
SPECIFICATION Spec
CONSTANTS
  Handles = {h1, h2, h3}
  Keys = {k1}
  Vals = {1, 2}
  SettingVals = {1, 2}
  Codecs = {1, 2}
  Dev <- mc_NoDev
INVARIANT SettingsComeBack
INVARIANT SameCodec
INVARIANT OneContents
INVARIANT UsedConnectionIsOwn
CHECK_DEADLOCK FALSE
