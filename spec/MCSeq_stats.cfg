\* C03 statistics: hits/misses across get variants, stats toggled mid-history
SPECIFICATION Spec
CONSTANTS
  QBase = 10
  QIntStart <- mc_QIntStart
  QIntMax <- mc_QIntMax
  QDigits <- mc_QDigits
  CullBatch = 2
  Keys <- mc_Keys2
  Vals = {1}
  FileVals = {}
  Tags = {}
  Ttls <- mc_TtlsMix
  QPrefixes <- mc_PrefNone
  MaxNow = 1
  Policies = {"none"}
  CullLimits = {1}
  Limits = {5}
  MaxRows = 2
  MaxCtr = 3
  Ops <- mc_StatOps
CONSTRAINT Bounded
VIEW View
CHECK_DEADLOCK FALSE
INVARIANT UniqueKeys
INVARIANT ExpiredInvisible
INVARIANT LiveVisible
PROPERTY NoSpuriousRemoval
PROPERTY ExplicitRemovalExact
PROPERTY NoExpiryNeverExpires
PROPERTY ExpireComplete
PROPERTY LazyCullBounded
PROPERTY NoEarlyEviction
PROPERTY EvictionOrder
PROPERTY NoneNeverEvicts
PROPERTY CullPost
PROPERTY StatsExact
