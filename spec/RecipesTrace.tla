----------------------------- MODULE RecipesTrace -----------------------------
(***************************************************************************)
(* C20.                                                                    *)
(*  kind "avg": Averager under the scheduler.  State (total, count).  The  *)
(*     COMMIT of an add must publish (total+v, count+1) of the pair        *)
(*     committed just before (no lost update); pop resets; get/pop return  *)
(*     total/count (as the pair) of some contents committed during the     *)
(*     call.                                                               *)
(*  kind "thr": throttle under a virtual clock.  Start times (in 1/q       *)
(*     seconds) of the throttled function; RateBound: in every window the  *)
(*     number of starts is at most count + count/seconds * elapsed; and    *)
(*     every call was let through.                                         *)
(***************************************************************************)
EXTENDS Integers, Sequences, FiniteSets, TLC, Json, IOUtils, TLCExt
Doc == JsonDeserialize(IOEnv.TRACE_FILE)
Traces == Doc.traces
NT == Len(Traces)
VARIABLES tid, l, A, done
rvars == <<tid, l, A, done>>
V(ok, An, why) == [ok |-> ok, A |-> An, why |-> why]
NoCall == [op |-> "none"]
Pair(tc) == [k |-> IF tc[2] = 0 THEN "none" ELSE "pair", v |-> IF tc[2] = 0 THEN <<>> ELSE tc]

\* the recipe reports the mean total/count (as an exact fraction <<num, den>>) of a stored pair, or nothing
MeanOf(ret, pair) == IF pair.k = "none" THEN ret.k = "none"
                     ELSE ret.k = "mean" /\ ret.v[1] * pair.v[2] = pair.v[1] * ret.v[2]
AvgStep(Ao, e) ==
    IF e.ev = "call"
    THEN V(TRUE, [Ao EXCEPT !.call[e.c] = [op |-> e.op, v |-> e.v, st |-> "open", cand |-> {Pair(Ao.tc)}, exp |-> Pair(<<0, 0>>)]], "")
    ELSE IF e.ev = "commit" /\ e.tc = <<-9, -9>>
    THEN V(TRUE, Ao, "")                  \* a commit on another shard of a sharded cache: it does not hold the pair
    ELSE IF e.ev = "commit"
    THEN LET cl == Ao.call[e.c] IN
         IF cl.op = "add"
         THEN IF e.tc = Ao.tc
              THEN V(TRUE, Ao, "")          \* a commit that changes nothing (another shard of a sharded cache's transaction)
              ELSE IF cl.st # "open" \/ e.tc # <<Ao.tc[1] + cl.v, Ao.tc[2] + 1>>
              THEN V(FALSE, Ao, "C20 the commit of add(" \o ToString(cl.v) \o ") published " \o ToJson(e.tc) \o
                                " but the pair committed just before was " \o ToJson(Ao.tc) \o " (lost update)")
              ELSE V(TRUE, [Ao EXCEPT !.tc = e.tc,
                       !.call = [c \in DOMAIN Ao.call |-> IF c = e.c THEN [Ao.call[c] EXCEPT !.st = "committed"]
                                                          ELSE IF Ao.call[c].op \in {"get"} THEN [Ao.call[c] EXCEPT !.cand = @ \cup {Pair(e.tc)}] ELSE Ao.call[c]]], "")
         ELSE IF cl.op = "pop"
         THEN IF e.tc # <<0, 0>> THEN V(FALSE, Ao, "C20 pop did not remove the accumulated pair")
              ELSE V(TRUE, [Ao EXCEPT !.tc = <<0, 0>>, !.call[e.c].exp = Pair(Ao.tc), !.call[e.c].st = "committed",
                       !.call = [c \in DOMAIN Ao.call |-> IF c # e.c /\ Ao.call[c].op \in {"get"} THEN [Ao.call[c] EXCEPT !.cand = @ \cup {Pair(<<0, 0>>)}]
                                                          ELSE IF c = e.c THEN [Ao.call[c] EXCEPT !.exp = Pair(Ao.tc), !.st = "committed"] ELSE Ao.call[c]]], "")
         ELSE IF e.tc = Ao.tc THEN V(TRUE, Ao, "") ELSE V(FALSE, Ao, "C20 a lookup changed the accumulated pair")
    ELSE IF e.ev = "ret"
    THEN LET cl == Ao.call[e.c]
             Aq == [Ao EXCEPT !.call[e.c] = NoCall]
         IN IF cl.op = "add" /\ cl.st # "committed" /\ e.ret.k = "none"
            THEN V(FALSE, Ao, "C20 add returned without committing its value")
            ELSE IF cl.op = "get" /\ ~\E p \in cl.cand : MeanOf(e.ret, p)
            THEN V(FALSE, Ao, "C20 get returned " \o ToJson(e.ret) \o " but the mean of the completed adds was that of one of " \o ToJson(cl.cand))
            ELSE IF cl.op = "pop" /\ cl.st = "committed" /\ ~MeanOf(e.ret, cl.exp)
            THEN V(FALSE, Ao, "C20 pop returned " \o ToJson(e.ret) \o " expected the mean of " \o ToJson(cl.exp))
            ELSE IF cl.op = "pop" /\ cl.st # "committed" /\ e.ret.k # "none"
            THEN V(FALSE, Ao, "C20 pop returned a mean without removing the pair")
            ELSE V(TRUE, Aq, "")
    ELSE IF e.ev = "final"
    THEN IF e.tc = Ao.tc THEN V(TRUE, Ao, "") ELSE V(FALSE, Ao, "C20 final pair differs from the sum of the completed adds")
    ELSE IF e.ev = "stuck" THEN V(FALSE, Ao, "harness: stuck")
    ELSE V(TRUE, Ao, "")

\* throttle: the whole start history is in the trace header
RateBound(t) ==
    \A i, j \in DOMAIN t.starts :
        i < j => (j - i + 1) * t.secq <= t.count * t.secq + t.count * (t.starts_hi[j] - t.starts[i])
\* One pass of throttle's loop is Throttle!Try: the pair read is the pair stored last (the read-modify-write is one
\* transaction), and what the pass does follows from it.  Times and tokens are in 1/t.q (floats rounded: tolerance).
Abs(x) == IF x < 0 THEN -x ELSE x
ThrPass(Ao, e, t) ==
    LET ts  == e.tally * t.seconds + (e.now - e.last) * t.count     \* refilled tally, times t.seconds
        cap == t.count * t.q * t.seconds
        one == t.q * t.seconds
        tol == 4 * t.seconds + t.count
    IN IF <<e.last, e.tally>> # Ao.reg
       THEN V(FALSE, Ao, "C20 a pass of the throttle read " \o ToJson(<<e.last, e.tally>>) \o " but the pair stored last was " \o ToJson(Ao.reg) \o " (lost update)")
       ELSE IF e.now < e.last THEN V(FALSE, Ao, "harness: throttle clock went backwards")
       ELSE IF e.act = "start"
       THEN IF e.wnow # e.now THEN V(FALSE, Ao, "C20 a start stored a time that is not the time of the pass")
            ELSE IF \/ ts > cap - tol /\ Abs(e.wtally - (t.count - 1) * t.q) <= 2
                    \/ ts >= one - tol /\ ts <= cap + tol /\ Abs(e.wtally * t.seconds - (ts - one)) <= tol
                 THEN V(TRUE, [Ao EXCEPT !.reg = <<e.wnow, e.wtally>>], "")
                 ELSE V(FALSE, Ao, "C20 a start is not Throttle!Try: refilled tally x seconds " \o ToString(ts) \o " (one token " \o ToString(one) \o
                                   ", cap " \o ToString(cap) \o "), stored tally " \o ToString(e.wtally))
       ELSE IF ts < one + tol /\ Abs(e.delay * t.count - (one - ts)) <= tol
       THEN V(TRUE, Ao, "")
       ELSE V(FALSE, Ao, "C20 a pass that did not start is not Throttle!Try: refilled tally x seconds " \o ToString(ts) \o " (one token " \o ToString(one) \o
                         "), slept " \o ToString(e.delay))
ThrStep(Ao, e, t) ==
    IF e.ev = "init" THEN V(TRUE, [Ao EXCEPT !.reg = <<e.wnow, e.wtally>>], "")
    ELSE IF e.ev = "pass" THEN ThrPass(Ao, e, t)
    ELSE IF e.ev = "check"
    THEN IF ~RateBound(t)
         THEN V(FALSE, Ao, "C20 throttle exceeded its rate: starts (in 1/" \o ToString(t.q) \o " s) " \o ToJson(t.starts) \o
                           " with count " \o ToString(t.count) \o " per " \o ToString(t.secq) \o "/" \o ToString(t.q) \o " s")
         ELSE IF Len(t.starts) # t.calls
         THEN V(FALSE, Ao, "C20 not every throttled call was let through: " \o ToString(Len(t.starts)) \o " of " \o ToString(t.calls))
         ELSE V(TRUE, Ao, "")
    ELSE V(TRUE, Ao, "")

RInit == /\ tid \in 1..NT /\ l = 1 /\ done = FALSE
         /\ A = [tc |-> <<0, 0>>, reg |-> <<0, 0>>, call |-> [c \in 1..Traces[tid].nc |-> NoCall]]
RNext == /\ ~done
         /\ LET t == Traces[tid]
                e == t.ev[l]
                r == IF t.kind = "avg" THEN AvgStep(A, e) ELSE ThrStep(A, e, t)
            IN IF r.ok
               THEN /\ A' = r.A /\ l' = l + 1 /\ done' = (l = Len(t.ev))
                    /\ (l = Len(t.ev)) => PrintT("VERDICT " \o ToJson([id |-> t.id, ok |-> TRUE, n |-> l]))
               ELSE /\ PrintT("VERDICT " \o ToJson([id |-> t.id, ok |-> FALSE, at |-> l, why |-> r.why]))
                    /\ done' = TRUE /\ UNCHANGED <<l, A>>
         /\ UNCHANGED tid
RSpec == RInit /\ [][RNext]_rvars
=============================================================================
