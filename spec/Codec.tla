-------------------------------- MODULE Codec --------------------------------
(***************************************************************************)
(* C01: the value pipeline as a finite case analysis.                      *)
(* A value is described by [kind, len, feat] (len relative to the file     *)
(* threshold; feat: features of a text); a configuration by [thr, disk].   *)
(* Store picks a representation; Env states the facts of SQLite / files /  *)
(* codecs that decide whether that representation is faithful; Fetch is    *)
(* the inverse.  RoundTripOrReject: the outcome is "same" (equal value of  *)
(* the same type) or "rejected" (exception, nothing stored), never         *)
(* "altered".  TLC evaluates it over the full product of cases; the        *)
(* conformance step draws concrete witnesses of every case.                *)
(***************************************************************************)
EXTENDS Integers, FiniteSets, Sequences, TLC

\* "badkeymap": a mapping (at any depth) with a key JSON cannot express (a tuple, bytes): a pickle carries it, JSON does not
Kinds == {"int64", "bigint", "float", "negzero", "inf", "nan", "str", "bytes", "none", "bool", "container", "stream", "badkeymap"}
Lens  == {"zero", "below", "at", "above", "big"}          \* relative to disk_min_file_size (for str/bytes/container/stream)
Feats == {"CR", "LF", "CRLF", "NUL", "U85", "U2028", "astral", "surrogate", "BOM"}   \* BOM: U+FEFF as the first code point
Thrs  == {"t0", "t1", "tsmall", "t32k"}
Disks == {"Disk", "JSONDisk"}
\* "...-unpickled": the value is fetched through a handle that went through pickle (another process, copy)
Accessors == {"get", "getitem", "pop", "read", "pull", "peek", "peekitem", "deque-getitem", "deque-pop", "index-getitem", "index-pop",
              "get-unpickled", "pull-unpickled",
              \* arithmetic on a stored integer: the sum stays inside / leaves the signed 64-bit range of an SQLite INTEGER
              "incr-within", "incr-across", "decr-across"}
IncrAcc == {"incr-within", "incr-across", "decr-across"}
Applies(v, a) == a \in IncrAcc => v.kind = "int64"

Sized(k) == k \in {"str", "bytes", "container", "stream"}
\* is the serialized form at least as long as the threshold?
AtLeast(v, c) == IF c.thr = "t0" THEN TRUE
                 ELSE IF ~Sized(v.kind) THEN FALSE
                 ELSE IF c.thr = "t1" THEN v.len # "zero"
                 ELSE v.len \in {"at", "above", "big"}

\* representation chosen by Disk.store (after the fixes: NaN is pickled)
Store(v, c) ==
    IF c.disk = "JSONDisk" /\ v.kind # "stream"
    THEN \* json + zlib bytes, then stored like any bytes value
         [mode |-> "json", file |-> AtLeast([kind |-> "bytes", len |-> v.len, feat |-> {}], c)]
    ELSE CASE v.kind \in {"int64", "float", "negzero", "inf"} -> [mode |-> "raw", file |-> FALSE]
           [] v.kind = "str" -> IF AtLeast(v, c) THEN [mode |-> "text", file |-> TRUE] ELSE [mode |-> "raw", file |-> FALSE]
           [] v.kind = "bytes" -> IF AtLeast(v, c) THEN [mode |-> "binary", file |-> TRUE] ELSE [mode |-> "raw", file |-> FALSE]
           [] v.kind = "stream" -> [mode |-> "binary", file |-> TRUE]
           [] OTHER -> [mode |-> "pickle", file |-> AtLeast([kind |-> "container", len |-> v.len, feat |-> {}], c) /\ Sized(v.kind)]

\* environment facts
Utf8Encodable(v) == "surrogate" \notin v.feat
JsonFaithful(v) == v.kind \in {"int64", "bigint", "float", "negzero", "inf", "nan", "str", "none", "bool", "container"}

Outcome(v, c, acc) ==
    LET r == Store(v, c) IN
    \* incr / decr: the exact sum is stored and returned, or (the sum is no SQLite INTEGER, the stored form is no
    \* number) the call raises and the stored integer stays as it was - never a float, never a wrapped number
    IF acc \in IncrAcc THEN (IF c.disk = "Disk" /\ acc = "incr-within" THEN "same" ELSE "rejected")
    ELSE IF c.disk = "JSONDisk" /\ v.kind \in {"bytes"} THEN "rejected"          \* json.dumps(bytes) raises TypeError
    ELSE IF r.mode = "json" THEN (IF JsonFaithful(v) THEN "same" ELSE "rejected")
    ELSE IF r.mode \in {"raw", "text"} /\ v.kind = "str" /\ ~Utf8Encodable(v) THEN "rejected"   \* SQLite TEXT / UTF-8 file
    ELSE IF r.mode = "text" THEN "same"                                      \* read back with newline='' : verbatim
    ELSE "same"

Values == [kind : Kinds, len : Lens, feat : SUBSET Feats]
Cases == {v \in Values : (v.kind # "str" => v.feat = {}) /\ (~Sized(v.kind) => v.len = "zero")}
Configs == [thr : Thrs, disk : Disks]

RoundTripOrReject == \A v \in Cases, c \in Configs, a \in Accessors : Applies(v, a) => Outcome(v, c, a) \in {"same", "rejected"}
\* a value is rejected only for a reason the documentation gives
RejectOnlyUnstorable == \A v \in Cases, c \in Configs, a \in Accessors :
    (Applies(v, a) /\ Outcome(v, c, a) = "rejected") =>
        ("surrogate" \in v.feat \/ (c.disk = "JSONDisk" /\ v.kind \in {"bytes", "stream", "badkeymap"}) \/
         a \in {"incr-across", "decr-across"} \/ (c.disk = "JSONDisk" /\ a \in IncrAcc))

VARIABLE x
Init == x = 0
Next == UNCHANGED x
Spec == Init /\ [][Next]_x
=============================================================================
