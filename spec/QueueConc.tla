------------------------------ MODULE QueueConc ------------------------------
(***************************************************************************)
(* C10 design level, concurrency: producers push and consumers pull on one *)
(* queue (one prefix) at the granularity of the library's statements.      *)
(*   push = BEGIN IMMEDIATE; SELECT the last key; INSERT key+1; COMMIT     *)
(*   pull = BEGIN IMMEDIATE; SELECT the head row; DELETE it; COMMIT; read  *)
(*          its value (and remove its file)                                *)
(* A consumer may be killed at any point.                                  *)
(*   AtMostOnce  : no item is delivered twice                              *)
(*   NoLoss      : an item is in the queue, delivered, or was taken by a   *)
(*                 consumer killed after its COMMIT (taken, not delivered: *)
(*                 the interrupted pull is fully applied)                  *)
(*   KeysIncrease: keys in the queue are strictly increasing in push order *)
(*   Fifo        : with one consumer, deliveries follow the commit order   *)
(*                 of the pushes                                           *)
(* Deviation D_select_before_begin: pull looks at the head before it takes *)
(* the lock.  Deviation D_push_reads_unlocked: push reads the last key     *)
(* before it takes the lock.                                               *)
(***************************************************************************)
EXTENDS Integers, Sequences, FiniteSets, TLC
CONSTANTS Producers, Consumers, PerProducer, PullsEach, Dev, Kills

VARIABLES q, lock, pc, loc, left, delivered, taken, pushed, alive, lastkey
vars == <<q, lock, pc, loc, left, delivered, taken, pushed, alive, lastkey>>
\* q : sequence of [key, id] in key order; delivered : sequence of ids; taken : ids removed by a consumer that died before delivering
Clients == Producers \cup Consumers
None == [key |-> 0, id |-> 0]

Init == /\ q = <<>> /\ lock = 0 /\ pc = [c \in Clients |-> "idle"] /\ loc = [c \in Clients |-> None]
        /\ left = [c \in Clients |-> IF c \in Producers THEN PerProducer ELSE PullsEach]
        /\ delivered = <<>> /\ taken = {} /\ pushed = <<>> /\ alive = [c \in Clients |-> TRUE] /\ lastkey = 0

Live(c) == alive[c]
LastKey == IF q = <<>> THEN lastkey ELSE q[Len(q)].key       \* (an emptied queue restarts after the last key handed out)
\* ---- push
PStart(p) == /\ Live(p) /\ pc[p] = "idle" /\ left[p] > 0
             /\ pc' = [pc EXCEPT ![p] = IF "D_push_reads_unlocked" \in Dev THEN "pselect" ELSE "pbegin"]
             /\ UNCHANGED <<q, lock, loc, left, delivered, taken, pushed, alive, lastkey>>
PBegin(p) == /\ Live(p) /\ pc[p] = "pbegin" /\ lock = 0 /\ lock' = p
             /\ pc' = [pc EXCEPT ![p] = IF "D_push_reads_unlocked" \in Dev THEN "pinsert" ELSE "pselect"]
             /\ UNCHANGED <<q, loc, left, delivered, taken, pushed, alive, lastkey>>
PSelect(p) == /\ Live(p) /\ pc[p] = "pselect"
              /\ loc' = [loc EXCEPT ![p] = [key |-> LastKey + 1, id |-> 0]]
              /\ pc' = [pc EXCEPT ![p] = IF "D_push_reads_unlocked" \in Dev THEN "pbegin" ELSE "pinsert"]
              /\ UNCHANGED <<q, lock, left, delivered, taken, pushed, alive, lastkey>>
PInsertCommit(p) ==
    /\ Live(p) /\ pc[p] = "pinsert" /\ lock = p
    /\ LET id == Len(pushed) + 1
           row == [key |-> loc[p].key, id |-> id] IN
       \* a duplicate key is an IntegrityError in the code: here the insert is lost (the state shows it)
       /\ q' = IF \E i \in DOMAIN q : q[i].key = row.key THEN q ELSE Append(q, row)
       /\ pushed' = Append(pushed, p)
       /\ lastkey' = IF row.key > lastkey THEN row.key ELSE lastkey
    /\ lock' = 0 /\ pc' = [pc EXCEPT ![p] = "idle"] /\ left' = [left EXCEPT ![p] = @ - 1]
    /\ UNCHANGED <<loc, delivered, taken, alive>>
\* ---- pull
CStart(c) == /\ Live(c) /\ pc[c] = "idle" /\ left[c] > 0
             /\ pc' = [pc EXCEPT ![c] = IF "D_select_before_begin" \in Dev THEN "cselect" ELSE "cbegin"]
             /\ UNCHANGED <<q, lock, loc, left, delivered, taken, pushed, alive, lastkey>>
CBegin(c) == /\ Live(c) /\ pc[c] = "cbegin" /\ lock = 0 /\ lock' = c
             /\ pc' = [pc EXCEPT ![c] = IF "D_select_before_begin" \in Dev THEN "cdelete" ELSE "cselect"]
             /\ UNCHANGED <<q, loc, left, delivered, taken, pushed, alive, lastkey>>
CSelect(c) == /\ Live(c) /\ pc[c] = "cselect"
              /\ IF q = <<>>
                 THEN \* empty: the call returns its default
                      /\ pc' = [pc EXCEPT ![c] = "idle"] /\ left' = [left EXCEPT ![c] = @ - 1]
                      /\ lock' = (IF lock = c THEN 0 ELSE lock) /\ UNCHANGED loc
                 ELSE /\ loc' = [loc EXCEPT ![c] = q[1]]
                      /\ pc' = [pc EXCEPT ![c] = IF "D_select_before_begin" \in Dev THEN "cbegin" ELSE "cdelete"]
                      /\ UNCHANGED <<left, lock>>
              /\ UNCHANGED <<q, delivered, taken, pushed, alive, lastkey>>
CDeleteCommit(c) == /\ Live(c) /\ pc[c] = "cdelete" /\ lock = c
                    /\ q' = SelectSeq(q, LAMBDA r : r.id # loc[c].id)         \* DELETE by rowid: no error when it is gone
                    /\ lock' = 0 /\ pc' = [pc EXCEPT ![c] = "cread"]
                    /\ UNCHANGED <<loc, left, delivered, taken, pushed, alive, lastkey>>
CDeliver(c) == /\ Live(c) /\ pc[c] = "cread"
               /\ delivered' = Append(delivered, loc[c].id)
               /\ pc' = [pc EXCEPT ![c] = "idle"] /\ left' = [left EXCEPT ![c] = @ - 1]
               /\ UNCHANGED <<q, lock, loc, taken, pushed, alive, lastkey>>
Kill(c) == /\ Kills /\ c \in Consumers /\ Live(c) /\ pc[c] # "idle"
           /\ alive' = [alive EXCEPT ![c] = FALSE]
           /\ lock' = (IF lock = c THEN 0 ELSE lock)                          \* the database releases a dead client's lock
           /\ taken' = (IF pc[c] = "cread" THEN taken \cup {loc[c].id} ELSE taken)
           /\ UNCHANGED <<q, pc, loc, left, delivered, pushed, lastkey>>

Next == \/ \E p \in Producers : PStart(p) \/ PBegin(p) \/ PSelect(p) \/ PInsertCommit(p)
        \/ \E c \in Consumers : CStart(c) \/ CBegin(c) \/ CSelect(c) \/ CDeleteCommit(c) \/ CDeliver(c) \/ Kill(c)
Spec == Init /\ [][Next]_vars

Ids(s) == {s[i] : i \in DOMAIN s}
AtMostOnce == \A i, j \in DOMAIN delivered : delivered[i] = delivered[j] => i = j
InFlight == {loc[c].id : c \in {d \in Consumers : alive[d] /\ pc[d] = "cread"}}
NoLoss == 1..Len(pushed) = {q[i].id : i \in DOMAIN q} \cup Ids(delivered) \cup taken \cup InFlight
KeysIncrease == \A i, j \in DOMAIN q : i < j => q[i].key < q[j].key /\ q[i].id < q[j].id
Fifo == Cardinality(Consumers) = 1 => \A i, j \in DOMAIN delivered : i < j => delivered[i] < delivered[j]
=============================================================================
