SPECIFICATION RSpec
CHECK_DEADLOCK FALSE
