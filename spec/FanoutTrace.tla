----------------------------- MODULE FanoutTrace -----------------------------
(***************************************************************************)
(* C13 (and the sharded part of C09): a FanoutCache is observably ONE      *)
(* cache.  Model: a sequence of N CacheOps states (the shards) and the     *)
(* observed routing function key -> shard (a function: the harness rejects *)
(* a key seen in two shards).  Key-addressed operations are the CacheOps   *)
(* step on shard Route[k]; aggregate operations are the fold over all      *)
(* shards, each exactly once; the size limit is the total divided by N.    *)
(* Every event carries the full projection of EVERY shard.                 *)
(***************************************************************************)
EXTENDS CacheDispatch, Json, IOUtils, TLCExt

tr_QIntStart == <<0, 50000000, 0>>
tr_QIntMax   == <<0, 99999999, 9999999>>
tr_QDigits   == <<53, 48, 48, 48, 48, 48, 48, 48, 48, 48, 48, 48, 48, 48, 48>>
Doc == JsonDeserialize(IOEnv.TRACE_FILE)
Traces == Doc.traces
NT == Len(Traces)
VARIABLES tid, l, Sh, done
fvars == <<tid, l, Sh, done>>

\* the total limit divided among the shards (the code divides with "/": a float; ints here)
InitSh(t) == [s \in 1..t.init.n |-> EmptyCache(t.init.policy, t.init.cull, t.init.limit \div t.init.n, B(t.init.stats))]

RouteOf(t, k) == IF \E i \in DOMAIN t.route : t.route[i][1] = k
                 THEN t.route[CHOOSE i \in DOMAIN t.route : t.route[i][1] = k][2] + 1
                 ELSE 1          \* a key never stored anywhere: every shard answers "missing"

V(ok, Sn, why) == [ok |-> ok, Sh |-> Sn, why |-> why]
ObsKeysOf(rows) == {rows[i][1] : i \in DOMAIN rows}
Slack == 65536
PbOf(e, s) == LET idx == {i \in DOMAIN e.pb : e.pb[i][1] = s - 1} IN
              IF idx = {} THEN <<>> ELSE [j \in 1..Cardinality(idx) |->
                  e.pb[CHOOSE i \in idx : Cardinality({m \in idx : m < i}) = j - 1][2]]
LazyOK(S1, Vs, e, s) ==
    LET pb == PbOf(e, s) IN
    IF pb # <<>> THEN CullOK(S1, Vs, e.now, LAMBDA rows : pb[1] + SizeSum(rows) >= S1.limit)
    ELSE \/ CullOK(S1, Vs, e.now, LAMBDA rows : e.pbe[s] - Slack + SizeSum(rows) >= S1.limit)
         \/ CullOK(S1, Vs, e.now, LAMBDA rows : e.pbe[s] + Slack + SizeSum(rows) >= S1.limit)
MaxOf(s, d) == IF s = <<>> THEN d ELSE Max({s[i] : i \in DOMAIN s})
CullShardOK(S0, Vs, e, s) ==
    LET pb == PbOf(e, s)
        n == Len(pb)
        first == IF n = 0 THEN e.pbe[s] ELSE pb[1]
        last == IF n = 0 THEN e.pbe[s] ELSE pb[n]
    IN CullCallOK(S0, Vs, e.now, LAMBDA rows : first + SizeSum(rows) > S0.limit,
                  LAMBDA rows : last + SizeSum(rows) > S0.limit, MaxOf(pb, e.pbe[s] + Slack))

KeyOps == {"set", "add", "touch", "incr", "get", "contains", "pop", "delete"}
SumRet(f(_), Shs) == FoldSeq(LAMBDA S, acc : acc + f(S), 0, Shs)

Step(Shs, e, t) ==
    LET N == Len(Shs)
        projOK(NewShs) == \A s \in 1..N : Proj(NewShs[s]) = e.rows[s] /\ Counters(NewShs[s]) = e.ctr[s]
    IN
    IF e.op \in KeyOps
    THEN LET s == RouteOf(t, e.a.k)
             res == Dispatch(Shs[s], e)
             S1 == res.S
             Vs == KeysOf(S1.rows) \ ObsKeysOf(e.rows[s])
             S2 == [S1 EXCEPT !.rows = RemoveKeys(@, Vs)]
             New == [Shs EXCEPT ![s] = S2]
         IN IF res.ret.k # e.ret.k \/ res.ret.v # e.ret.v
            THEN V(FALSE, Shs, e.op \o " returned " \o ToJson(e.ret) \o "; the unsharded cache returns " \o ToJson(res.ret))
            ELSE IF ~res.cull /\ Vs # {} THEN V(FALSE, Shs, "items disappeared from shard " \o ToString(s - 1))
            ELSE IF res.cull /\ ~LazyOK(S1, Vs, e, s)
            THEN V(FALSE, Shs, "lazy cull in shard " \o ToString(s - 1) \o " is not admissible for the divided size limit " \o ToString(S1.limit))
            ELSE IF ~projOK(New) THEN V(FALSE, Shs, "contents of the shards differ from the reference: " \o ToJson([x \in 1..N |-> Proj(New[x])]))
            ELSE V(TRUE, New, "")
    ELSE IF e.op \in {"clear", "evict", "expire"}
    THEN LET Rs == [s \in 1..N |-> Dispatch(Shs[s], e)]
             New == [s \in 1..N |-> Rs[s].S]
             total == FoldSeq(LAMBDA r, acc : acc + r.ret.v[1], 0, Rs)
         IN IF e.ret # RInt(total) THEN V(FALSE, Shs, e.op \o " returned " \o ToJson(e.ret) \o " expected the sum over all shards " \o ToString(total))
            ELSE IF ~projOK(New) THEN V(FALSE, Shs, e.op \o " did not cover every shard exactly once")
            ELSE V(TRUE, New, "")
    ELSE IF e.op = "cull"
    THEN LET Vs == [s \in 1..N |-> KeysOf(Shs[s].rows) \ ObsKeysOf(e.rows[s])]
             New == [s \in 1..N |-> [Shs[s] EXCEPT !.rows = RemoveKeys(@, Vs[s])]]
             total == FoldSeq(LAMBDA x, acc : acc + Cardinality(x), 0, Vs)
         IN IF e.ret # RInt(total) THEN V(FALSE, Shs, "cull returned " \o ToJson(e.ret) \o " but removed " \o ToString(total))
            ELSE IF \E s \in 1..N : ~CullShardOK(Shs[s], Vs[s], e, s)
            THEN V(FALSE, Shs, "cull: a shard's removed set violates expired-first / policy order / divided size limit")
            ELSE IF ~projOK(New) THEN V(FALSE, Shs, "cull: surviving contents differ")
            ELSE V(TRUE, New, "")
    ELSE IF e.op = "len"
    THEN IF e.ret = RInt(FoldSeq(LAMBDA S, acc : acc + Len(S.rows), 0, Shs)) /\ projOK(Shs) THEN V(TRUE, Shs, "")
         ELSE V(FALSE, Shs, "len is not the sum over the shards")
    ELSE IF e.op = "iter"
    THEN LET fwd == FlattenSeq([s \in 1..N |-> KeySeq(Shs[s].rows)])
             expect == IF B(e.a.rev) THEN Reverse(fwd) ELSE fwd
         IN IF e.ret = R("keys", expect) /\ projOK(Shs) THEN V(TRUE, Shs, "")
            ELSE V(FALSE, Shs, "iteration does not visit every shard exactly once in order: expected " \o ToJson(expect))
    ELSE IF e.op = "stats"
    THEN LET h == FoldSeq(LAMBDA S, acc : acc + S.hits, 0, Shs)
             m == FoldSeq(LAMBDA S, acc : acc + S.misses, 0, Shs)
             New == [s \in 1..N |-> Stats(Shs[s], B(e.a.en), B(e.a.rs)).S]
         IN IF e.ret = R("pair", <<h, m>>) /\ projOK(New) THEN V(TRUE, New, "")
            ELSE V(FALSE, Shs, "stats is not the sum over the shards: expected " \o ToJson(<<h, m>>))
    ELSE IF e.op = "tick" THEN V(TRUE, Shs, "")
    ELSE IF e.op = "tagindex"
    THEN IF projOK(Shs) /\ e.ret.k = "none" THEN V(TRUE, Shs, "") ELSE V(FALSE, Shs, "creating / dropping the tag index changed the stored items or failed")
    ELSE IF e.op = "volume"
    THEN LET total == FoldSeq(LAMBDA s, acc : acc + e.pbe[s] + SizeSum(Shs[s].rows), 0, [s \in 1..N |-> s])
         IN IF e.ret = RInt(total) THEN V(TRUE, Shs, "")
            ELSE V(FALSE, Shs, "volume() returned " \o ToJson(e.ret) \o " expected the sum over all shards " \o ToString(total))
    ELSE IF e.op = "limits"
    THEN \* the size limit every shard works with (in KiB, times the number of shards): the total, whichever way the cache came to be
         IF e.ret = [k |-> "ints", v |-> [s \in 1..N |-> t.init.limit \div 1024]] THEN V(TRUE, Shs, "")
         ELSE V(FALSE, Shs, "C13 the total size limit " \o ToString(t.init.limit \div 1024) \o " KiB is not divided among the shards: N x shard limit = " \o ToJson(e.ret))
    ELSE IF e.op \in {"pickle", "reopen", "copy"}
    THEN \* C18: another handle on the same directory (unpickled, reopened): the same shards, nothing changes
         IF e.ret.k # "none" THEN V(FALSE, Shs, "C18 " \o e.op \o " of the sharded cache failed with " \o e.ret.k)
         ELSE IF ~projOK(Shs) THEN V(FALSE, Shs, "C18 " \o e.op \o " of the sharded cache changed the stored items")
         ELSE V(TRUE, Shs, "")
    ELSE V(FALSE, Shs, "harness: unknown op " \o e.op)

FInit == tid \in 1..NT /\ l = 1 /\ Sh = InitSh(Traces[tid]) /\ done = FALSE
FNext == /\ ~done
         /\ LET t == Traces[tid]
                e == t.ev[l]
                r == Step(Sh, e, t)
            IN IF r.ok
               THEN /\ Sh' = r.Sh /\ l' = l + 1 /\ done' = (l = Len(t.ev))
                    /\ (l = Len(t.ev)) => PrintT("VERDICT " \o ToJson([id |-> t.id, ok |-> TRUE, n |-> l]))
               ELSE /\ PrintT("VERDICT " \o ToJson([id |-> t.id, ok |-> FALSE, at |-> l, op |-> e.op, why |-> r.why]))
                    /\ done' = TRUE /\ UNCHANGED <<l, Sh>>
         /\ UNCHANGED tid
FSpec == FInit /\ [][FNext]_fvars
=============================================================================
