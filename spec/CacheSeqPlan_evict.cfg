SPECIFICATION PSpec
CONSTANTS
  QBase = 10
  QIntStart <- mc_QIntStart
  QIntMax <- mc_QIntMax
  QDigits <- mc_QDigits
  CullBatch = 2
  Keys <- mc_Keys3
  Vals = {1, 100011, 100012}
  FileVals = {100011, 100012}
  Tags = {1}
  Ttls <- mc_TtlsMix
  QPrefixes <- mc_PrefNone
  MaxNow = 2
  Policies = {"lrs", "lru", "lfu", "none"}
  CullLimits = {1, 2}
  Limits = {3, 5}
  MaxRows = 3
  MaxCtr = 2
  Ops <- mc_EvictOps
  PlanDepth = 30
  PlanSample = 400
CONSTRAINT PlanOut
VIEW PlanView
CHECK_DEADLOCK FALSE
