\* C05: three clients, one call each
SPECIFICATION Spec
CONSTANTS
  Clients <- mc_Clients3
  Programs <- mc_ProgTriples
  Keys <- mc_Keys
  MaxFiles = 5
  Dev <- mc_NoDev
  KillAllowed <- mc_NoKill
  InitRows <- mc_InitRows
INVARIANT TypeOK
INVARIANT CommittedRefsComplete
INVARIANT AbsAgree
INVARIANT ReturnsLinearizable
INVARIANT DeadLeavesNoLock
INVARIANT QuiescentAgreement
CHECK_DEADLOCK FALSE
