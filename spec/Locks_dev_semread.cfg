\* MUST FAIL: D_sem_read_outside
\* C15 design: sem, 3 contenders x 2 rounds (RLock nesting depth 2, semaphore value 2)
SPECIFICATION Spec
CONSTANTS
  Dev = {"D_sem_read_outside"}
  Procs = {p1, p2, p3}
  Kind = "sem"
  Permits = 2
  Rounds = 2
  Depth = 2
INVARIANT MutualExclusion
INVARIANT SemBound
INVARIANT RLockOwner
INVARIANT FreeWhenNoHolder
CHECK_DEADLOCK FALSE
