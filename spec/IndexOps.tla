------------------------------ MODULE IndexOps ------------------------------
(***************************************************************************)
(* An insertion-ordered dictionary (collections.OrderedDict) as pure       *)
(* operators: the reference for diskcache.Index (C12).                     *)
(* State: sequence of <<key, value>> pairs; replacing keeps the position.  *)
(***************************************************************************)
EXTENDS Integers, Sequences, FiniteSets, TLC, SequencesExt

IR(kind, v) == [k |-> kind, v |-> v]
IRes(X, ret) == [X |-> X, ret |-> ret]
INone == IR("none", <<>>)
IKeyError == IR("KeyError", <<>>)

Idx(X, k) == IF \E i \in DOMAIN X : X[i][1] = k THEN CHOOSE i \in DOMAIN X : X[i][1] = k ELSE 0

ISet(X, k, v) == LET i == Idx(X, k) IN
                 IRes(IF i = 0 THEN Append(X, <<k, v>>) ELSE [X EXCEPT ![i] = <<k, v>>], INone)
IGet(X, k) == LET i == Idx(X, k) IN IF i = 0 THEN IRes(X, IKeyError) ELSE IRes(X, IR("val", <<X[i][2]>>))
IDel(X, k) == LET i == Idx(X, k) IN IF i = 0 THEN IRes(X, IKeyError) ELSE IRes(RemoveAt(X, i), INone)
\* pop(key[, default]): dflt = <<>> (raise KeyError) or <<d>>
IPopKey(X, k, dflt) == LET i == Idx(X, k) IN
                       IF i = 0 THEN IRes(X, IF dflt = <<>> THEN IKeyError ELSE IR("val", dflt))
                       ELSE IRes(RemoveAt(X, i), IR("val", <<X[i][2]>>))
IPopItem(X, last) == IF X = <<>> THEN IRes(X, IKeyError)
                     ELSE LET i == IF last THEN Len(X) ELSE 1
                          IN IRes(RemoveAt(X, i), IR("item", X[i]))
IPeekItem(X, last) == IF X = <<>> THEN IRes(X, IKeyError)
                      ELSE IRes(X, IR("item", X[IF last THEN Len(X) ELSE 1]))
ISetDefault(X, k, d) == LET i == Idx(X, k) IN
                        IF i = 0 THEN IRes(Append(X, <<k, d>>), IR("val", <<d>>))
                        ELSE IRes(X, IR("val", <<X[i][2]>>))
RECURSIVE IUpdate(_, _)
IUpdate(X, pairs) == IF pairs = <<>> THEN IRes(X, INone)
                     ELSE IUpdate(ISet(X, pairs[1][1], pairs[1][2]).X, Tail(pairs))
IContains(X, k) == IRes(X, IR(IF Idx(X, k) # 0 THEN "true" ELSE "false", <<>>))
ILen(X) == IRes(X, IR("int", <<Len(X)>>))
IClear(X) == IRes(<<>>, INone)
\* views: what = "keys" | "values" | "items"
IView(X, what, rev) ==
    LET s == IF rev THEN Reverse(X) ELSE X
    IN IRes(X, IR(what, [i \in DOMAIN s |-> CASE what = "keys" -> s[i][1]
                                               [] what = "values" -> s[i][2]
                                               [] OTHER -> s[i]]))
\* equality: order-sensitive against an ordered mapping, order-free against a plain dict
IEq(X, other, ordered) ==
    LET same == IF ordered THEN X = other
                ELSE /\ Len(X) = Len(other)
                     /\ \A i \in DOMAIN X : \E j \in DOMAIN other : other[j] = X[i]
    IN IRes(X, IR(IF same THEN "true" ELSE "false", <<>>))

IDispatch(X, e) ==
    CASE e.op = "setitem"    -> ISet(X, e.a.k, e.a.v)
      [] e.op = "getitem"    -> IGet(X, e.a.k)
      [] e.op = "delitem"    -> IDel(X, e.a.k)
      [] e.op = "pop"        -> IPopKey(X, e.a.k, e.a.d)
      [] e.op = "popitem"    -> IPopItem(X, e.a.last = 1)
      [] e.op = "peekitem"   -> IPeekItem(X, e.a.last = 1)
      [] e.op = "setdefault" -> ISetDefault(X, e.a.k, e.a.v)
      [] e.op = "update"     -> IUpdate(X, e.a.pairs)
      [] e.op = "contains"   -> IContains(X, e.a.k)
      [] e.op = "len"        -> ILen(X)
      [] e.op = "clear"      -> IClear(X)
      [] e.op = "view"       -> IView(X, e.a.what, e.a.rev = 1)
      [] e.op = "eq"         -> IEq(X, e.a.other, e.a.ordered >= 1)     \* 1: an OrderedDict, 2: another Index
      [] e.op \in {"reopen", "pickle"} -> IRes(X, INone)
      [] OTHER               -> IRes(X, IR("unknown-op", <<>>))
=============================================================================
