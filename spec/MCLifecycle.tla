---- MODULE MCLifecycle ----
EXTENDS Lifecycle
mc_NoDev == {}
mc_Busy == {"D_busy_means_new"}
mc_Pickle == {"D_pickle_drops_codec"}
mc_Conn == {"D_keep_inherited_connection"}
====
