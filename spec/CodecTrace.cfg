SPECIFICATION CSpec
CONSTANT Dev <- tr_Dev
CHECK_DEADLOCK FALSE
