------------------------------- MODULE Lifecycle ------------------------------
(***************************************************************************)
(* C18 design level: handles on one directory.                             *)
(*   dir      : what the directory holds: the stored settings (including   *)
(*              the serializer's own parameters), the items                *)
(*   handle h : an object in some process: the settings it cached when it  *)
(*              was opened, its serializer class, whether its connection   *)
(*              is open, the process that opened the connection            *)
(* Actions: Create (first open, with arguments), Open (no arguments),      *)
(* Close, Use (store / remove / look up through a handle: reconnects       *)
(* transparently when closed or when the process changed), Pickle (a new   *)
(* handle from (directory, timeout, serializer class)), Fork (the child    *)
(* inherits the object), BusyOpen (the database is locked for a moment     *)
(* while a handle is opened: the read of the stored settings is retried).  *)
(*   SettingsComeBack : every handle holds the settings the cache was      *)
(*                      created with, and so does the directory            *)
(*   SameCodec        : every handle encodes and decodes like the creator  *)
(*   OneContents      : a lookup through any handle returns what was       *)
(*                      stored last through any handle                     *)
(*   NoForeignConnection : no handle uses a connection opened by another   *)
(*                      process                                            *)
(***************************************************************************)
EXTENDS Integers, FiniteSets, TLC
CONSTANTS Handles, Keys, Vals, SettingVals, Codecs, Dev

Defaults == [policy |-> 1, limit |-> 1, codecarg |-> 1]
SKeys == DOMAIN Defaults
None == 0
VARIABLES dir, created, h, last, procs
vars == <<dir, created, h, last, procs>>
NoHandle == [live |-> FALSE, view |-> Defaults, codec |-> 1, conn |-> 0, proc |-> 0]

Init == /\ dir = [settings |-> [k \in SKeys |-> None], items |-> [k \in Keys |-> None]]
        /\ created = [settings |-> Defaults, codec |-> 1, done |-> FALSE]
        /\ h = [x \in Handles |-> NoHandle]
        /\ last = [k \in Keys |-> None]       \* ghost: what was stored last, with the codec it was written with
        /\ procs = 1

Stored == IF dir.settings = [k \in SKeys |-> None] THEN [k \in {} |-> None] ELSE dir.settings
\* what an opening handle ends up with: defaults, overridden by what is stored, overridden by its arguments
Merge(stored, args) == [k \in SKeys |-> IF k \in DOMAIN args THEN args[k] ELSE IF k \in DOMAIN stored THEN stored[k] ELSE Defaults[k]]

Create(x, args, codec) ==
    /\ ~created.done /\ ~h[x].live
    /\ LET m == Merge(Stored, args) IN
       /\ dir' = [dir EXCEPT !.settings = m]
       /\ created' = [settings |-> m, codec |-> codec, done |-> TRUE]
       /\ h' = [h EXCEPT ![x] = [live |-> TRUE, view |-> m, codec |-> codec, conn |-> 1, proc |-> 1]]
    /\ UNCHANGED <<last, procs>>

\* a later open without arguments, by process p, told the creator's serializer class
OpenWith(x, p, stored, codec) ==
    LET m == Merge(stored, [k \in {} |-> None]) IN
    /\ dir' = [dir EXCEPT !.settings = m]
    /\ h' = [h EXCEPT ![x] = [live |-> TRUE, view |-> m, codec |-> codec, conn |-> p, proc |-> p]]
Open(x, p) == /\ created.done /\ ~h[x].live /\ p \in 1..procs
              /\ OpenWith(x, p, Stored, created.codec) /\ UNCHANGED <<created, last, procs>>
\* the database is busy when the stored settings are read: the intended code retries; the deviation treats the
\* directory as new
BusyOpen(x, p) == /\ created.done /\ ~h[x].live /\ p \in 1..procs
                  /\ OpenWith(x, p, IF "D_busy_means_new" \in Dev THEN [k \in {} |-> None] ELSE Stored, created.codec)
                  /\ UNCHANGED <<created, last, procs>>
Close(x) == /\ h[x].live /\ h[x].conn # 0 /\ h' = [h EXCEPT ![x].conn = 0] /\ UNCHANGED <<dir, created, last, procs>>
\* pickle + unpickle in process p: the state is (directory, timeout, serializer class)
Pickle(x, y, p) == /\ h[x].live /\ ~h[y].live /\ p \in 1..procs
                   /\ OpenWith(y, p, Stored, IF "D_pickle_drops_codec" \in Dev THEN 1 ELSE h[x].codec)
                   /\ UNCHANGED <<created, last, procs>>
\* fork: the child process holds the same object, connection included
Fork(x, y) == /\ h[x].live /\ ~h[y].live /\ procs < 3
              /\ procs' = procs + 1
              /\ h' = [h EXCEPT ![y] = [h[x] EXCEPT !.proc = procs + 1]]
              /\ UNCHANGED <<dir, created, last>>
\* any use reconnects when the connection is closed or belongs to another process
Conn(x) == IF h[x].conn = 0 \/ (h[x].conn # h[x].proc /\ "D_keep_inherited_connection" \notin Dev) THEN h[x].proc ELSE h[x].conn
Put(x, k, v) == /\ h[x].live
                /\ dir' = [dir EXCEPT !.items[k] = <<v, h[x].codec, h[x].view.codecarg>>]
                /\ last' = [last EXCEPT ![k] = <<v, created.codec, created.settings.codecarg>>]
                /\ h' = [h EXCEPT ![x].conn = Conn(x)] /\ UNCHANGED <<created, procs>>
Del(x, k) == /\ h[x].live /\ dir' = [dir EXCEPT !.items[k] = None] /\ last' = [last EXCEPT ![k] = None]
             /\ h' = [h EXCEPT ![x].conn = Conn(x)] /\ UNCHANGED <<created, procs>>
Touch(x) == /\ h[x].live /\ h' = [h EXCEPT ![x].conn = Conn(x)] /\ UNCHANGED <<dir, created, last, procs>>

Next == \E x \in Handles :
           \/ \E pol \in SettingVals, arg \in SettingVals, c \in Codecs : Create(x, [policy |-> pol, codecarg |-> arg], c)
           \/ \E p \in 1..3 : Open(x, p) \/ BusyOpen(x, p)
           \/ Close(x) \/ Touch(x)
           \/ \E y \in Handles \ {x} : Fork(x, y) \/ \E p \in 1..3 : Pickle(x, y, p)
           \/ \E k \in Keys : Del(x, k) \/ \E v \in Vals : Put(x, k, v)
Spec == Init /\ [][Next]_vars

SettingsComeBack == created.done => /\ dir.settings = created.settings
                                    /\ \A x \in Handles : h[x].live => h[x].view = created.settings
SameCodec == \A x \in Handles : h[x].live => h[x].codec = created.codec
\* a lookup decodes with the handle's codec what was encoded by the writer's: equal exactly when both are the creator's
OneContents == \A k \in Keys : dir.items[k] = last[k]
NoForeignConnection == \A x \in Handles : h[x].live /\ h[x].conn # 0 /\ h[x].conn # h[x].proc => "D_keep_inherited_connection" \notin Dev
\* (an inherited connection may exist until the first use in the child; it is never USED: Conn() replaces it)
UsedConnectionIsOwn == \A x \in Handles : h[x].live => Conn(x) = h[x].proc
=============================================================================
