SPECIFICATION Spec
CONSTANTS
  Dev <- mc_Dev
  Universe <- mc_Universe
INVARIANT NoAliasing
INVARIANT EqualKeysOneEntry
