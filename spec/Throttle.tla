------------------------------- MODULE Throttle -------------------------------
(***************************************************************************)
(* C20 design level: diskcache.recipes.throttle as a token bucket on an    *)
(* integer time grid.  One tick = seconds/(count*Q) seconds, so the bucket *)
(* gains 1/Q token per tick; the stored tally is kept in units of 1/Q      *)
(* token.  The read-modify-write of (last, tally) is one atomic step (a    *)
(* transaction block, C06).  Callers arrive at arbitrary ticks.            *)
(*   RateBound: in every window the number of starts is at most            *)
(*              Count + rate * elapsed                                     *)
(*   EventuallyThrough: every call that arrived is eventually started      *)
(***************************************************************************)
EXTENDS Integers, Sequences, FiniteSets, TLC
CONSTANTS Callers, Count, Q, MaxTick, CallsEach, Dev

VARIABLES now, last, tally, pc, wake, left, starts
vars == <<now, last, tally, pc, wake, left, starts>>

Init == /\ now = 0 /\ last = 0 /\ tally = Count * Q       \* decoration time: a full bucket
        /\ pc = [c \in Callers |-> "away"]
        /\ wake = [c \in Callers |-> 0]
        /\ left = [c \in Callers |-> CallsEach]
        /\ starts = <<>>

\* time passes only when nobody can act (computation takes no time: urgency)
Tick == /\ now < MaxTick
        /\ \A c \in Callers : pc[c] # "trying" /\ ~(pc[c] = "sleeping" /\ now >= wake[c])
        /\ now' = now + 1 /\ UNCHANGED <<last, tally, pc, wake, left, starts>>

Arrive(c) == /\ pc[c] = "away" /\ left[c] > 0
             /\ pc' = [pc EXCEPT ![c] = "trying"]
             /\ UNCHANGED <<now, last, tally, wake, left, starts>>

\* one pass of the loop: the transaction
Try(c) ==
    /\ pc[c] = "trying" \/ (pc[c] = "sleeping" /\ now >= wake[c])
    /\ LET t == tally + (now - last)              \* (now - last) * rate, in 1/Q tokens
       IN IF t > Count * Q /\ "D_no_cap" \notin Dev
          THEN /\ tally' = Count * Q - Q /\ last' = now
               /\ starts' = Append(starts, now) /\ pc' = [pc EXCEPT ![c] = "away"] /\ left' = [left EXCEPT ![c] = @ - 1]
               /\ UNCHANGED wake
          ELSE IF t >= Q
          THEN /\ tally' = t - Q /\ last' = now
               /\ starts' = Append(starts, now) /\ pc' = [pc EXCEPT ![c] = "away"] /\ left' = [left EXCEPT ![c] = @ - 1]
               /\ UNCHANGED wake
          ELSE /\ pc' = [pc EXCEPT ![c] = "sleeping"] /\ wake' = [wake EXCEPT ![c] = now + (Q - t)]
               /\ UNCHANGED <<tally, last, starts, left>>
    /\ UNCHANGED now

Next == Tick \/ \E c \in Callers : Arrive(c) \/ Try(c)
Spec == Init /\ [][Next]_vars /\ WF_vars(Tick) /\ \A c \in Callers : WF_vars(Try(c))

RateBound == \A i, j \in DOMAIN starts : i < j => (j - i + 1) * Q <= Count * Q + (starts[j] - starts[i])
TallyBounded == tally >= 0 /\ tally <= Count * Q
\* with enough time left every caller that is trying or sleeping gets through
\* (every other call may be served first: one token takes Q ticks)
EventuallyThrough == \A c \in Callers :
    (pc[c] \in {"trying", "sleeping"} /\ now + (CallsEach * Cardinality(Callers) + 1) * Q <= MaxTick) ~> (pc[c] = "away")
=============================================================================
