SPECIFICATION PSpec
CONSTANTS
  Clients <- mc_Clients2
  Programs <- mc_ProgSeq
  Keys <- mc_Keys
  MaxFiles = 5
  Dev <- mc_NoDev
  KillAllowed <- mc_NoKill
  InitRows <- mc_Init_file
  PlanSample = 8
CONSTRAINT PlanOut
VIEW PlanView
CHECK_DEADLOCK FALSE
