---- MODULE MCIndex ----
EXTENDS IndexSeq
mc_QIntStart == <<0, 5, 0>>
mc_QIntMax   == <<0, 9, 9>>
mc_QDigits   == <<53, 48>>
mc_IKeys == {<<0, 0, 1>>, <<0, 0, 2>>, <<1, 97>>}
====
