SPECIFICATION PSpec
CONSTANTS
  QBase = 10
  QIntStart <- mc_QIntStart
  QIntMax <- mc_QIntMax
  QDigits <- mc_QDigits
  CullBatch = 2
  Keys <- mc_Keys3
  Vals = {1, 100001, 100012, 100021}
  FileVals = {100012, 100021}
  Tags = {1, 2}
  Ttls <- mc_TtlsCore
  QPrefixes <- mc_PrefQ
  MaxNow = 4
  Policies = {"lrs", "lru", "lfu", "none"}
  CullLimits = {0, 1, 2}
  Limits = {3, 5, 1000}
  MaxRows = 6
  MaxCtr = 50
  Ops <- mc_AllOps
  PlanDepth = 14
  PlanSample = 1
CONSTRAINT PlanOut
CHECK_DEADLOCK FALSE
