\* 3 keys x every routing onto 2 shards, 2 instants
SPECIFICATION Spec
CONSTANTS
  QBase = 10
  QIntStart <- mc_QIntStart
  QIntMax <- mc_QIntMax
  QDigits <- mc_QDigits
  CullBatch = 2
  FKeys <- mc_FKeys3
  FVals = {1, 100001}
  NShards = 2
  MaxNow = 1
  MaxLook = 1
  Dev <- mc_NoDev
CONSTRAINT Bounded
INVARIANT SameResults
INVARIANT UnionIsReference
INVARIANT Partition
CHECK_DEADLOCK FALSE
