---------------------------- MODULE ShardCreate ----------------------------
(***************************************************************************)
(* C13 x C07 x C18: how the shards of a sharded cache come to their size   *)
(* limit.  FanoutCache.__init__ goes through the shards in order; for each *)
(* it DECIDES whether to hand the divided limit to the shard's own         *)
(* constructor, which then makes the directory, creates the database and   *)
(* stores the setting - four steps, and the process can be killed between  *)
(* any two of them.  A later process opens the directory again, with or    *)
(* without a size limit of its own.                                        *)
(*                                                                         *)
(* What a shard's constructor stores when it is handed nothing: the value  *)
(* already stored, or - for a shard without one - the library's undivided  *)
(* default ("full").                                                       *)
(*                                                                         *)
(* Named deviations (each is a version of the code that existed or was     *)
(* seeded):                                                                *)
(*   D_always_pass     the divided limit is handed on at every open        *)
(*                     (the released code: defect F18)                     *)
(*   D_test_db_file    "the shard exists" = its database file exists       *)
(*                     (my first repair of F18: defect F19)                *)
(*   D_test_dir        "the shard exists" = its directory exists           *)
(*                     (seeded change C13-r5m1)                            *)
(*   D_ignore_explicit a limit given at a later open is not handed on to   *)
(*                     an existing shard (seeded change C09-r5m3)          *)
(***************************************************************************)
EXTENDS Naturals, FiniteSets
CONSTANTS N, Dev
Shards == 1..N
VARIABLES phase,      \* on disk: "none" | "dir" | "db" (database without a stored limit) | "set"
          stored,     \* the stored limit: "none" | "Dshare" (default / N) | "Eshare" (explicit / N) | "full" (undivided default)
          pc,         \* 0: no process is opening; s: the opener is at shard s; N+1: it has opened every shard
          sub,        \* step of the opener within its shard
          mode,       \* "idle" | "D" (opened without a size limit) | "E" (opened with size_limit=E)
          pass        \* the decision taken for the current shard
vars == <<phase, stored, pc, sub, mode, pass>>

Exists(s) == IF "D_test_dir" \in Dev THEN phase[s] # "none"
             ELSE IF "D_test_db_file" \in Dev THEN phase[s] \in {"db", "set"}
             ELSE phase[s] = "set"

Init == /\ phase = [s \in Shards |-> "none"] /\ stored = [s \in Shards |-> "none"]
        /\ pc = 0 /\ sub = "decide" /\ mode = "idle" /\ pass = FALSE

Start(m) == /\ pc = 0 /\ pc' = 1 /\ mode' = m /\ sub' = "decide" /\ UNCHANGED <<phase, stored, pass>>
Decide == /\ pc \in Shards /\ sub = "decide"
          /\ pass' = IF "D_always_pass" \in Dev THEN TRUE
                     ELSE IF "D_ignore_explicit" \in Dev THEN ~Exists(pc)
                     ELSE (mode = "E" \/ ~Exists(pc))
          /\ sub' = "mkdir" /\ UNCHANGED <<phase, stored, pc, mode>>
Mkdir == /\ pc \in Shards /\ sub = "mkdir"
         /\ phase' = [phase EXCEPT ![pc] = IF @ = "none" THEN "dir" ELSE @]
         /\ sub' = "connect" /\ UNCHANGED <<stored, pc, mode, pass>>
Connect == /\ pc \in Shards /\ sub = "connect"
           /\ phase' = [phase EXCEPT ![pc] = IF @ = "dir" THEN "db" ELSE @]
           /\ sub' = "store" /\ UNCHANGED <<stored, pc, mode, pass>>
Store == /\ pc \in Shards /\ sub = "store"
         /\ stored' = [stored EXCEPT ![pc] = IF pass THEN (IF mode = "E" THEN "Eshare" ELSE "Dshare")
                                              ELSE IF phase[pc] = "set" THEN @ ELSE "full"]
         /\ phase' = [phase EXCEPT ![pc] = "set"]
         /\ pc' = pc + 1 /\ sub' = "decide" /\ UNCHANGED <<mode, pass>>
Finish == /\ pc = N + 1 /\ pc' = 0 /\ mode' = "idle" /\ UNCHANGED <<phase, stored, sub, pass>>
Kill == /\ pc \in 1..(N + 1) /\ pc' = 0 /\ mode' = "idle" /\ sub' = "decide" /\ UNCHANGED <<phase, stored, pass>>

Next == Start("D") \/ Start("E") \/ Decide \/ Mkdir \/ Connect \/ Store \/ Finish \/ Kill
Spec == Init /\ [][Next]_vars

TypeOK == /\ phase \in [Shards -> {"none", "dir", "db", "set"}]
          /\ stored \in [Shards -> {"none", "Dshare", "Eshare", "full"}]
          /\ pc \in 0..(N + 1) /\ sub \in {"decide", "mkdir", "connect", "store"} /\ mode \in {"idle", "D", "E"}
          /\ \A s \in Shards : (phase[s] = "set") <=> (stored[s] # "none")
\* the total is divided among the shards: no shard ever works with the undivided default, whatever was killed when
NeverUndivided == \A s \in Shards : stored[s] # "full"
\* a size limit given at an open reaches every shard
ExplicitApplied == (pc = N + 1 /\ mode = "E") => \A s \in Shards : stored[s] = "Eshare"
\* an open that gives no size limit leaves the stored limits alone (C18: stored settings survive)
StoredSurvives == [][\A s \in Shards : (mode = "D" /\ phase[s] = "set") => stored'[s] = stored[s]]_vars
\* whoever finishes opening finds every shard usable
AllOpened == (pc = N + 1) => \A s \in Shards : phase[s] = "set"
=============================================================================
