---- MODULE MCDeque ----
EXTENDS DequeSeq
mc_QIntStart == <<0, 5, 0>>
mc_QIntMax   == <<0, 9, 9>>
mc_QDigits   == <<53, 48>>
mc_MaxLens == {-1, 0, 1, 2}
====
