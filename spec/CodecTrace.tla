------------------------------ MODULE CodecTrace ------------------------------
(* C01 conformance: observed outcome of concrete witnesses vs Codec.Outcome *)
EXTENDS Codec, Json, IOUtils, TLCExt
CONSTANT Dev
tr_Dev == {"D_jsondisk_queue_keys"}
Doc == JsonDeserialize(IOEnv.TRACE_FILE)
Traces == Doc.traces
NT == Len(Traces)
VARIABLES tid, l, done, kn
SetOf(s) == {s[i] : i \in DOMAIN s}
Judge(e) ==
    LET v == [kind |-> e.kind, len |-> e.len, feat |-> SetOf(e.feat)]
        c == [thr |-> e.thr, disk |-> e.disk]
        exp == Outcome(v, c, e.acc)
    IN IF e.outcome = exp THEN "ok"
       ELSE IF e.outcome = "fetch-error"
       THEN IF "D_jsondisk_queue_keys" \in Dev /\ e.disk = "JSONDisk" /\ e.acc = "deque-getitem" THEN "KNOWN"
            ELSE "C01 a stored value cannot be read back: " \o e.acc \o " raised " \o e.detail \o " (kind " \o e.kind \o ", " \o e.len \o ", " \o e.thr \o ", " \o e.disk \o ")"
       ELSE IF e.outcome = "altered"
       THEN "C01 a stored value came back altered (" \o e.detail \o "): kind " \o e.kind \o ", length class " \o e.len \o ", features " \o ToJson(e.feat)
            \o ", threshold " \o e.thr \o ", " \o e.disk \o ", accessor " \o e.acc
       ELSE IF e.outcome = "rejected" THEN "C01 a storable value was rejected (" \o e.detail \o "): kind " \o e.kind \o " " \o e.len \o " " \o ToJson(e.feat) \o " " \o e.thr \o " " \o e.disk
       ELSE IF e.outcome = "leak" THEN "C01/C08 a rejected value left something behind (" \o e.detail \o ")"
       ELSE "C01 an unstorable value was accepted and came back as something (" \o e.detail \o "): kind " \o e.kind \o " " \o ToJson(e.feat) \o " " \o e.thr \o " " \o e.disk
CInit == tid \in 1..NT /\ l = 1 /\ done = FALSE /\ x = 0 /\ kn = {}
CNext == /\ ~done
         /\ LET t == Traces[tid]
                j == Judge(t.ev[l])
                kn2 == IF j = "KNOWN" THEN kn \cup {"D_jsondisk_queue_keys"} ELSE kn
            IN IF j = "ok" \/ j = "KNOWN"
               THEN /\ l' = l + 1
                    /\ done' = (l = Len(t.ev))
                    /\ kn' = kn2
                    /\ (l = Len(t.ev)) => PrintT("VERDICT " \o ToJson([id |-> t.id, ok |-> TRUE, n |-> l, known |-> kn2]))
               ELSE /\ PrintT("VERDICT " \o ToJson([id |-> t.id, ok |-> FALSE, at |-> l, why |-> j, known |-> kn]))
                    /\ done' = TRUE /\ UNCHANGED <<l, kn>>
         /\ UNCHANGED <<tid, x>>
CSpec == CInit /\ [][CNext]_<<tid, l, done, x, kn>>
=============================================================================
