------------------------------- MODULE DequeSeq -------------------------------
(***************************************************************************)
(* C11 design level.  Two state machines run in lock step:                 *)
(*   D : the pure deque (DequeOps, = collections.deque)                    *)
(*   S : a cache (CacheOps, policy none) driven the way diskcache.Deque    *)
(*       composes cache operations: append = push + trim (pull from the    *)
(*       other side), pop = pull, indexing walks the sorted keys,          *)
(*       rotate = pop + appendleft steps, reverse = copy out/clear/extend  *)
(* TLC checks the refinement Abs(S) = D.items in every reachable state and *)
(* that both return the same result for every operation.                   *)
(***************************************************************************)
EXTENDS CacheOps, DequeOps

CONSTANTS DVals, MaxLens, MaxItems
VARIABLES D, S, ok
dvars == <<D, S, ok>>

NoP == <<>>
FF == <<FALSE, FALSE>>
SortedRows(St) == SortSeq(St.rows, LAMBDA a, b : KeyLT(a.key, b.key))
Abs(St) == [i \in 1..Len(St.rows) |-> SortedRows(St)[i].val]

IPush(St, v, back) == Push(St, v, 0, NoP, back, NoTtl, NoTag, 0).S
IAppend(St, v, m) == LET S1 == IPush(St, v, TRUE)
                     IN IF m # NoMax /\ Len(S1.rows) > m THEN Pull(S1, NoP, FALSE, FF, 0).S ELSE S1
IAppendLeft(St, v, m) == LET S1 == IPush(St, v, FALSE)
                         IN IF m # NoMax /\ Len(S1.rows) > m THEN Pull(S1, NoP, TRUE, FF, 0).S ELSE S1
IPop(St, back) == Pull(St, NoP, back, FF, 0)
IRet(r) == IF r.ret.k = "item" THEN DR("val", <<r.ret.v[2]>>) ELSE DExc("IndexError")

RECURSIVE IRotate(_, _, _)
IRotate(St, steps, m) ==      \* steps >= 0 : pop + appendleft; < 0 : popleft + append
    IF steps = 0 THEN St
    ELSE IF steps > 0
    THEN LET r == IPop(St, TRUE) IN
         IF r.ret.k # "item" THEN St ELSE IRotate(IAppendLeft(r.S, r.ret.v[2], m), steps - 1, m)
    ELSE LET r == IPop(St, FALSE) IN
         IF r.ret.k # "item" THEN St ELSE IRotate(IAppend(r.S, r.ret.v[2], m), steps + 1, m)

RECURSIVE IExtend(_, _, _)
IExtend(St, vs, m) == IF vs = <<>> THEN St ELSE IExtend(IAppend(St, Head(vs), m), Tail(vs), m)

\* positional access: the key at Python index i in sorted order (0 = out of range)
IKeyAt(St, i) == LET n == Len(St.rows)
                     p == IF i >= 0 THEN (IF i < n THEN i + 1 ELSE 0) ELSE (IF -i <= n THEN n + i + 1 ELSE 0)
                 IN IF p = 0 THEN <<>> ELSE SortedRows(St)[p].key

Init == /\ \E m \in MaxLens : D = [items |-> <<>>, maxlen |-> m]
        /\ S = EmptyCache("none", 10, 1000000, FALSE)
        /\ ok = TRUE

Step(dres, S2, iret) == /\ D' = dres.D
                        /\ S' = S2
                        /\ ok' = (dres.ret = iret)

Next ==
    \/ \E v \in DVals : Step(DAppend(D, v), IAppend(S, v, D.maxlen), DNone)
    \/ \E v \in DVals : Step(DAppendLeft(D, v), IAppendLeft(S, v, D.maxlen), DNone)
    \/ LET r == IPop(S, TRUE) IN Step(DPop(D), r.S, IRet(r))
    \/ LET r == IPop(S, FALSE) IN Step(DPopLeft(D), r.S, IRet(r))
    \/ LET r == Peek(S, NoP, TRUE, FF, 0) IN Step(DPeek(D), r.S, IRet(r))
    \/ LET r == Peek(S, NoP, FALSE, FF, 0) IN Step(DPeekLeft(D), r.S, IRet(r))
    \/ \E i \in -(MaxItems + 1)..MaxItems :
          LET k == IKeyAt(S, i) IN
          \/ Step(DGetItem(D, i), S, IF k = <<>> THEN DExc("IndexError")
                                     ELSE DR("val", <<Get(S, k, FF, "KeyError", 0).ret.v[1]>>))
          \/ Step(DDelItem(D, i), IF k = <<>> THEN S ELSE Delete(S, k, "KeyError", 0).S,
                  IF k = <<>> THEN DExc("IndexError") ELSE DNone)
          \/ \E v \in DVals :
                Step(DSetItem(D, i, v), IF k = <<>> THEN S ELSE Set(S, k, v, 0, NoTtl, NoTag, 0).S,
                     IF k = <<>> THEN DExc("IndexError") ELSE DNone)
    \/ \E n \in -2..2 : Step(DRotate(D, n),
                             IF Len(S.rows) = 0 THEN S
                             ELSE IRotate(S, IF n >= 0 THEN n % Len(S.rows) ELSE -((-n) % Len(S.rows)), D.maxlen), DNone)
    \/ Step(DReverse(D), IExtend(Clear(S).S, Reverse(Abs(S)), D.maxlen), DNone)
    \/ Step(DClear(D), Clear(S).S, DNone)
    \/ \E m \in MaxLens : m = NoMax \/ m >= 0 =>
          \* maxlen setter: popleft while too long
          Step(DSetMaxlen(D, m),
               IF m # NoMax /\ Len(S.rows) > m
               THEN [S EXCEPT !.rows = SelectSeq(S.rows, LAMBDA r :
                        \E j \in (Len(S.rows) - m + 1)..Len(S.rows) : SortedRows(S)[j].key = r.key)]
               ELSE S, DNone)

Spec == Init /\ [][Next]_dvars

QWindowD == \A i \in DOMAIN S.rows : S.rows[i].key[2] * QBase + S.rows[i].key[3] \in 46..54
Bounded == Len(D.items) <= MaxItems /\ QWindowD

Refinement == Abs(S) = D.items
SameResults == ok
Capacity == D.maxlen # NoMax => Len(D.items) <= D.maxlen
=============================================================================
