-------------------------- MODULE ShardCreatePlan --------------------------
(* Every behaviour of ShardCreate with a fixed number of opens, each open finished or killed at a named step, printed with *)
(* the on-disk state the model expects after it; the driver replays the opens on the real FanoutCache (killdriver.         *)
(* run_shard_plan) and ShardCreateTrace compares.                                                                          *)
EXTENDS ShardCreate, Sequences, Json, TLC
CONSTANT Opens
VARIABLE hist
pvars == <<vars, hist>>
PInit == Init /\ hist = <<>>
Rec(end) == [mode |-> mode, end |-> end, s |-> pc, sub |-> sub, phase |-> phase', stored |-> stored']
PNext == \/ (Start("D") \/ Start("E") \/ Decide \/ Mkdir \/ Connect \/ Store) /\ UNCHANGED hist
         \/ Finish /\ hist' = Append(hist, Rec("finish"))
         \/ Kill /\ hist' = Append(hist, Rec("kill"))
PSpec == PInit /\ [][PNext]_pvars
PlanOut == /\ Len(hist) <= Opens
           /\ (pc = 0 /\ Len(hist) = Opens) => PrintT("PLAN " \o ToJson(hist))
=============================================================================
