---- MODULE MCMemo ----
EXTENDS Memo
mc_NoDev == {}
mc_Dev == {"D_none_separator"}
mc_Vals == {"N", "s:a", "i:1", "f:1"}
mc_Names == {"a", "b"}
Inv == NoSharedEntryAll /\ SameCallSameKey
====
