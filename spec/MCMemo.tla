---- MODULE MCMemo ----
EXTENDS Memo
mc_NoDev == {}
mc_Dev == {"D_none_separator"}
mc_Vals == {"N", "s:a", "i:1", "f:1"}
mc_Vals3 == {"N", "s:a", "i:1"}
mc_Names == {"a", "b"}
mc_DevOrder == {"D_types_in_call_order"}
mc_DevName == {"D_short_name"}
Inv == NoSharedEntryAll /\ SameCallSameKey /\ DistinctFunctionsDistinctNames
InvSame == SameCallSameKey
InvNames == DistinctFunctionsDistinctNames
====
