\* ShardCreate: 3 shards, opens with and without a size limit, kills between any two steps
SPECIFICATION Spec
CONSTANTS
  N = 3
  Dev = {}
INVARIANT TypeOK
INVARIANT NeverUndivided
INVARIANT ExplicitApplied
INVARIANT AllOpened
PROPERTY StoredSurvives
