SPECIFICATION PSpec
CONSTANTS
  Clients <- mc_Clients
  Keys <- mc_Keys
  Prog <- mc_ProgFile
  Dev <- mc_Race
  PlanSample = 40
CONSTRAINT PlanOut
VIEW PlanView
CHECK_DEADLOCK FALSE
