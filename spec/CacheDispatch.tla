---------------------------- MODULE CacheDispatch ----------------------------
(***************************************************************************)
(* Recorded call (JSON record with op, a, now) -> CacheOps operator.       *)
(* Shared by the sequential trace spec and the concurrency monitor.        *)
(***************************************************************************)
EXTENDS CacheOps

B(x) == x = 1                       \* JSON 0/1 -> BOOLEAN
Fl(e) == <<B(e.a.fx), B(e.a.ft)>>  \* flags: expire_time=, tag=

PolicyId(p) == CASE p = "lrs" -> 1 [] p = "lru" -> 2 [] p = "lfu" -> 3 [] OTHER -> 0

\* the operation proper
RECURSIVE Dispatch(_, _)
Dispatch(St, e) ==
    CASE e.op = "set"      -> Set(St, e.a.k, e.a.v, e.a.sz, e.a.ttl, e.a.tag, e.now)
      [] e.op = "add"      -> Add(St, e.a.k, e.a.v, e.a.sz, e.a.ttl, e.a.tag, e.now)
      [] e.op = "touch"    -> Touch(St, e.a.k, e.a.ttl, e.now)
      [] e.op = "incr"     -> Incr(St, e.a.k, e.a.d, e.a.df, e.now)
      [] e.op = "get"      -> Get(St, e.a.k, Fl(e), e.a.mk, e.now)
      [] e.op = "contains" -> Has(St, e.a.k, e.now)
      [] e.op = "pop"      -> Pop(St, e.a.k, Fl(e), e.now)
      [] e.op = "delete"   -> Delete(St, e.a.k, e.a.mk, e.now)
      [] e.op = "clear"    -> Clear(St)
      [] e.op = "evict"    -> Evict(St, e.a.tag)
      [] e.op = "expire"   -> Expire(St, e.now)
      [] e.op = "push"     -> Push(St, e.a.v, e.a.sz, e.a.p, B(e.a.back), e.a.ttl, e.a.tag, e.now)
      [] e.op = "pull"     -> Pull(St, e.a.p, B(e.a.back), Fl(e), e.now)
      [] e.op = "peek"     -> Peek(St, e.a.p, B(e.a.back), Fl(e), e.now)
      [] e.op = "peekitem" -> PeekItem(St, B(e.a.last), Fl(e), e.now)
      [] e.op = "len"      -> Length(St)
      [] e.op = "iter"     -> IF B(e.a.sorted) THEN IterKeys(St, B(e.a.rev)) ELSE Iter(St, B(e.a.rev))
      [] e.op = "stats"    -> Stats(St, B(e.a.en), B(e.a.rs))
      [] e.op = "tick"     -> Res(St, RNone, FALSE)
      \* the tag index is an index: creating or dropping it changes no result
      [] e.op = "tagindex" -> Res(St, RNone, FALSE)
      \* volume() = bytes of the database pages (observed: e.pbe) + recorded size of the value files
      [] e.op = "volume"   -> Res(St, RInt(e.pbe + SizeSum(St.rows)), FALSE)
      [] e.op = "close"    -> Res(St, RNone, FALSE)      \* closing a handle changes nothing
      \* C18: reopening, pickling, forking, another thread or process change nothing by themselves; an operation
      \* performed through any other handle is the same step on the one directory state
      [] e.op = "pickle" -> Res(St, RNone, FALSE)
      \* reopening WITH settings applies them again (statistics goes back to the value given at creation)
      [] e.op = "reopen" -> Res(IF e.a.args = 1 THEN [St EXCEPT !.stats = B(e.a.stats0)] ELSE St, RNone, FALSE)
      [] e.op = "via"      -> Dispatch(St, [op |-> e.a.inner.op, a |-> e.a.inner.a, now |-> e.now])
      [] e.op = "settings" -> Res(St, R("settings", <<PolicyId(St.policy), St.cull, St.limit, IF St.stats THEN 1 ELSE 0>>), FALSE)
      [] OTHER             -> Res(St, R("unknown-op", <<>>), FALSE)

=============================================================================
