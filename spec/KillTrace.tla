------------------------------ MODULE KillTrace ------------------------------
(***************************************************************************)
(* C07: a process is killed at some instant; a fresh handle then looks at  *)
(* the directory.  The trace is the victim's own log of calls (written     *)
(* before it died), the kill, and the observation of the fresh handle.     *)
(*                                                                         *)
(*   CompletedCallsPresent   every call that had returned is fully there   *)
(*   InterruptedAllOrNothing the call in progress is applied or not (bulk  *)
(*                           removals and the expired-head loops of        *)
(*                           pull/peek: any part of what they may remove)  *)
(*   PresentKeysReadable     every item present yields a complete value    *)
(*   DeadLeavesNoLock        the fresh handle can write                    *)
(*   DebrisOnlyUnreferenced  check() reports at most unknown files and     *)
(*                           empty directories; check(fix) + check() clean *)
(***************************************************************************)
EXTENDS CacheDispatch, Json, IOUtils, TLCExt

CONSTANT Dev
tr_QIntStart == <<0, 50000000, 0>>
tr_QIntMax   == <<0, 99999999, 9999999>>
tr_QDigits   == <<53, 48, 48, 48, 48, 48, 48, 48, 48, 48, 48, 48, 48, 48, 48>>
tr_Dev == {"D_inner_cleanup"}

Doc == JsonDeserialize(IOEnv.TRACE_FILE)
Traces == Doc.traces
NT == Len(Traces)

VARIABLES tid, l, K, done
kvars == <<tid, l, K, done>>

\* K: [S committed model state, W working copy of an open block, d block depth,
\*     cur in-flight call (or none), pre state before the in-flight call / block]
NoCall == [op |-> "none"]
InitK(t) == [S |-> EmptyCache(t.init.policy, t.init.cull, t.init.limit, B(t.init.stats)),
             W |-> <<>>, d |-> 0, cur |-> NoCall, alt |-> {}, inblock |-> FALSE]

V(ok, Kn, why) == [ok |-> ok, K |-> Kn, why |-> why]

IsBulk(op) == op \in {"clear", "evict", "expire", "cull"}
IsQLoop(op) == op \in {"pull", "peek", "peekitem"}

\* rows the interrupted bulk/loop call is allowed to have removed
MayRemove(S, cl, r) ==
    CASE cl.op = "clear" -> TRUE
      [] cl.op = "evict" -> cl.a.tag # NoTag /\ r.tag = cl.a.tag
      [] cl.op = "expire" -> Passed(r, cl.now)
      [] cl.op = "cull" -> TRUE
      [] cl.op \in {"pull", "peek"} -> InQueue(cl.a.p, r.key)
      [] cl.op = "peekitem" -> ~Live(r, cl.now)
      [] OTHER -> FALSE

\* the lazy cull of writes is not observable call by call: the kill workloads
\* run with nothing to cull (asserted here)
NoCull(S, now) == S.cull = 0 \/ (PassedKeys(S.rows, now) = {} /\ (S.policy = "none" \/ SizeSum(S.rows) + 2000000 < S.limit))

OnCall(Ko, e) ==
    IF e.op = "txbegin"
    THEN V(TRUE, [Ko EXCEPT !.d = @ + 1, !.W = IF Ko.d = 0 THEN Ko.S ELSE @,
                            !.cur = [op |-> "txbegin"]], "")
    ELSE IF e.op = "txend" THEN V(TRUE, [Ko EXCEPT !.cur = [op |-> "txend"]], "")
    ELSE IF e.op = "txraise" THEN V(TRUE, [Ko EXCEPT !.cur = [op |-> "txraise"]], "")
    ELSE LET cl == [op |-> e.op, a |-> e.a, now |-> e.now]
             base == IF Ko.d > 0 THEN Ko.W ELSE Ko.S
             res == Dispatch(base, cl)
         IN IF res.cull /\ ~NoCull(res.S, e.now)
            THEN V(FALSE, Ko, "harness: kill workload would cull lazily (not observable per call)")
            ELSE V(TRUE, [Ko EXCEPT !.cur = [op |-> e.op, a |-> e.a, now |-> e.now, exp |-> res.ret,
                                             post |-> res.S, base |-> base]], "")

OnRet(Ko, e) ==
    LET cl == Ko.cur IN
    IF cl.op = "none" THEN V(FALSE, Ko, "harness: ret without call")
    ELSE IF cl.op = "txbegin" THEN V(TRUE, [Ko EXCEPT !.cur = NoCall], "")
    ELSE IF cl.op = "txend"
    THEN IF Ko.d = 1 THEN V(TRUE, [Ko EXCEPT !.S = Ko.W, !.W = <<>>, !.d = 0, !.cur = NoCall], "")
         ELSE V(TRUE, [Ko EXCEPT !.d = @ - 1, !.cur = NoCall], "")
    ELSE IF cl.op = "txraise"
    THEN \* the block raised: everything it did is undone
         V(TRUE, [Ko EXCEPT !.W = <<>>, !.d = 0, !.cur = NoCall], "")
    ELSE IF e.ret # cl.exp
    THEN V(FALSE, Ko, "C03 completed call " \o cl.op \o " returned " \o ToJson(e.ret) \o " expected " \o ToJson(cl.exp))
    ELSE IF Ko.d > 0 THEN V(TRUE, [Ko EXCEPT !.W = cl.post, !.cur = NoCall], "")
    ELSE V(TRUE, [Ko EXCEPT !.S = cl.post, !.cur = NoCall], "")

\* contents a fresh handle may find
Allowed(Ko, rowsObs) ==
    LET cl == Ko.cur
        obsKeys == {rowsObs[i][1] : i \in DOMAIN rowsObs}
    IN \/ rowsObs = Proj(Ko.S)                                     \* interrupted call / block not applied
       \/ (Ko.d > 0 /\ cl.op = "txend" /\ Ko.d = 1 /\ rowsObs = Proj(Ko.W))   \* block committed, not yet returned
       \/ (Ko.d = 0 /\ cl.op \notin {"none", "txbegin", "txend", "txraise"} /\
             \/ rowsObs = Proj(cl.post)                            \* fully applied
             \/ (IsBulk(cl.op) \/ IsQLoop(cl.op)) /\               \* partly applied: only rows it may remove are gone
                  LET gone == KeysOf(Ko.S.rows) \ obsKeys
                  IN /\ rowsObs = Proj([Ko.S EXCEPT !.rows = RemoveKeys(@, gone)])
                     /\ \A i \in DOMAIN Ko.S.rows :
                           Ko.S.rows[i].key \in gone => MayRemove(Ko.S, cl, Ko.S.rows[i]))

OnObs(Ko, e) ==
    IF e.opened # 1 THEN V(FALSE, Ko, "C07 a fresh handle cannot open the directory after the kill")
    ELSE IF e.count_follows # 1
    THEN V(FALSE, Ko, "C07 after the kill the item count no longer follows the stored items (a write by the next process is not counted)")
    ELSE IF e.settings_bad # <<>>
    THEN V(FALSE, Ko, "C07 the handle opened after the kill lacks settings or has values nobody asked for: " \o ToJson(e.settings_bad))
    ELSE IF \E i \in DOMAIN e.rows : e.rows[i][2] < 0 /\ e.rows[i][2] # NoExp
    THEN IF "D_inner_cleanup" \in Dev /\ Ko.d > 0
         THEN V(TRUE, Ko, "KNOWN")
         ELSE V(FALSE, Ko, "C07 a key reported present does not yield a complete value (missing or partial value file)")
    ELSE IF ~Allowed(Ko, e.rows)
    THEN V(FALSE, Ko, "C07 contents after the kill are neither 'completed calls only' nor 'completed calls + the interrupted call': "
                      \o ToJson(Proj(Ko.S)))
    ELSE IF e.ctr[1] # Len(e.rows) \/ e.ctr[2] # FoldSeq(LAMBDA r, acc : acc + r[5], 0, e.rows)
    THEN V(FALSE, Ko, "C07/C08 counters differ from the rows after the kill")
    ELSE IF e.sizes_ok # 1
    THEN V(FALSE, Ko, "C07 a referenced value file is missing or has the wrong size after the kill")
    ELSE IF e.wrote # 1
    THEN V(FALSE, Ko, "C07 the dead process left something behind that stops others from writing")
    ELSE IF ~({e.warn1[i] : i \in DOMAIN e.warn1} \subseteq {"unknown-file", "empty-dir"})
    THEN V(FALSE, Ko, "C07 check() reports more than unreferenced files / empty directories after the kill: " \o ToJson(e.warn1))
    ELSE IF e.clean2 # 1
    THEN V(FALSE, Ko, "C07/C17 debris is not removed by check(fix=True)")
    ELSE V(TRUE, Ko, "")

KStep(Ko, e) ==
    CASE e.ev = "call" -> OnCall(Ko, e)
      [] e.ev = "ret" -> OnRet(Ko, e)
      [] e.ev = "killed" -> V(TRUE, Ko, "")
      [] e.ev = "obs" -> OnObs(Ko, e)
      \* the creation of a sharded cache was killed; a later process opens the directory the same way
      [] e.ev = "fanout_obs" ->
            IF e.opened # 1 THEN V(FALSE, Ko, "C07 a sharded cache whose creation was killed cannot be opened again")
            ELSE IF e.limits_ok # 1
            THEN V(FALSE, Ko, "C07/C13 after a kill during the creation of a sharded cache the total size limit is not divided among the shards (thousandths per shard: "
                              \o ToJson(e.limits) \o ")")
            ELSE IF e.settings_ok # 1 THEN V(FALSE, Ko, "C07 a shard opened after the kill lacks the settings the cache was created with")
            ELSE IF e.warnings # 0 THEN V(FALSE, Ko, "C07 check() of the sharded cache reports an inconsistency after the kill")
            ELSE IF e.usable # 1 THEN V(FALSE, Ko, "C07 the sharded cache is not usable after the kill")
            ELSE V(TRUE, Ko, "")
      [] OTHER -> V(FALSE, Ko, "harness: unknown event")

KInit == tid \in 1..NT /\ l = 1 /\ K = InitK(Traces[tid]) /\ done = FALSE
KNext == /\ ~done
         /\ LET t == Traces[tid]
                e == t.ev[l]
                r == KStep(K, e)
            IN IF r.ok /\ r.why = "KNOWN"
               THEN /\ PrintT("VERDICT " \o ToJson([id |-> t.id, ok |-> TRUE, n |-> l, known |-> {"D_inner_cleanup"}]))
                    /\ done' = TRUE /\ UNCHANGED <<l, K>>
               ELSE IF r.ok
               THEN /\ K' = r.K /\ l' = l + 1 /\ done' = (l = Len(t.ev))
                    /\ (l = Len(t.ev)) => PrintT("VERDICT " \o ToJson([id |-> t.id, ok |-> TRUE, n |-> l, known |-> {}]))
               ELSE /\ PrintT("VERDICT " \o ToJson([id |-> t.id, ok |-> FALSE, at |-> l, ev |-> e.ev, why |-> r.why]))
                    /\ done' = TRUE /\ UNCHANGED <<l, K>>
         /\ UNCHANGED tid
KSpec == KInit /\ [][KNext]_kvars
=============================================================================
