\* ShardCreate: must fail StoredSurvives (F18)
SPECIFICATION Spec
CONSTANTS
  N = 3
  Dev = {"D_always_pass"}
INVARIANT TypeOK
INVARIANT NeverUndivided
INVARIANT ExplicitApplied
INVARIANT AllOpened
PROPERTY StoredSurvives
