SPECIFICATION Spec
CONSTANTS
  Dev <- mc_DevOrder
  Vals <- mc_Vals
  Names <- mc_Names
  MaxPos = 1
INVARIANT InvSame
