SPECIFICATION PSpec
CONSTANTS
  Clients <- mc_Clients2
  Programs <- mc_ProgTx
  Keys <- mc_Keys
  MaxFiles = 5
  Dev <- mc_NoDev
  KillAllowed <- mc_NoKill
  InitRows <- mc_Init_inline
  PlanSample = 6
CONSTRAINT PlanOut
VIEW PlanView
CHECK_DEADLOCK FALSE
