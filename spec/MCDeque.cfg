\* C11 refinement: values {1,2}, maxlen in {None,0,1,2}, up to 3 items, all indices -4..3, rotate -2..2
SPECIFICATION Spec
CONSTANTS
  QBase = 10
  QIntStart <- mc_QIntStart
  QIntMax <- mc_QIntMax
  QDigits <- mc_QDigits
  CullBatch = 2
  DVals = {1, 2}
  MaxLens <- mc_MaxLens
  MaxItems = 3
CONSTRAINT Bounded
INVARIANT Refinement
INVARIANT SameResults
INVARIANT Capacity
CHECK_DEADLOCK FALSE
