\* 2 producers, 1 consumer: deliveries in push-commit order
SPECIFICATION Spec
CONSTANTS
  Producers = {p1, p2}
  Consumers = {c1}
  PerProducer = 2
  PullsEach = 2
  Dev <- mc_NoDev
  Kills = FALSE
INVARIANT AtMostOnce
INVARIANT NoLoss
INVARIANT KeysIncrease
INVARIANT Fifo
CHECK_DEADLOCK FALSE
