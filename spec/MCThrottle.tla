---- MODULE MCThrottle ----
EXTENDS Throttle
mc_NoDev == {}
mc_NoCap == {"D_no_cap"}
====
