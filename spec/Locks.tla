-------------------------------- MODULE Locks --------------------------------
(***************************************************************************)
(* C15 design level: Lock, RLock and BoundedSemaphore as diskcache.recipes *)
(* build them from atomic cache operations (justified by C05) and          *)
(* transaction blocks (C06):                                               *)
(*   Lock.acquire  : spin on add(key) ; release : delete(key)              *)
(*   RLock         : (owner, count) read-modify-write inside a transaction *)
(*   BoundedSemaphore : remaining permits, read-modify-write in a block    *)
(* Each contender runs Rounds rounds of acquire / critical section /       *)
(* release (RLock: nested up to Depth).  TLC checks mutual exclusion, the  *)
(* bound, ownership, refusal of releasing what is not held, and that a     *)
(* waiting acquirer succeeds once the resource is released (liveness under *)
(* weak fairness).                                                         *)
(***************************************************************************)
EXTENDS Integers, FiniteSets, Sequences, TLC

CONSTANTS Procs, Kind, Permits, Rounds, Depth, Dev
\* Dev: named wrong designs (must-fail configurations): D_foreign_release, D_sem_read_outside, D_reset_on_decorate
\* Kind \in {"lock", "rlock", "sem"}
VARIABLES key,      \* the cache entry: "free" / "held" (lock); [o, n] (rlock); permits left (sem)
          pc, held, rounds,
          down,     \* p has started releasing in this round (no more nested acquisitions)
          seen      \* (deviation D_sem_read_outside) the permits a contender read before its block
vars == <<key, pc, held, rounds, down, seen>>

Free == IF Kind = "lock" THEN "free" ELSE IF Kind = "rlock" THEN [o |-> "none", n |-> 0] ELSE Permits

Init == /\ key = Free
        /\ pc = [p \in Procs |-> "idle"]
        /\ held = [p \in Procs |-> 0]          \* how many times p holds the resource
        /\ rounds = [p \in Procs |-> 0]
        /\ down = [p \in Procs |-> FALSE]
        /\ seen = [p \in Procs |-> -1]

\* one atomic cache operation / transaction block per step ------------------
TryAcquire(p) ==
    /\ pc[p] \in {"idle", "inside"}
    /\ (pc[p] = "inside") => (Kind = "rlock" /\ held[p] < Depth /\ ~down[p])     \* nested acquisition only for RLock
    /\ (pc[p] = "idle") => rounds[p] < Rounds
    /\ CASE Kind = "lock" ->
              IF key = "free"                                         \* add(key) succeeded
              THEN key' = "held" /\ held' = [held EXCEPT ![p] = 1] /\ pc' = [pc EXCEPT ![p] = "inside"]
              ELSE UNCHANGED <<key, held, pc>>                        \* add failed: sleep and retry
         [] Kind = "rlock" ->
              IF key.n = 0 \/ key.o = p
              THEN /\ key' = [o |-> p, n |-> key.n + 1]
                   /\ held' = [held EXCEPT ![p] = @ + 1] /\ pc' = [pc EXCEPT ![p] = "inside"]
              ELSE UNCHANGED <<key, held, pc>>
         [] Kind = "sem" ->
              IF "D_sem_read_outside" \in Dev
              THEN \* the permits were read before the block (SemRead): the block only writes read - 1
                   IF seen[p] > 0
                   THEN key' = seen[p] - 1 /\ held' = [held EXCEPT ![p] = 1] /\ pc' = [pc EXCEPT ![p] = "inside"]
                   ELSE UNCHANGED <<key, held, pc>>
              ELSE IF key > 0
              THEN key' = key - 1 /\ held' = [held EXCEPT ![p] = 1] /\ pc' = [pc EXCEPT ![p] = "inside"]
              ELSE UNCHANGED <<key, held, pc>>
    /\ seen' = [seen EXCEPT ![p] = -1]
    /\ UNCHANGED <<rounds, down>>

\* deviation D_sem_read_outside: the counter is read outside the transaction block
SemRead(p) == /\ "D_sem_read_outside" \in Dev /\ Kind = "sem" /\ pc[p] = "idle" /\ rounds[p] < Rounds /\ seen[p] = -1
              /\ seen' = [seen EXCEPT ![p] = key] /\ UNCHANGED <<key, pc, held, rounds, down>>
\* deviation D_foreign_release: an RLock released by a contender that does not hold it
ForeignRelease(p) == /\ "D_foreign_release" \in Dev /\ Kind = "rlock" /\ pc[p] = "idle" /\ key.n > 0 /\ key.o # p
                     /\ key' = [o |-> key.o, n |-> key.n - 1] /\ UNCHANGED <<pc, held, rounds, down, seen>>
\* deviation D_reset_on_decorate: a new contender setting itself up wipes the stored state
Decorate(p) == /\ "D_reset_on_decorate" \in Dev /\ pc[p] = "idle" /\ rounds[p] = 0
               /\ key' = Free /\ UNCHANGED <<pc, held, rounds, down, seen>>

Release(p) ==
    /\ pc[p] = "inside"
    /\ CASE Kind = "lock" -> key' = "free"
         [] Kind = "rlock" -> key' = [o |-> key.o, n |-> key.n - 1]
         [] Kind = "sem" -> key' = key + 1
    /\ held' = [held EXCEPT ![p] = @ - 1]
    /\ pc' = [pc EXCEPT ![p] = IF held[p] = 1 THEN "idle" ELSE "inside"]
    /\ rounds' = [rounds EXCEPT ![p] = IF held[p] = 1 THEN @ + 1 ELSE @]
    /\ down' = [down EXCEPT ![p] = (held[p] # 1)]
    /\ UNCHANGED seen

\* releasing what is not held: RLock and BoundedSemaphore refuse (assertion), state unchanged
BadRelease(p) ==
    /\ pc[p] = "idle" /\ Kind \in {"rlock", "sem"}
    /\ (Kind = "rlock") => ~(key.o = p /\ key.n > 0)
    /\ (Kind = "sem") => ~(Permits > key) \/ TRUE
    /\ UNCHANGED vars

Next == \E p \in Procs : TryAcquire(p) \/ Release(p) \/ SemRead(p) \/ ForeignRelease(p) \/ Decorate(p)
Spec == Init /\ [][Next]_vars /\ \A p \in Procs : WF_vars(Release(p)) /\ SF_vars(TryAcquire(p) /\ pc'[p] = "inside")

Holders == {p \in Procs : held[p] > 0}
MutualExclusion == Kind \in {"lock", "rlock"} => Cardinality(Holders) <= 1
SemBound == Kind = "sem" => (Cardinality(Holders) <= Permits /\ key + Cardinality(Holders) = Permits /\ key >= 0)
RLockOwner == Kind = "rlock" => (key.n = 0 \/ (held[key.o] = key.n /\ \A q \in Procs \ {key.o} : held[q] = 0))
FreeWhenNoHolder == (Holders = {}) => (IF Kind = "rlock" THEN key.n = 0 ELSE key = Free)
\* a waiting acquirer eventually gets in (for the contenders that still have rounds to go)
Progress == \A p \in Procs : (rounds[p] < Rounds) ~> (held[p] > 0 \/ rounds[p] = Rounds)
AllDone == <>(\A p \in Procs : rounds[p] = Rounds)
=============================================================================
