------------------------------- MODULE IndexSeq -------------------------------
(***************************************************************************)
(* C12 design level.  Two state machines run in lock step:                 *)
(*   X : the pure insertion-ordered dictionary (IndexOps = OrderedDict)    *)
(*   S : a cache (CacheOps, policy none, no expiry) driven the way         *)
(*       diskcache.Index composes cache operations: item access = indexing *)
(*       forms, pop = pop with default, popitem = peekitem + delete in one *)
(*       block, setdefault = look up / add / look up again, update = one   *)
(*       assignment per pair, views = iteration in insertion order + one   *)
(*       lookup per key, membership = "try self[key]".                     *)
(* TLC checks the refinement Abs(S) = X in every reachable state and that  *)
(* both return the same result for every operation.                        *)
(***************************************************************************)
EXTENDS CacheOps, IndexOps

CONSTANTS IKeys, IVals, MaxItems
VARIABLES X, S, ok
ivars == <<X, S, ok>>

FF == <<FALSE, FALSE>>
Abs(St) == [i \in 1..Len(St.rows) |-> <<St.rows[i].key, St.rows[i].val>>]

CVal(r) == IF r.ret.k = "val" THEN IR("val", <<r.ret.v[1]>>) ELSE IKeyError
CGet(St, k) == Get(St, k, FF, "KeyError", 0)
CSet(St, k, v) == Set(St, k, v, 0, NoTtl, NoTag, 0)

CPopItem(St, last) ==
    LET p == PeekItem(St, last, FF, 0)
    IN IF p.ret.k # "item" THEN [S |-> p.S, ret |-> IKeyError]
       ELSE [S |-> Delete(p.S, p.ret.v[1], "KeyError", 0).S, ret |-> IR("item", <<p.ret.v[1], p.ret.v[2]>>)]

CSetDefault(St, k, d) ==
    LET g == CGet(St, k)
    IN IF g.ret.k = "val" THEN [S |-> g.S, ret |-> CVal(g)]
       ELSE LET a == Add(g.S, k, d, 0, NoTtl, NoTag, 0)
                g2 == CGet(a.S, k)
            IN [S |-> g2.S, ret |-> CVal(g2)]

RECURSIVE CUpdate(_, _)
CUpdate(St, pairs) == IF pairs = <<>> THEN St ELSE CUpdate(CSet(St, pairs[1][1], pairs[1][2]).S, Tail(pairs))

CView(St, what, rev) ==
    LET ks == Iter(St, rev).ret.v
    IN IR(what, [i \in DOMAIN ks |-> CASE what = "keys" -> ks[i]
                                        [] what = "values" -> CGet(St, ks[i]).ret.v[1]
                                        [] OTHER -> <<ks[i], CGet(St, ks[i]).ret.v[1]>>])

Init == /\ X = <<>>
        /\ S = EmptyCache("none", 10, 1000000, FALSE)
        /\ ok = TRUE

Step(xres, S2, cret) == /\ X' = xres.X /\ S' = S2 /\ ok' = (xres.ret = cret)

Next ==
    \/ \E k \in IKeys, v \in IVals : Step(ISet(X, k, v), CSet(S, k, v).S, INone)
    \/ \E k \in IKeys : LET g == CGet(S, k) IN Step(IGet(X, k), g.S, CVal(g))
    \/ \E k \in IKeys : LET d == Delete(S, k, "KeyError", 0)
                        IN Step(IDel(X, k), d.S, IF d.ret.k = "KeyError" THEN IKeyError ELSE INone)
    \/ \E k \in IKeys, d \in {<<>>} \cup {<<v>> : v \in IVals} :
          LET p == Pop(S, k, FF, 0)
          IN Step(IPopKey(X, k, d), p.S, IF p.ret.k = "val" THEN IR("val", <<p.ret.v[1]>>)
                                         ELSE IF d = <<>> THEN IKeyError ELSE IR("val", d))
    \/ \E last \in BOOLEAN : LET p == CPopItem(S, last) IN Step(IPopItem(X, last), p.S, p.ret)
    \/ \E last \in BOOLEAN : LET p == PeekItem(S, last, FF, 0)
                             IN Step(IPeekItem(X, last), p.S,
                                     IF p.ret.k = "item" THEN IR("item", <<p.ret.v[1], p.ret.v[2]>>) ELSE IKeyError)
    \/ \E k \in IKeys, d \in IVals : LET r == CSetDefault(S, k, d) IN Step(ISetDefault(X, k, d), r.S, r.ret)
    \/ \E k1, k2 \in IKeys, v1, v2 \in IVals :
          Step(IUpdate(X, <<<<k1, v1>>, <<k2, v2>>>>), CUpdate(S, <<<<k1, v1>>, <<k2, v2>>>>), INone)
    \/ \E k \in IKeys : LET g == CGet(S, k)
                        IN Step(IContains(X, k), g.S, IR(IF g.ret.k = "val" THEN "true" ELSE "false", <<>>))
    \/ Step(ILen(X), S, IR("int", <<Length(S).ret.v[1]>>))
    \/ Step(IClear(X), Clear(S).S, INone)
    \/ \E what \in {"keys", "values", "items"}, rev \in BOOLEAN : Step(IView(X, what, rev), S, CView(S, what, rev))

Spec == Init /\ [][Next]_ivars

Bounded == Len(X) <= MaxItems
Refinement == Abs(S) = X
SameResults == ok
UniqueKeysX == \A i, j \in DOMAIN X : X[i][1] = X[j][1] => i = j
=============================================================================
