-------------------------------- MODULE MCSeq --------------------------------
(* Constant definitions for the exhaustive / simulation configs of CacheSeq *)
EXTENDS CacheSeq
mc_QIntStart == <<0, 5, 0>>
mc_QIntMax   == <<0, 9, 9>>
mc_QDigits   == <<53, 48>>                 \* "50"
mc_Ka == <<1, 97>>                         \* 'a'
mc_Kb == <<1, 98>>                         \* 'b'
mc_Kc == <<1, 99>>
mc_Kd == <<1, 100>>
mc_Keys2 == {mc_Ka, mc_Kb}
mc_Keys3 == {mc_Ka, mc_Kb, mc_Kc}
mc_Keys4 == {mc_Ka, mc_Kb, mc_Kc, mc_Kd}
mc_TtlsCore == {<<>>, <<0>>, <<1>>, <<-1>>}
mc_TtlsExp  == {<<>>, <<0>>, <<1>>, <<2>>, <<-1>>}
mc_TtlsNone == {<<>>}
mc_TtlsMix  == {<<>>, <<1>>}
mc_PrefNone == {}
mc_PrefQ    == {<<>>, <<97>>, <<97, 45, 53>>}     \* None, 'a', 'a-5'
mc_TtlsQ == {<<>>, <<1>>, <<-1>>}
mc_ExpOps2 == {"set", "add", "touch", "incr", "get", "contains", "pop", "delete", "expire",
               "peekitem", "cull"}
mc_KeysQ  == {<<1, 97>>, <<0, 0, 7>>}          \* ordinary keys: 'a' and the integer 7 (inside the integer queue range)
mc_KeysQ1 == {<<1, 97>>}
mc_PrefQ2 == {<<97>>, <<97, 45, 53>>}
mc_AllOps == {"set", "add", "touch", "incr", "get", "contains", "pop", "delete", "clear",
              "evict", "expire", "push", "pull", "peek", "peekitem", "len", "iter", "stats", "cull"}
mc_CoreOps == {"set", "add", "touch", "incr", "get", "contains", "pop", "delete", "clear", "evict", "expire"}
mc_DictOps == {"set", "add", "touch", "incr", "get", "pop", "delete"}
mc_ExpOps  == {"set", "add", "touch", "incr", "get", "contains", "pop", "delete", "expire",
               "pull", "peek", "peekitem", "push", "cull"}
mc_EvictOps == {"set", "add", "incr", "get", "cull", "delete"}
mc_QueueOps == {"push", "pull", "peek", "set", "delete", "get"}
mc_IterOps == {"set", "delete", "iter", "peekitem", "len", "pop"}
mc_StatOps == {"set", "get", "stats", "delete"}
==============================================================================
