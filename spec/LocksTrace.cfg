SPECIFICATION LSpec
CHECK_DEADLOCK FALSE
