\* C09 quick: 2 keys, one file size, policies lru/lfu, cull limit {1,2}
SPECIFICATION Spec
CONSTANTS
  QBase = 10
  QIntStart <- mc_QIntStart
  QIntMax <- mc_QIntMax
  QDigits <- mc_QDigits
  CullBatch = 2
  Keys <- mc_Keys2
  Vals = {1, 100011}
  FileVals = {100011}
  Tags = {}
  Ttls <- mc_TtlsNone
  QPrefixes <- mc_PrefNone
  MaxNow = 2
  Policies = {"lru", "lfu"}
  CullLimits = {1, 2}
  Limits = {3}
  MaxRows = 2
  MaxCtr = 2
  Ops <- mc_EvictOps
CONSTRAINT Bounded
VIEW View
CHECK_DEADLOCK FALSE
INVARIANT UniqueKeys
INVARIANT ExpiredInvisible
INVARIANT LiveVisible
PROPERTY NoSpuriousRemoval
PROPERTY ExplicitRemovalExact
PROPERTY NoExpiryNeverExpires
PROPERTY ExpireComplete
PROPERTY LazyCullBounded
PROPERTY NoEarlyEviction
PROPERTY EvictionOrder
PROPERTY NoneNeverEvicts
PROPERTY CullPost
PROPERTY StatsExact
