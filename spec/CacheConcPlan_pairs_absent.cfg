SPECIFICATION PSpec
CONSTANTS
  Clients <- mc_Clients2
  Programs <- mc_ProgPairs
  Keys <- mc_Keys
  MaxFiles = 5
  Dev <- mc_NoDev
  KillAllowed <- mc_NoKill
  InitRows <- mc_Init_absent
  PlanSample = 3
CONSTRAINT PlanOut
VIEW PlanView
CHECK_DEADLOCK FALSE
