----------------------------- MODULE MonitorTrace -----------------------------
(***************************************************************************)
(* Property-level monitor for executions of several clients (threads or    *)
(* processes) on one cache directory, recorded at the library's boundary   *)
(* with SQLite and the file system under a deterministic scheduler.        *)
(*                                                                         *)
(* The monitor knows NOTHING about how diskcache orders its statements.    *)
(* It keeps the environment state (committed contents, write lock, value   *)
(* files, calls in flight) and checks, event by event:                     *)
(*                                                                         *)
(*  StepRefinement (C05, C10, C20): the contents published by a COMMIT are *)
(*     exactly the CacheOps step of the call that made it, applied to the  *)
(*     contents committed just before; the call later returns that step's  *)
(*     return value.  A call that never commits (lock-free lookups)        *)
(*     returns what the reference dictionary returns on SOME contents that *)
(*     were committed between its start and its end; the only tolerated    *)
(*     anomaly is a miss when the same key was written or removed in       *)
(*     between.                                                            *)
(*  BlockAtomicity (C06): the calls of a transaction block are steps on a  *)
(*     private working copy that becomes the committed contents at the one *)
(*     COMMIT of the outermost block, or is discarded by ROLLBACK.         *)
(*  CommittedRefsComplete (C07): after EVERY event each committed item     *)
(*     that keeps its value in a file names an existing, completely        *)
(*     written file; so a kill at any instant leaves every present key     *)
(*     readable.                                                           *)
(*  QuiescentAgreement (C08): whenever no call is in flight, counters =    *)
(*     rows, and the set of value files = the set of referenced files.     *)
(*  TimeoutClean (C14): a call that ends in Timeout committed nothing.     *)
(*                                                                         *)
(* The monitor is total and deterministic: one verdict line per trace.     *)
(***************************************************************************)
EXTENDS CacheDispatch, Json, IOUtils, TLCExt

CONSTANT Dev      \* names of known deviations that are reported, not rejected

tr_QIntStart == <<0, 50000000, 0>>
tr_QIntMax   == <<0, 99999999, 9999999>>
tr_QDigits   == <<53, 48, 48, 48, 48, 48, 48, 48, 48, 48, 48, 48, 48, 48, 48>>
tr_Dev == {"D_inner_cleanup", "D_abort_leak"}
tr_NoDev == {}

Doc == JsonDeserialize(IOEnv.TRACE_FILE)
Traces == Doc.traces
NT == Len(Traces)
BulkPage == 100

VARIABLES tid, l, M, done
mvars == <<tid, l, M, done>>

NoCall == [op |-> "none"]
Clients(t) == 1..t.nc

\* observed row: <<key, val, exp, tag, size, fid>>
ObsProj(rows) == [i \in DOMAIN rows |-> <<rows[i][1], rows[i][2], rows[i][3], rows[i][4], rows[i][5]>>]
ObsRefs(rows) == {rows[i][6] : i \in {j \in DOMAIN rows : rows[j][6] >= 0}}
ObsKeySet(rows) == {rows[i][1] : i \in DOMAIN rows}
ObsCtrOK(rows, ctr) == /\ ctr[1] = Len(rows)
                       /\ ctr[2] = FoldSeq(LAMBDA r, acc : acc + r[5], 0, rows)

RowFromObs(r) == [key |-> r[1], val |-> r[2], exp |-> r[3], tag |-> r[4], size |-> r[5],
                  st |-> 0, at |-> 0, ac |-> 0]

InitMon(t) ==
    [db |-> [EmptyCache(t.init.policy, t.init.cull, t.init.limit, B(t.init.stats))
                EXCEPT !.rows = [i \in DOMAIN t.init.rows |-> RowFromObs(t.init.rows[i])],
                       !.hits = t.init.ctr[3], !.misses = t.init.ctr[4]],
     refs |-> ObsRefs(t.init.rows),
     complete |-> {t.init.files[i][1] : i \in DOMAIN t.init.files},
     partial |-> {},
     lock |-> 0,
     call |-> [c \in Clients(t) |-> NoCall],
     tx |-> [c \in Clients(t) |-> [d |-> 0, w |-> <<>>, made |-> {}]],
     now |-> 0,
     faulty |-> ("faulty" \in DOMAIN t.init /\ t.init.faulty = 1),
     sharded |-> ("sharded" \in DOMAIN t.init /\ t.init.sharded = 1),
     known |-> {}]

RowOfKey(S, k) == LET i == Find(S.rows, k) IN IF i = 0 THEN <<>> ELSE <<ProjRow(S.rows[i])>>
Changed(S1, S2) == {k \in KeysOf(S1.rows) \cup KeysOf(S2.rows) : RowOfKey(S1, k) # RowOfKey(S2, k)}

IsLoopOp(op) == op \in {"pull", "peek", "peekitem", "clear", "evict", "expire", "cull"}
IsQueueLoop(op) == op \in {"pull", "peek", "peekitem"}
HasKey(cl) == cl.op \in {"get", "contains", "set", "add", "touch", "incr", "pop", "delete"}
MissRet(cl) == IF cl.op = "get" THEN R(cl.a.mk, <<>>)
               ELSE IF cl.op = "contains" THEN RFalse
               ELSE R("no-such-return", <<>>)

\* every call record has every field, so the monitor is total whatever the
\* order of events in a (possibly broken) execution
NewCall(op, a, now, st, db) ==
    [op |-> op, a |-> a, now |-> now, st |-> st, exp |-> RNone, cand |-> {}, touched |-> {},
     pb |-> <<>>, count |-> 0, busy |-> 0, fin |-> FALSE, nochange |-> TRUE, tb |-> now,
     ukeys |-> KeysOf(db.rows), ikeys |-> KeysOf(db.rows)]

FailKinds == {"Timeout", "OSError", "OperationalError", "InterfaceError", "ProgrammingError",
              "IntegrityError", "DatabaseError", "UnicodeEncodeError", "ValueError", "StreamError", "miss", "false"}

V(ok, Mn, why) == [ok |-> ok, M |-> Mn, why |-> why]
Fail(Mo, why) == V(FALSE, Mo, why)

\* the volume decision inside a concurrent call uses the page bytes the
\* client itself logged (event "pages") since the call started
LazyCullOKc(S1, Vs, cl) ==
    IF cl.pb = <<>>
    THEN \/ CullOK(S1, Vs, cl.now, LAMBDA rows : FALSE)
         \/ CullOK(S1, Vs, cl.now, LAMBDA rows : TRUE)
    ELSE CullOK(S1, Vs, cl.now, LAMBDA rows : cl.pb[Len(cl.pb)] + SizeSum(rows) >= S1.limit)

\* A call that commits nothing is explained only by contents on which it has nothing to do: a store that reports
\* success, or a removal that reports the value, without a COMMIT did not happen.
Writer(op) == op \in {"set", "add", "incr", "touch", "pop", "delete", "push"}
CandOf(db, cl) == LET res == Dispatch(db, cl) IN
                  IF Writer(cl.op) /\ (cl.op \in {"set", "push"} \/ Proj(res.S) # Proj(db)) THEN {} ELSE {res.ret}

\* add the return values that the reference dictionary gives on newly
\* committed contents to every call that has not committed anything itself
Refresh(Mo, dbNew, chg, me) ==
    [c \in DOMAIN Mo.call |->
        LET cl == Mo.call[c] IN
        IF cl.op = "none" \/ c = me \/ cl.st # "open" \/ (IsLoopOp(cl.op) /\ ~IsQueueLoop(cl.op)) \/ Mo.tx[c].d > 0
        THEN cl
        ELSE [cl EXCEPT !.cand = @ \cup CandOf(dbNew, cl),
                        !.touched = @ \cup chg,
                        !.ukeys = @ \cup KeysOf(dbNew.rows),
                        !.ikeys = @ \cap KeysOf(dbNew.rows)]]

\* one step of a looping call at one of its commits -------------------------
QueueLoopStepAt(db, cl) ==
    LET isItem == cl.op = "peekitem"
        back == IF isItem THEN B(cl.a.last) ELSE B(cl.a.back)
        e == IF isItem THEN (IF db.rows = <<>> THEN 0 ELSE IF back THEN Len(db.rows) ELSE 1)
             ELSE Extreme(db.rows, cl.a.p, back)
    IN IF e = 0
       THEN [S |-> db, fin |-> TRUE,
             ret |-> IF isItem THEN RExc("KeyError") ELSE RMiss]
       ELSE IF ~Live(db.rows[e], cl.now)
       THEN [S |-> [db EXCEPT !.rows = RemoveAt(@, e)], fin |-> FALSE, ret |-> RNone]
       ELSE [S |-> IF cl.op = "pull" THEN [db EXCEPT !.rows = RemoveAt(@, e)] ELSE db,
             fin |-> TRUE,
             ret |-> R("item", <<db.rows[e].key>> \o Payload(db.rows[e], Fl(cl)))]
\* The queue loops look at the clock inside each of their transactions: whether the head has expired is judged at the
\* instant of that transaction (a call that waited for the lock must not hand out an item that expired meanwhile).
QueueLoopStep(db, cl0, now) ==
    \* returns [S, fin, ret]
    LET cl == [cl0 EXCEPT !.now = IF now > cl0.now THEN now ELSE cl0.now] IN
    QueueLoopStepAt(db, cl)


BulkMatches(db, cl, r) ==
    CASE cl.op = "clear"  -> TRUE
      [] cl.op = "evict"  -> cl.a.tag # NoTag /\ r.tag = cl.a.tag
      [] cl.op = "expire" -> Passed(r, cl.now)
      [] cl.op = "cull"   -> TRUE          \* expired first, then policy victims: judged loosely under concurrency
      [] OTHER -> FALSE

\* ---------------------------------------------------------------------------
OnCall(Mo, e) ==
    LET c == e.c IN
    IF Mo.call[c].op # "none" THEN Fail(Mo, "harness: call while another call of the client is in flight")
    ELSE IF e.op = "txbegin"
    THEN V(TRUE, [Mo EXCEPT !.call[c] = NewCall("txbegin", e.a, e.now, "open", Mo.db),
                            !.tx[c] = [d |-> @.d + 1, w |-> IF @.d = 0 THEN Mo.db ELSE @.w, made |-> IF @.d = 0 THEN {} ELSE @.made]], "")
    ELSE IF e.op = "txend"
    THEN V(TRUE, [Mo EXCEPT !.call[c] = NewCall("txend", e.a, e.now, "open", Mo.db)], "")
    ELSE IF e.op = "txraise"
    THEN V(TRUE, [Mo EXCEPT !.call[c] = NewCall("txraise", e.a, e.now, "open", Mo.db)], "")
    ELSE IF Mo.tx[c].d > 0
    THEN \* a call inside the client's own transaction block: a step on the working copy
         LET cl0 == [op |-> e.op, a |-> e.a, now |-> e.now]
             res == Dispatch(Mo.tx[c].w, cl0)
         IN V(TRUE, [Mo EXCEPT !.call[c] = [NewCall(e.op, e.a, e.now, "inner", Mo.db) EXCEPT !.exp = res.ret],
                               !.tx[c].w = res.S], "")
    ELSE LET cl == NewCall(e.op, e.a, e.now, "open", Mo.db)
         IN V(TRUE, [Mo EXCEPT !.call[c] =
                        IF IsLoopOp(e.op) /\ ~IsQueueLoop(e.op) THEN cl ELSE [cl EXCEPT !.cand = CandOf(Mo.db, cl)]], "")

Publish(Mo, e, newdb0) ==
    \* common part of commit / autocommit: file references, counters, other calls
    LET \* under fault injection a lookup whose file cannot be opened is a miss: the
        \* hit/miss statistics are taken from the observation, not judged
        newdb == IF Mo.faulty THEN [newdb0 EXCEPT !.hits = e.ctr[3], !.misses = e.ctr[4]] ELSE newdb0
        refs2 == ObsRefs(e.rows)
        chg == Changed(Mo.db, newdb)
    IN IF ~ObsCtrOK(e.rows, e.ctr)
       THEN Fail(Mo, "C08 counters: count/size settings differ from the rows at commit")
       ELSE IF ~(refs2 \subseteq Mo.complete)
       THEN Fail(Mo, "C07 a committed item refers to a missing or incompletely written value file")
       ELSE IF e.ctr[3] # newdb.hits \/ e.ctr[4] # newdb.misses
       THEN Fail(Mo, "C03 statistics counters differ from the reference dictionary")
       ELSE V(TRUE, [Mo EXCEPT !.db = newdb, !.refs = refs2, !.lock = 0,
                               !.call = Refresh(Mo, newdb, chg, e.c)], "")

OnCommit(Mo, e) ==
    LET c == e.c
        cl == Mo.call[c]
    IN IF cl.op = "none" THEN Fail(Mo, "harness: commit outside any call")
       ELSE IF Mo.tx[c].d > 0
       THEN \* only the outermost block may commit, and it publishes the whole working copy at once
            IF ~(cl.op = "txend" /\ Mo.tx[c].d = 1)
            THEN Fail(Mo, "C06 COMMIT inside a transaction block before the outermost block ended")
            ELSE IF ObsProj(e.rows) # Proj(Mo.tx[c].w)
            THEN Fail(Mo, "C06 contents committed by the block differ from its operations applied in order")
            ELSE LET r == Publish(Mo, e, Mo.tx[c].w)
                 IN IF ~r.ok THEN r
                    ELSE V(TRUE, [r.M EXCEPT !.tx[c] = [d |-> 0, w |-> <<>>, made |-> {}],
                                             !.call[c].st = "committed"], "")
       ELSE IF cl.op \in {"txend", "txbegin", "txraise"}
       THEN Fail(Mo, "C06 block bookkeeping: commit without an open block")
       ELSE IF IsQueueLoop(cl.op)
       THEN LET \* the clock is read somewhere inside the transaction: any instant between its BEGIN and its COMMIT
                T == {t \in cl.tb..Mo.now : ObsProj(e.rows) = Proj(QueueLoopStep(Mo.db, cl, t).S)}
                s == QueueLoopStep(Mo.db, cl, IF T = {} THEN Mo.now ELSE CHOOSE t \in T : TRUE)
            IN IF cl.fin /\ ~Mo.faulty     \* (an unreadable value file counts as deleted: the loop goes on)
               THEN Fail(Mo, "C05 " \o cl.op \o " committed again after it had its result")
               ELSE IF ObsProj(e.rows) # Proj(s.S)
               THEN Fail(Mo, "C05/C10 " \o cl.op \o ": commit is not 'remove the expired head' / 'take the live head' of the committed contents")
               ELSE LET r == Publish(Mo, e, s.S)
                    IN IF ~r.ok THEN r
                       ELSE V(TRUE, [r.M EXCEPT !.call[c].fin = s.fin, !.call[c].exp = s.ret,
                                                !.call[c].st = "committed"], "")
       ELSE IF IsLoopOp(cl.op)
       THEN LET gone == KeysOf(Mo.db.rows) \ ObsKeySet(e.rows)
                newdb == [Mo.db EXCEPT !.rows = RemoveKeys(@, gone)]
            IN IF Cardinality(gone) > BulkPage
               THEN Fail(Mo, "C05 bulk removal removed more than one page in a transaction")
               ELSE IF \E i \in DOMAIN Mo.db.rows :
                         Mo.db.rows[i].key \in gone /\ ~BulkMatches(Mo.db, cl, Mo.db.rows[i])
               THEN Fail(Mo, "C03/C05 " \o cl.op \o " removed an item it must not remove")
               ELSE IF ObsProj(e.rows) # Proj(newdb)
               THEN Fail(Mo, "C05 " \o cl.op \o ": page commit changed something else")
               ELSE LET r == Publish(Mo, e, newdb)
                    IN IF ~r.ok THEN r
                       ELSE V(TRUE, [r.M EXCEPT !.call[c].count = @ + Cardinality(gone),
                                                !.call[c].st = "committed"], "")
       ELSE IF cl.op = "reopen"
       THEN \* opening a handle writes its settings one autocommit statement at a time: each must leave the
            \* contents alone and the counters in agreement with the rows (checked by Publish)
            IF ObsProj(e.rows) # Proj(Mo.db)
            THEN Fail(Mo, "C08/C18 opening a handle on the directory changed the stored items")
            ELSE Publish(Mo, e, Mo.db)
       ELSE IF cl.st = "committed"
       THEN Fail(Mo, "C05 a single operation committed twice (not atomic)")
       ELSE LET res == Dispatch(Mo.db, cl)
                S1 == res.S
                Vs == KeysOf(S1.rows) \ ObsKeySet(e.rows)
                S2 == [S1 EXCEPT !.rows = RemoveKeys(@, Vs)]
            IN IF ~res.cull /\ Vs # {}
               THEN Fail(Mo, "C05 commit of " \o cl.op \o " removed items: not the reference step on the contents committed just before")
               ELSE IF res.cull /\ ~LazyCullOKc(S1, Vs, cl)
               THEN Fail(Mo, "C05/C09 lazy cull at commit of " \o cl.op \o " is not admissible")
               ELSE IF ObsProj(e.rows) # Proj(S2)
               THEN Fail(Mo, "C05 contents published by the commit of " \o cl.op \o
                             " are not the reference step applied to the contents committed just before (lost update / stale read)")
               ELSE LET r == Publish(Mo, e, S2)
                    IN IF ~r.ok THEN r
                       ELSE V(TRUE, [r.M EXCEPT !.call[c].st = "committed", !.call[c].exp = res.ret], "")

OnRollback(Mo, e) ==
    LET c == e.c
        cl == Mo.call[c]
    IN IF cl.op = "none" THEN V(TRUE, [Mo EXCEPT !.lock = 0], "")
       ELSE IF Mo.tx[c].d > 0 /\ cl.op # "txraise"
       THEN Fail(Mo, "C06 ROLLBACK inside a transaction block that did not raise (an inner call or block rolled back on its own)")
       ELSE IF Mo.tx[c].d > 0
       THEN \* the whole block is undone, whatever its depth
            V(TRUE, [Mo EXCEPT !.tx[c] = [d |-> 0, w |-> <<>>, made |-> @.made], !.lock = 0,
                               !.call[c].st = "rolled"], "")
       ELSE IF IsLoopOp(cl.op)
       THEN V(TRUE, [Mo EXCEPT !.lock = 0, !.call[c].st = "rolled",
                               !.call[c].exp = IF IsQueueLoop(cl.op) THEN QueueLoopStep(Mo.db, cl, Mo.now).ret ELSE RNone,
                               !.call[c].fin = TRUE], "")
       ELSE LET res == Dispatch(Mo.db, cl)
            IN V(TRUE, [Mo EXCEPT !.lock = 0, !.call[c].st = "rolled", !.call[c].exp = res.ret,
                                  !.call[c].nochange = (Proj(res.S) = Proj(Mo.db))], "")

OnRet(Mo, e) ==
    LET c == e.c
        cl == Mo.call[c]
        Mq == [Mo EXCEPT !.call[c] = NoCall]
        quiet == \A d \in DOMAIN Mq.call : Mq.call[d].op = "none"
        files == Mo.complete \cup Mo.partial
        done1 == IF quiet /\ Mq.lock = 0 /\ files # Mo.refs
                 THEN Fail(Mo, "C08 at quiescence the value files on disk differ from the files the items refer to (leaked or missing file)")
                 ELSE V(TRUE, Mq, "")
    IN IF cl.op = "none" THEN Fail(Mo, "harness: return without call")
       ELSE IF cl.op = "txbegin"
       THEN IF e.ret.k = "none" THEN V(TRUE, Mq, "")
            ELSE IF e.ret.k = "Timeout"
            THEN V(TRUE, [Mq EXCEPT !.tx[c] = [d |-> IF @.d > 0 THEN @.d - 1 ELSE 0, w |-> @.w, made |-> @.made]], "")
            ELSE Fail(Mo, "C06 transact() failed with " \o e.ret.k)
       ELSE IF cl.op = "txend"
       THEN IF Mo.tx[c].d > 1
            THEN \* inner block ended: nothing is published
                 IF cl.st = "open" THEN V(TRUE, [Mq EXCEPT !.tx[c].d = @ - 1], "")
                 ELSE Fail(Mo, "C06 an inner block committed or rolled back on its own")
            ELSE IF cl.st = "committed" /\ e.ret.k = "none" THEN done1
            ELSE Fail(Mo, "C06 the outermost block ended without publishing its effects with one COMMIT")
       ELSE IF cl.op = "txraise"
       THEN IF cl.st = "rolled" /\ e.ret.k = "aborted"
            THEN \* known finding: value files written inside the aborted block are left behind
                 IF "D_abort_leak" \in Dev /\ ((files \ Mo.refs) \cap Mo.tx[c].made) # {}
                 THEN V(TRUE, [Mq EXCEPT !.known = @ \cup {"D_abort_leak"}], "KNOWN")
                 ELSE done1
            ELSE Fail(Mo, "C06 a block that raised was not rolled back")
       ELSE IF cl.st = "inner"
       THEN IF e.ret = cl.exp THEN V(TRUE, Mq, "")
            ELSE IF Mo.faulty /\ e.ret.k \in FailKinds THEN V(TRUE, Mq, "")   \* injected failure: the block will raise
            ELSE Fail(Mo, "C06 call inside a block returned " \o ToJson(e.ret) \o
                          " but the reference dictionary on the block's own view returns " \o ToJson(cl.exp))
       ELSE IF Mo.faulty /\ e.ret.k \in FailKinds
       THEN \* fault injection (C08): the return value of the faulted call is not judged; the
            \* bookkeeping at quiescence is
            done1
       ELSE IF Mo.faulty /\ cl.st = "committed" /\ ~IsLoopOp(cl.op) /\ e.ret # cl.exp
       THEN done1
       ELSE IF e.ret.k = "Timeout"
       THEN \* C14: nothing of the call took effect (loops report what they removed)
            IF cl.st = "committed" /\ ~IsLoopOp(cl.op)
            THEN Fail(Mo, "C14 a call that timed out had already committed")
            ELSE IF Mo.sharded
            THEN Fail(Mo, "C14 a sharded cache raised Timeout instead of reporting the failure through its return value")
            ELSE IF "retry" \in DOMAIN cl.a /\ cl.a.retry = 1
            THEN Fail(Mo, "C14 Timeout although the call asked to retry (it must wait for the lock and then succeed)")
            ELSE IF cl.busy = 0
            THEN Fail(Mo, "C14 Timeout although the call never failed to obtain the write lock (a lookup that needs no write must keep working)")
            ELSE IF IsLoopOp(cl.op) /\ ~IsQueueLoop(cl.op) /\ e.ret.v # <<cl.count>>
            THEN Fail(Mo, "C14 a bulk removal that timed out must report how many items it had removed: " \o ToString(cl.count))
            ELSE done1
       ELSE IF Mo.sharded /\ cl.st = "open" /\ cl.busy > 0 /\ e.ret.k \in {"false", "none", "miss"} /\ ~IsLoopOp(cl.op)
               /\ ~("retry" \in DOMAIN cl.a /\ cl.a.retry = 1)
       THEN \* C14: sharded caches report the failure through their return value; nothing changed
            done1
       ELSE IF IsQueueLoop(cl.op)
       THEN IF cl.fin /\ e.ret = cl.exp THEN done1
            \* no transaction at all: a lock-free observation that removed nothing (an empty queue, or a peek)
            ELSE IF cl.st = "open" /\ e.ret \in cl.cand /\ (e.ret.k # "item" \/ cl.op # "pull") THEN done1
            ELSE Fail(Mo, "C05/C10 " \o cl.op \o " returned " \o ToJson(e.ret) \o " expected " \o ToJson(cl.exp))
       ELSE IF IsLoopOp(cl.op)
       THEN IF e.ret = RInt(cl.count) THEN done1
            ELSE Fail(Mo, "C05 " \o cl.op \o " returned " \o ToJson(e.ret) \o " but its commits removed " \o ToString(cl.count))
       ELSE IF cl.st = "committed"
       THEN IF e.ret = cl.exp THEN done1
            \* tolerated: pop finds its value file gone (removed by a concurrent writer of the same key) -> miss
            ELSE Fail(Mo, "C05 " \o cl.op \o " returned " \o ToJson(e.ret) \o
                          " but the reference step at its commit returns " \o ToJson(cl.exp))
       ELSE IF cl.st = "rolled"
       THEN IF e.ret = cl.exp /\ cl.nochange THEN done1
            ELSE Fail(Mo, "C05 " \o cl.op \o " rolled back and returned " \o ToJson(e.ret) \o
                          "; the reference step returns " \o ToJson(cl.exp))
       ELSE \* never committed: a lock-free observation
            IF e.ret \in cl.cand THEN done1
            \* iteration is page-wise: every key returned was present at some moment of the
            \* call, every key present throughout is returned, none twice
            ELSE IF cl.op = "iter" /\ e.ret.k = "keys"
                    /\ {e.ret.v[i] : i \in DOMAIN e.ret.v} \subseteq cl.ukeys
                    /\ cl.ikeys \subseteq {e.ret.v[i] : i \in DOMAIN e.ret.v}
                    /\ \A i, j \in DOMAIN e.ret.v : e.ret.v[i] = e.ret.v[j] => i = j
                 THEN done1
            ELSE IF HasKey(cl) /\ e.ret = MissRet(cl) /\ cl.a.k \in cl.touched THEN done1
            ELSE IF Writer(cl.op) /\ cl.cand = {}
            THEN Fail(Mo, "C05/C14 " \o cl.op \o " returned " \o ToJson(e.ret) \o " without committing anything, on contents where it had something to do")
            ELSE Fail(Mo, "C05 " \o cl.op \o " returned " \o ToJson(e.ret) \o
                          " which the reference dictionary returns on none of the contents committed during the call: "
                          \o ToJson(cl.cand))

OnFile(Mo, e) ==
    IF e.ev = "fcreate"
    THEN IF e.ok = 1
         THEN V(TRUE, [Mo EXCEPT !.partial = @ \cup {e.f},
                                 !.tx = IF e.c \in DOMAIN Mo.tx /\ Mo.tx[e.c].d > 0
                                        THEN [@ EXCEPT ![e.c].made = @ \cup {e.f}] ELSE @], "")
         ELSE V(TRUE, Mo, "")
    ELSE IF e.ev = "fwrite" THEN V(TRUE, Mo, "")
    ELSE IF e.ev = "fclose"
    THEN V(TRUE, [Mo EXCEPT !.partial = @ \ {e.f},
                            !.complete = IF e.f \in Mo.partial THEN @ \cup {e.f} ELSE @], "")
    ELSE IF e.ev = "fopen"
    THEN \* a queue loop whose item's value file has vanished (another consumer took the item) looks again
         IF e.ok = 0 /\ e.c \in DOMAIN Mo.call /\ IsQueueLoop(Mo.call[e.c].op) /\ Mo.call[e.c].fin
         THEN V(TRUE, [Mo EXCEPT !.call[e.c].fin = FALSE], "")
         ELSE V(TRUE, Mo, "")
    ELSE IF e.ev = "fremove"
    THEN IF e.ok = 0 THEN V(TRUE, Mo, "")
         ELSE IF e.f \in Mo.refs
         THEN \* a committed item still refers to this file
              IF "D_inner_cleanup" \in Dev /\ Mo.tx[e.c].d > 0 /\ Mo.lock = e.c
              THEN V(TRUE, [Mo EXCEPT !.known = @ \cup {"D_inner_cleanup"}], "KNOWN")
              ELSE Fail(Mo, "C07 a value file was removed while a committed item still refers to it (removal before the commit that drops the reference)")
         ELSE V(TRUE, [Mo EXCEPT !.complete = @ \ {e.f}, !.partial = @ \ {e.f}], "")
    ELSE V(TRUE, Mo, "")

OnFinal(Mo, e) ==
    LET onDisk == {e.files[i][1] : i \in DOMAIN e.files}
        sizeOK == \A i \in DOMAIN e.rows :
                     e.rows[i][6] >= 0 =>
                        \E j \in DOMAIN e.files : e.files[j][1] = e.rows[i][6] /\ e.files[j][2] = e.rows[i][5]
    IN IF ObsProj(e.rows) # Proj(Mo.db)
       THEN Fail(Mo, "C05 final contents differ from the last committed contents")
       ELSE IF ~ObsCtrOK(e.rows, e.ctr)
       THEN Fail(Mo, "C08 final counters differ from the rows")
       ELSE IF onDisk # ObsRefs(e.rows)
       THEN Fail(Mo, "C08 final value files on disk differ from the files the items refer to")
       ELSE IF ~sizeOK
       THEN Fail(Mo, "C08 a value file's size differs from the size recorded for its item")
       ELSE V(TRUE, Mo, "")

MStep(Mo, e) ==
    CASE e.ev = "call"     -> OnCall(Mo, e)
      [] e.ev = "ret"      -> OnRet(Mo, e)
      [] e.ev = "begin"    -> IF e.ok = 1
                              THEN IF Mo.lock # 0 /\ e.kind # "deferred"
                                   THEN Fail(Mo, "environment: two holders of the write lock")
                                   \* the block's private view starts from the contents committed
                                   \* when it obtains the lock
                                   ELSE V(TRUE, [Mo EXCEPT !.lock = IF e.kind = "deferred" THEN @ ELSE e.c,
                                                           !.call[e.c] = IF @.op = "none" THEN @ ELSE [@ EXCEPT !.tb = Mo.now],
                                                           !.tx[e.c].w = IF Mo.tx[e.c].d = 1 THEN Mo.db ELSE @], "")
                              ELSE \* a failed attempt to obtain the write lock
                                   V(TRUE, [Mo EXCEPT !.call[e.c] = IF @.op = "none" THEN @ ELSE [@ EXCEPT !.busy = @ + 1]], "")
      [] e.ev = "commit"   -> OnCommit(Mo, e)
      [] e.ev = "awrite"   -> OnCommit(Mo, e)
      [] e.ev = "rollback" -> OnRollback(Mo, e)
      [] e.ev = "pages"    -> IF Mo.call[e.c].op # "none" /\ "pb" \in DOMAIN Mo.call[e.c]
                              THEN V(TRUE, [Mo EXCEPT !.call[e.c].pb = Append(@, e.pb)], "")
                              ELSE V(TRUE, Mo, "")
      [] e.ev = "final"    -> OnFinal(Mo, e)
      [] e.ev \in {"fcreate", "fwrite", "fclose", "fopen", "fremove"} -> OnFile(Mo, e)
      [] e.ev = "tick"     -> V(TRUE, [Mo EXCEPT !.now = e.now], "")
      [] e.ev = "sqlerr"   -> V(TRUE, Mo, "")
      [] e.ev = "stuck"    -> Fail(Mo, "harness: schedule got stuck (every client waits for a lock nobody releases)")
      [] OTHER -> Fail(Mo, "harness: unknown event " \o e.ev)

\* C07 at every instant: referenced files exist and are complete
RefsComplete(Mo) == Mo.refs \subseteq Mo.complete

MInit == /\ tid \in 1..NT
         /\ l = 1
         /\ M = InitMon(Traces[tid])
         /\ done = FALSE

MNext == /\ ~done
         /\ LET t == Traces[tid]
                e == t.ev[l]
                r == MStep(M, e)
            IN IF r.ok /\ r.why = "KNOWN"
               THEN /\ PrintT("VERDICT " \o ToJson([id |-> t.id, ok |-> TRUE, n |-> l, known |-> r.M.known]))
                    /\ done' = TRUE /\ UNCHANGED <<l, M>>
               ELSE IF r.ok /\ ~RefsComplete(r.M)
               THEN /\ PrintT("VERDICT " \o ToJson([id |-> t.id, ok |-> FALSE, at |-> l, ev |-> e.ev,
                                 why |-> "C07 after this event a committed item refers to a missing or incomplete value file"]))
                    /\ done' = TRUE /\ UNCHANGED <<l, M>>
               ELSE IF r.ok
               THEN /\ M' = r.M
                    /\ l' = l + 1
                    /\ done' = (l = Len(t.ev))
                    /\ (l = Len(t.ev)) =>
                          PrintT("VERDICT " \o ToJson([id |-> t.id, ok |-> TRUE, n |-> l, known |-> r.M.known]))
               ELSE /\ PrintT("VERDICT " \o ToJson([id |-> t.id, ok |-> FALSE, at |-> l, ev |-> e.ev, why |-> r.why]))
                    /\ done' = TRUE /\ UNCHANGED <<l, M>>
         /\ UNCHANGED tid

MSpec == MInit /\ [][MNext]_mvars
=============================================================================
