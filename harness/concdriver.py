"""Run a small concurrent program (real threads, real diskcache calls) under the
deterministic scheduler and record the boundary-level trace validated by
MonitorTrace.tla."""
import os

from . import envctl, interpose, sched
from .adapters import KeyMap, ValMap, R, tag_model, exp_model
from .envctl import MachineryError
from .seqdriver import ApiAdapter, POLICY, implicit_retry


class ProgramInterrupt(BaseException):
    """A block left the way KeyboardInterrupt / SystemExit leave it: not an Exception, still rolled back."""


class ProgramAbort(Exception):
    """Raised by the harness inside a transact block (the body 'raises')."""


class ConcRunner:
    """program: {client id: [op, ...]} with ops as in seqdriver plus
         {'op': 'txbegin'} {'op': 'txend'} {'op': 'txraise'}   (transaction blocks)
         {'op': 'tick'}
       cfg: cache settings + 'shared' (one Cache object for all clients) +
            'init': [ops run before the scheduled part by a setup client]"""

    def __init__(self, cfg, program, strategy, seed=0, lockers=None, fault=None, inject=None):
        import diskcache
        self.dc = diskcache
        self.cfg = cfg
        self.program = program
        self.clock = envctl.Clock().install()
        envctl.SeededUrandom(seed, collide=bool(cfg.get('collide'))).install()
        self.dir = envctl.scratch('conc')
        interpose.install(None, self.dir)
        self.settings = dict(eviction_policy=POLICY[cfg['policy']], cull_limit=cfg['cull'],
                             size_limit=cfg['limit'], statistics=cfg['stats'],
                             disk_min_file_size=cfg.get('min_file_size', 2 ** 15))
        self.timeout = cfg.get('timeout', 0)
        self.kind = cfg.get('kind', 'cache')
        self.parent = self.dir
        if self.kind in ('fanout', 'django'):
            diskcache.FanoutCache(self.parent, shards=1, timeout=1, **self.settings).close()
            self.dir = os.path.join(self.parent, '000')
            interpose.install(None, self.dir)
        base = diskcache.Cache(self.dir, timeout=1, **self.settings)
        self.km = KeyMap(base.disk.pickle_protocol)
        self.vm = ValMap(cfg.get('min_file_size', 2 ** 15), base.disk.pickle_protocol)
        self.api = ApiAdapter(diskcache, self.km, self.vm, self.clock)
        from .dequedriver import DequeApi
        self.dapi = DequeApi(self.vm)
        try:
            from .indexdriver import IndexApi
            self.iapi = IndexApi(self.km, self.vm)
        except ImportError:
            self.iapi = None
        self.disk = base.disk
        for op in cfg.get('init', []):
            self.api.call(base, op['op'], dict(op.get('a', {})), op.get('form', 0))
        if self.kind == 'index' and cfg.get('init_pairs'):
            from .indexdriver import PYKEYS
            ix = diskcache.Index.fromcache(base)
            for k, v in cfg['init_pairs']:
                ix[PYKEYS[k]] = self.vm.to_py(v)
        if self.kind == 'deque' and cfg.get('init_items'):
            dq = diskcache.Deque.fromcache(base)
            dq.extend([self.vm.to_py(v) for v in cfg['init_items']])
        self.base = base
        self.sched = sched.Scheduler(self.dir, self.snapshot, strategy,
                                     busy_budget=cfg.get('busy_budget', 2))
        self.sched.fault = fault
        self.sched.inject = inject
        self.shared = None
        if cfg.get('shared'):
            # shared = 1: one object for all clients; 2: clients 1 and 2 share one, the others have their own
            self.shared = self.make_handle()
            # threads sharing an object also share its Python-level state: let them interleave inside a held
            # transaction and straight after the lock is released
            self.sched.yield_in_txn = True
            self.sched.yield_after_release = True
            if cfg.get('lines'):
                import os as _os
                self.sched.line_yields = _os.path.dirname(self.dc.__file__)
                self.sched.max_steps = 400000
        self.caches = {}
        self.nreal = max(program)

    def ixkey(self, mk):
        from .indexdriver import kid
        try:
            return kid(self.km.to_py(mk))
        except Exception:
            return -1

    def make_handle(self):
        if self.kind == 'deque':
            m = self.cfg.get('maxlen', -1)
            cache = self.dc.Cache(self.dir, timeout=self.timeout, eviction_policy='none')
            return self.dc.Deque.fromcache(cache, maxlen=None if m == -1 else m)
        if self.kind == 'index':
            cache = self.dc.Cache(self.dir, timeout=self.timeout, eviction_policy='none')
            return self.dc.Index.fromcache(cache)
        if self.kind == 'fanout':
            return self.dc.FanoutCache(self.parent, shards=1, timeout=self.timeout)
        if self.cfg.get('attr_yields'):
            # threads sharing the object also share its attributes: every assignment to one of them (after construction)
            # is a scheduling point, before and after the write
            drv = self

            class SharedCache(self.dc.Cache):
                def __setattr__(self, name, value):
                    ready = self.__dict__.get('_verif_ready')
                    if ready:
                        drv.sched.yield_point('attr', name, nofault=True)
                    object.__setattr__(self, name, value)
                    if ready:
                        drv.sched.yield_point('attr', name, nofault=True)
            c = SharedCache(self.dir, timeout=self.timeout)
            object.__setattr__(c, '_verif_ready', True)
            return c
        return self.dc.Cache(self.dir, timeout=self.timeout)

    # snapshot through a given connection (sees that connection's uncommitted changes)
    def snapshot(self, conn):
        raw = conn.raw if hasattr(conn, 'raw') else conn.execute
        rows = []
        sel = ('SELECT key, raw, expire_time, tag, size, mode, filename, value'
               ' FROM Cache ORDER BY rowid')
        for key, rw, exp, tag, size, mode, filename, value in raw(sel).fetchall():
            try:
                mk = self.km.to_model(self.disk.get(key, rw))
            except Exception:
                mk = [9, 1]
            fid = -1
            if filename is not None:
                full = os.path.join(self.dir, filename)
                fid = self.sched.fid(full) if hasattr(self, 'sched') else -1
            try:
                if filename is None:
                    pv = self.disk.fetch(mode, None, value, False)
                else:
                    with interpose.real_open(full, 'rb') as f:
                        data = f.read()
                    if mode == 3:
                        pv = data.decode('utf-8')
                    elif mode == 4:
                        import pickle
                        pv = pickle.loads(data)
                    else:
                        pv = data
                mv = self.vm.to_model(pv)
            except (IOError, OSError):
                mv = -2
            except Exception:
                mv = -1
            rows.append([mk, mv, exp_model(exp), tag_model(tag), size, fid])
        st = dict(raw('SELECT key, value FROM Settings').fetchall())
        return {'rows': rows, 'ctr': [st['count'], st['size'], st['hits'], st['misses']],
                'items': [r[1] for r in sorted(rows, key=lambda r: r[0])],
                'pairs': [[self.ixkey(r[0]), r[1]] for r in rows]}

    def listing(self):
        files = []
        for dp, dn, fn in os.walk(self.dir):
            for f in fn:
                if f.endswith('.val'):
                    full = os.path.join(dp, f)
                    files.append([self.sched.fid(full), os.path.getsize(full)])
        files.sort()
        return files

    def _client(self, cid, ops):
        def body(c):
            cache = self.caches[cid]
            its = []
            lockcon = [None]
            depth = [0]
            resume = [0]
            i = 0
            n = len(ops)

            def run_from(i):
                nonlocal cache
                while i < n:
                    op = ops[i]
                    name = op['op']
                    a = dict(op.get('a', {}))
                    i += 1
                    if name == 'txbegin':
                        self.sched.yield_point('call', name)
                        self.sched.emit({'ev': 'call', 'c': cid, 'op': 'txbegin', 'a': {}, 'now': self.clock.tick})
                        via = self.cfg.get('txvia', 'cache')
                        if via == 'deque':
                            txobj = self.dc.Deque.fromcache(cache).transact()
                        elif via == 'index':
                            txobj = self.dc.Index.fromcache(cache).transact()
                        else:
                            txobj = cache.transact(retry=bool(a.get('retry', 1)))
                        depth[0] += 1
                        try:
                            with txobj:
                                self.sched.emit({'ev': 'ret', 'c': cid, 'ret': R('none')})
                                i = run_from(i)
                                self.sched.yield_point('call', 'txend')
                                self.sched.emit({'ev': 'call', 'c': cid, 'op': 'txend', 'a': {}, 'now': self.clock.tick})
                            depth[0] -= 1
                            self.sched.emit({'ev': 'ret', 'c': cid, 'ret': R('none')})
                        except (ProgramAbort, ProgramInterrupt):
                            depth[0] -= 1
                            if depth[0] > 0:
                                raise                    # unwinds every enclosing block
                            self.sched.emit({'ev': 'ret', 'c': cid, 'ret': R('aborted')})
                            i = resume[0]
                        except self.dc.Timeout:
                            depth[0] -= 1
                            self.sched.emit({'ev': 'ret', 'c': cid, 'ret': R('Timeout')})
                            i = n                        # the plan assumed the block was entered: stop here
                        except sched.Stop:
                            raise
                        except Exception as exc:         # the library failed at block entry/exit: recorded, judged by the monitor
                            depth[0] -= 1
                            self.sched.emit({'ev': 'ret', 'c': cid, 'ret': R(type(exc).__name__)})
                            i = n
                        continue
                    if name == 'txend':
                        return i
                    if name == 'lock':
                        # an independent client holding the write lock: a raw connection, not diskcache code
                        self.sched.yield_point('call', name)
                        self.sched.emit({'ev': 'call', 'c': cid, 'op': 'txbegin', 'a': {}, 'now': self.clock.tick})
                        import sqlite3 as _sq
                        lockcon[0] = _sq.connect(os.path.join(self.dir, 'cache.db'), timeout=0, isolation_level=None)
                        try:
                            lockcon[0].execute('BEGIN IMMEDIATE')
                            self.sched.emit({'ev': 'ret', 'c': cid, 'ret': R('none')})
                        except _sq.OperationalError:
                            self.sched.emit({'ev': 'ret', 'c': cid, 'ret': R('Timeout')})
                            lockcon[0].close()
                            lockcon[0] = None
                        continue
                    if name == 'unlock':
                        if lockcon[0] is not None:
                            self.sched.yield_point('call', name)
                            self.sched.emit({'ev': 'call', 'c': cid, 'op': 'txend', 'a': {}, 'now': self.clock.tick})
                            lockcon[0].execute('COMMIT')
                            self.sched.emit({'ev': 'ret', 'c': cid, 'ret': R('none')})
                            lockcon[0].close()
                            lockcon[0] = None
                        continue
                    if name == 'reopen':
                        # a new handle on the same directory, opened while the other clients work (Cache.__init__ is
                        # scheduled like any call); the client continues on the new handle
                        self.sched.yield_point('call', name)
                        self.sched.emit({'ev': 'call', 'c': cid, 'op': 'reopen', 'a': {'args': 0, 'stats0': 0}, 'now': self.clock.tick})
                        try:
                            new = self.make_handle()
                            if cache is not self.shared:
                                (cache.cache if self.kind in ('deque', 'index') else cache).close()
                            cache = new
                            self.caches[cid] = new
                            ret = R('none')
                        except self.dc.Timeout:
                            ret = R('Timeout')
                        except sched.Stop:
                            raise
                        except Exception as exc:
                            ret = R(type(exc).__name__)
                        self.sched.emit({'ev': 'ret', 'c': cid, 'ret': ret})
                        continue
                    if name == 'iter_open':
                        # a suspended iterator: its own pseudo client (cid + nreal) for the monitor
                        self.sched.yield_point('call', name)
                        pc = cid + self.nreal
                        self.sched.emit({'ev': 'call', 'c': pc, 'op': 'iter',
                                         'a': {'rev': a['rev'], 'sorted': a['sorted']}, 'now': self.clock.tick})
                        if a['sorted']:
                            it = cache.iterkeys(reverse=bool(a['rev']))
                        else:
                            it = reversed(cache) if a['rev'] else iter(cache)
                        got = []
                        for _ in range(a.get('take', 1)):
                            try:
                                got.append(next(it))
                            except StopIteration:
                                break
                        its.append((it, got, pc))
                        continue
                    if name == 'iter_close':
                        if its:
                            self.sched.yield_point('call', name)
                            it, got, pc = its.pop()
                            got.extend(it)
                            self.sched.emit({'ev': 'ret', 'c': pc,
                                             'ret': R('keys', [self.km.to_model(k) for k in got])})
                        continue
                    if name == 'txraise':
                        self.sched.yield_point('call', name)
                        if depth[0] == 0:
                            continue
                        self.sched.emit({'ev': 'call', 'c': cid, 'op': 'txraise', 'a': {}, 'now': self.clock.tick})
                        resume[0] = i
                        raise (ProgramInterrupt() if i % 2 else ProgramAbort())
                    self.sched.yield_point('call', name)
                    if name == 'tick':
                        self.clock.advance(a.get('n', 1))
                        self.sched.emit({'ev': 'tick', 'c': cid, 'now': self.clock.tick})
                        continue
                    if 'v' in a and name in ('set', 'add', 'push'):
                        a['sz'] = self.vm.size(a['v'])
                    if implicit_retry(name, a, op.get('form', 0)):
                        a['retry'] = 1
                    self.sched.emit({'ev': 'call', 'c': cid, 'op': name, 'a': a, 'now': self.clock.tick})
                    if self.kind == 'deque':
                        ret = self.dapi.call(cache, name, a)
                    elif self.kind == 'index':
                        ret = self.iapi.call(cache, name, a)
                    else:
                        ret = self.api.call(cache, name, {k: v for k, v in a.items() if k != 'retry' or op.get('a', {}).get('retry')},
                                            op.get('form', 0))
                    self.sched.emit({'ev': 'ret', 'c': cid, 'ret': ret})
                    if depth[0] > 0 and self.cfg.get('faulty') and \
                            ret['k'] in ('OSError', 'OperationalError', 'StreamError', 'InterfaceError', 'ProgrammingError'):
                        # an injected failure inside a block propagates: the block raises
                        self.sched.emit({'ev': 'call', 'c': cid, 'op': 'txraise', 'a': {}, 'now': self.clock.tick})
                        resume[0] = n
                        raise ProgramAbort()
                return i

            run_from(0)
            while its:
                it, got, pc = its.pop()
                self.sched.yield_point('call', 'iter_close')
                got.extend(it)
                self.sched.emit({'ev': 'ret', 'c': pc, 'ret': R('keys', [self.km.to_model(k) for k in got])})
            if cache is not self.shared:
                (cache.cache if self.kind in ('deque', 'index') else cache).close()
        return body

    def run(self):
        try:
            for cid, ops in sorted(self.program.items()):
                share = self.shared is not None and (self.cfg.get('shared') == 1 or cid <= 2)
                cache = self.shared if share else self.make_handle()
                self.caches[cid] = cache
                # per-thread connection is opened (and its pragmas set) before the scheduled part
                warm = cache.__enter__ if self.kind == 'cache' else (lambda cc=cache: len(cc))
                if self.kind in ('deque', 'index'):
                    warm = cache.cache.__enter__
                self.sched.add_client(cid, self._client(cid, ops), warmup=warm)
            init = self.snapshot(self.base._con)
            init['files'] = self.listing()
            events = self.sched.run()
            final = self.snapshot(self.base._con)
            final['ev'] = 'final'
            final['c'] = 0
            final['files'] = self.listing()
            final['seq'] = len(events) + 1
            events.append(final)
            return {'init': {'policy': self.cfg['policy'], 'cull': self.cfg['cull'],
                             'limit': self.cfg['limit'], 'stats': 1 if self.cfg['stats'] else 0,
                             'rows': init['rows'], 'ctr': init['ctr'], 'files': init['files'],
                             'items': init['items'], 'maxlen': self.cfg.get('maxlen', -1), 'pairs': init['pairs'],
                             'shared': 1 if self.cfg.get('shared') else 0,
                             'faulty': 1 if self.cfg.get('faulty') else 0,
                             'sharded': 1 if self.kind in ('fanout', 'django') else 0},
                    'cfg': {k: v for k, v in self.cfg.items() if k != 'init'},
                    'nc': 2 * self.nreal, 'program': self.program, 'schedule': list(self.sched.choices), 'ev': events}
        finally:
            self.close()

    def close(self):
        try:
            self.base.close()
            if self.shared is not None:
                (self.shared.cache if self.kind in ('deque', 'index') else self.shared).close()
        except Exception:
            pass
        interpose.set_listener(None)
        self.clock.uninstall()
        envctl.SeededUrandom.uninstall()
        envctl.rm(self.parent)


def run_program(cfg, program, strategy, seed=0, tid=1, fault=None, inject=None):
    r = ConcRunner(cfg, program, strategy, seed, fault=fault, inject=inject)
    t = r.run()
    t['id'] = tid
    return t
