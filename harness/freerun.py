"""C05 with real OS processes running freely (no scheduler): each process stamps the start and the end of every call
with a shared counter; the merged history is checked for linearizability by TLC (LinTrace.tla)."""
import json
import multiprocessing as mp
import os
import random

from . import envctl
from .adapters import KeyMap, ValMap, R
from .envctl import MachineryError
from .seqdriver import ApiAdapter


def _worker(directory, inherited, ops, pid_, counter, logpath, barrier, seed):
    try:
        import diskcache
        envctl.SeededUrandom.uninstall()
        clock = envctl.Clock()               # not installed: real time; the histories use no expiry
        cache = inherited if inherited is not None else diskcache.Cache(directory, timeout=30)
        km = KeyMap(cache.disk.pickle_protocol)
        vm = ValMap(cache.disk.min_file_size, cache.disk.pickle_protocol)
        api = ApiAdapter(diskcache, km, vm, clock)
        out = []
        barrier.wait(30)
        for op in ops:
            a = dict(op['a'])
            with counter.get_lock():
                counter.value += 1
                s = counter.value
            out.append({'ev': 'call', 'seq': s, 'c': pid_, 'op': op['op'], 'a': a})
            if 'v' in a and op['op'] in ('set', 'add', 'push'):
                a['sz'] = vm.size(a['v'])
            ret = api.call(cache, op['op'], dict(a), op.get('form', 0))
            with counter.get_lock():
                counter.value += 1
                s = counter.value
            out.append({'ev': 'ret', 'seq': s, 'c': pid_, 'ret': ret})
        with open(logpath, 'w') as f:
            json.dump(out, f)
    except BaseException:
        import traceback
        with open(logpath, 'w') as f:
            json.dump([{'ev': 'crash', 'tb': traceback.format_exc()}], f)
    finally:
        os._exit(0)


def run_free(cfg, init_ops, program, seed=0, tid=1):
    """program: {proc: [ops]}; cfg: inherit (children use the parent's object after fork), policy 'none', no expiry."""
    import diskcache
    d = envctl.scratch('free')
    try:
        parent = diskcache.Cache(d, timeout=30, eviction_policy='none', cull_limit=0, statistics=False)
        km = KeyMap(parent.disk.pickle_protocol)
        vm = ValMap(parent.disk.min_file_size, parent.disk.pickle_protocol)
        api = ApiAdapter(diskcache, km, vm, envctl.Clock())
        initlog = []
        init_rec = []
        for op in init_ops:
            a = dict(op['a'])
            if 'v' in a and op['op'] in ('set', 'add', 'push'):
                a['sz'] = vm.size(a['v'])
            api.call(parent, op['op'], dict(a), 0)
            init_rec.append({'op': op['op'], 'a': a})
        if not cfg.get('inherit'):
            parent.close()
        counter = mp.Value('i', 0)
        n = len(program)
        barrier = mp.Barrier(n)
        pids, logs = [], []
        for p_, ops in sorted(program.items()):
            logpath = os.path.join(envctl.scratch_root(), 'free-%d-%d-%d' % (os.getpid(), tid, p_))
            logs.append(logpath)
            pid = os.fork()
            if pid == 0:
                _worker(d, parent if cfg.get('inherit') else None, ops, p_, counter, logpath, barrier, seed)
            pids.append(pid)
        for pid in pids:
            os.waitpid(pid, 0)
        events = []
        for lp in logs:
            try:
                evs = json.load(open(lp))
            finally:
                try:
                    os.unlink(lp)
                except OSError:
                    pass
            for e in evs:
                if e.get('ev') == 'crash':
                    raise MachineryError('free-running worker crashed:\n' + e['tb'])
            events += evs
        events.sort(key=lambda e: e['seq'])
        # final contents through a fresh handle
        fresh = diskcache.Cache(d, timeout=30)
        final = []
        for k in fresh:
            final.append([km.to_model(k), vm.to_model(fresh.get(k))])
        final.sort()
        with __import__('warnings').catch_warnings():
            __import__('warnings').simplefilter('always')
            warns = [str(w.message)[:40] for w in fresh.check()]
        fresh.close()
        if cfg.get('inherit'):
            parent.close()
        events.append({'ev': 'final', 'seq': len(events) + 1, 'c': 0, 'pairs': final, 'warn': sorted(set(w.split(':')[0] for w in warns))})
        return {'id': tid, 'nc': n, 'init': {'ops': init_rec},
                'cfg': cfg, 'program': program, 'ev': events}
    finally:
        envctl.rm(d)
