"""Model alphabet <-> concrete Python keys, values, tags, return values."""
import io
import pickle

from .envctl import NOEXP, Clock, MachineryError

QBASE = 10 ** 7
OPAQUE = 100000
UNIT = 1024              # size unit of file-backed values in random drivers

COMPOSITE_KEYS = [None, True, (1, 2), ('a', 1), (1, ('x', 2.5)), frozenset([1]), 2 ** 70, -2 ** 65]


def _composite_order(protocol):
    """ids of composite keys follow the bytewise order of their pickles."""
    import pickletools
    enc = [(pickletools.optimize(pickle.dumps(k, protocol=protocol)), i)
           for i, k in enumerate(COMPOSITE_KEYS)]
    enc.sort()
    return [i for _, i in enc]


class KeyMap:
    def __init__(self, protocol=pickle.HIGHEST_PROTOCOL):
        order = _composite_order(protocol)
        self.comp_by_id = {n + 1: COMPOSITE_KEYS[i] for n, i in enumerate(order)}
        self.id_by_comp = {}
        for n, i in enumerate(order):
            self.id_by_comp[self._ck(COMPOSITE_KEYS[i])] = n + 1

    @staticmethod
    def _ck(k):
        return (type(k).__name__, repr(k))

    def to_py(self, mk):
        c = mk[0]
        if c == 0:
            return mk[1] * QBASE + mk[2]
        if c == 1:
            return ''.join(chr(x) for x in mk[1:])
        if c == 2:
            return self.comp_by_id[mk[1]]
        if c == 3:
            return bytes(mk[1:])
        raise MachineryError('bad model key %r' % (mk,))

    def to_model(self, k):
        t = type(k)
        if t is int and -2 ** 63 <= k < 2 ** 63:
            return [0, k // QBASE, k % QBASE]
        if t is float and k == int(k):
            k = int(k)
            return [0, k // QBASE, k % QBASE]
        if t is str:
            return [1] + [ord(ch) for ch in k]
        if t is bytes:
            return [3] + list(k)
        ck = self._ck(k)
        if ck in self.id_by_comp:
            return [2, self.id_by_comp[ck]]
        return [9, 0]            # a key the driver never stored


class ValMap:
    """Value ids:  v < OPAQUE          the integer v itself (inline number)
                   100000 + i          short text 's<i>'            (inline)
                   101000 + i          tuple ('t', i)               (inline pickle)
                   200000 + u*100 + i  bytes of u*UNIT bytes        (file if >= threshold)
                   300000 + u*100 + i  text of u*UNIT chars         (file if >= threshold)
                   400000 + u*100 + i  list pickling to > u*UNIT    (file if >= threshold)
                   (u < 1000, i < 100)
    """

    def __init__(self, min_file_size=2 ** 15, protocol=pickle.HIGHEST_PROTOCOL, unit=UNIT):
        self.min_file_size = min_file_size
        self.protocol = protocol
        self.unit = unit

    def to_py(self, v):
        if v < OPAQUE:
            return v
        c, r = divmod(v, 100000)
        if c == 1:
            if r < 1000:
                return 's%d' % r
            if r == 2000:
                return None
            return ('t', r - 1000)
        u, i = divmod(r, 100)
        n = u * self.unit
        if c == 2:
            head = b'B%06d:' % v
            return head + bytes([65 + i % 26]) * max(0, n - len(head))
        if c == 3:
            head = 'T%06d:' % v
            fill = chr(97 + i % 26) if i % 2 == 0 else chr(0xe9 + i % 5)     # odd ids: non-ASCII (2 bytes per char)
            return head + fill * max(0, n - len(head))
        if c == 4:
            return ['L', v] + [i % 7] * n
        if c == 5:
            # a text that cannot be stored: long enough for a file, with a lone surrogate in the middle
            return 'T%06d:' % v + 'x' * (n // 2) + '\ud800' + 'y' * (n // 2)
        raise MachineryError('bad value id %r' % (v,))

    def size(self, v):
        """Expected size column: serialized length if stored in a file, else 0."""
        if v < OPAQUE:
            return 0
        py = self.to_py(v)
        if type(py) is bytes:
            n = len(py)
            return n if n >= self.min_file_size else 0
        if type(py) is str:
            return len(py.encode('utf-8', 'surrogatepass')) if len(py) >= self.min_file_size else 0
        n = len(pickle.dumps(py, protocol=self.protocol))
        return n if n >= self.min_file_size else 0

    def to_model(self, py):
        t = type(py)
        if py is None:
            return OPAQUE + 2000
        if t is int and not isinstance(py, bool):
            return py if -OPAQUE < py < OPAQUE else -3
        try:
            if t is bytes and py[:1] == b'B' and py[7:8] == b':':
                v = int(py[1:7])
                return v if self.to_py(v) == py else -1
            if t is str and py[:1] == 'T' and py[7:8] == ':':
                v = int(py[1:7])
                return v if self.to_py(v) == py else -1
            if t is str and py[:1] == 's':
                return OPAQUE + int(py[1:])
            if t is tuple and len(py) == 2 and py[0] == 't':
                return OPAQUE + 1000 + py[1]
            if t is list and len(py) >= 2 and py[0] == 'L':
                v = py[1]
                return v if self.to_py(v) == py else -1
        except Exception:
            return -1
        return -1               # partial / mixed / foreign value


class Unbindable:
    """A tag SQLite cannot bind."""


def tag_py(g):
    if g < 0:
        return Unbindable()
    return None if g == 0 else 'tag%d' % g


def tag_model(t):
    if t is None:
        return 0
    if isinstance(t, str) and t.startswith('tag'):
        return int(t[3:])
    return -1


def ttl_py(ttl):
    return None if not ttl else ttl[0]


def exp_model(t):
    return Clock.to_tick(t)


def R(kind, v=()):
    return {'k': kind, 'v': list(v)}
