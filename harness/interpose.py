"""Interposition at the library's boundary: no source hooks in /repo.

sqlite3.connect is patched to hand out connections of a Connection subclass
whose execute() reports every statement to the installed listener, before
and after it runs.  builtins.open / os.remove / os.rmdir / os.mkdir are
patched likewise for paths under a watched root.  diskcache resolves all of
these names at call time, so patching after import is equivalent to patching
before it.
"""
import builtins
import io
import os
import sqlite3
import threading

_real_connect = sqlite3.connect
_real_open = builtins.open
_real_io_open = io.open
_real_remove = os.remove
_real_unlink = os.unlink
_real_rmdir = os.rmdir
_real_mkdir = os.mkdir

_listener = None          # object with on_sql_before/after, on_file(...)
_watch_root = None
_conn_ids = {}
_conn_lock = threading.Lock()
_next_conn = [0]


class Listener:
    """Default listener: does nothing.  Subclass and override."""

    def connect_before(self, path):
        pass

    def sql_before(self, conn, sql, params):
        pass

    def sql_after(self, conn, sql, params, rows, error):
        pass

    def file_before(self, kind, path):
        pass

    def file_after(self, kind, path, info, error):
        pass


class CursorProxy:
    """Delegates to the real cursor; reports rows when they are fetched."""

    def __init__(self, cur, conn, sql, params):
        self._cur = cur
        self._conn = conn
        self._sql = sql
        self._params = params
        self._reported = False

    def _report(self, rows):
        if not self._reported and _listener is not None:
            self._reported = True
            _listener.sql_after(self._conn, self._sql, self._params, rows, None)

    def fetchall(self):
        rows = self._cur.fetchall()
        self._report(rows)
        return rows

    def fetchone(self):
        row = self._cur.fetchone()
        self._report([row] if row is not None else [])
        return row

    def fetchmany(self, *a):
        rows = self._cur.fetchmany(*a)
        self._report(rows)
        return rows

    def __iter__(self):
        got = []
        for row in self._cur:
            got.append(row)
            yield row
        self._report(got)

    def __getattr__(self, name):
        return getattr(self._cur, name)


class Conn(sqlite3.Connection):
    """sqlite3.Connection that reports every statement."""

    def execute(self, sql, params=()):
        lst = _listener
        if lst is not None:
            lst.sql_before(self, sql, params)
        try:
            cur = super().execute(sql, params)
        except BaseException as exc:
            if lst is not None:
                lst.sql_after(self, sql, params, None, exc)
            raise
        head = sql.lstrip()[:6].upper()
        if head in ('SELECT', 'PRAGMA'):
            return CursorProxy(cur, self, sql, params)
        if lst is not None:
            lst.sql_after(self, sql, params, None, None)
        return cur

    def raw(self, sql, params=()):
        """Statement issued by the harness itself: not reported."""
        return super().execute(sql, params)

    @property
    def cid(self):
        with _conn_lock:
            c = _conn_ids.get(id(self))
            if c is None:
                _next_conn[0] += 1
                c = _conn_ids[id(self)] = _next_conn[0]
            return c


def _connect(*args, **kwargs):
    kwargs.setdefault('factory', Conn)
    lst = _listener
    if lst is not None:
        try:
            lst.connect_before(os.fspath(args[0]) if args else kwargs.get('database'))      # (the database file is created here)
        except TypeError:
            pass
    con = _real_connect(*args, **kwargs)
    try:
        con._verif_path = os.fspath(args[0]) if args else kwargs.get('database')
    except Exception:
        pass
    return con


def _watched(path):
    if _watch_root is None or _listener is None:
        return False
    try:
        p = os.fspath(path)
    except TypeError:
        return False
    if isinstance(p, bytes):
        p = p.decode('utf-8', 'replace')
    return p.startswith(_watch_root) and not p.endswith(('cache.db', '-wal', '-shm', '-journal'))


class FileProxy:
    """Delegating file object reporting write chunks and close."""

    def __init__(self, f, path, mode):
        self._f = f
        self._path = path
        self._mode = mode
        self._closed = False

    def write(self, data):
        lst = _listener
        if lst is not None:
            lst.file_before('fwrite', self._path)
        try:
            n = self._f.write(data)
        except BaseException as exc:
            if lst is not None:
                lst.file_after('fwrite', self._path, None, exc)
            raise
        if lst is not None:
            lst.file_after('fwrite', self._path, len(data), None)
        return n

    def close(self):
        if self._closed:
            return self._f.close()
        self._closed = True
        writing = any(c in self._mode for c in 'wxa+')
        lst = _listener
        if writing and lst is not None:
            lst.file_before('fclose', self._path)
        r = self._f.close()
        if writing and lst is not None:
            lst.file_after('fclose', self._path, None, None)
        return r

    def __enter__(self):
        self._f.__enter__()
        return self

    def __exit__(self, *exc):
        self.close()
        return False

    def __iter__(self):
        return iter(self._f)

    def __getattr__(self, name):
        return getattr(self._f, name)


def _open(file, mode='r', *args, **kwargs):
    if not _watched(file):
        return _real_open(file, mode, *args, **kwargs)
    path = os.fspath(file)
    writing = any(c in mode for c in 'wxa+')
    kind = 'fcreate' if writing else 'fopen'
    lst = _listener
    lst.file_before(kind, path)
    try:
        f = _real_open(file, mode, *args, **kwargs)
    except BaseException as exc:
        lst.file_after(kind, path, None, exc)
        raise
    lst.file_after(kind, path, None, None)
    return FileProxy(f, path, mode)


def _mk_os(kind, real):
    def patched(path, *args, **kwargs):
        if not _watched(path):
            return real(path, *args, **kwargs)
        lst = _listener
        p = os.fspath(path)
        lst.file_before(kind, p)
        try:
            r = real(path, *args, **kwargs)
        except BaseException as exc:
            lst.file_after(kind, p, None, exc)
            raise
        lst.file_after(kind, p, None, None)
        return r
    return patched


_installed = False


def install(listener=None, watch_root=None):
    """Switch interposition on (idempotent) and set listener / watched root."""
    global _listener, _watch_root, _installed
    _listener = listener
    _watch_root = watch_root
    if _installed:
        return
    _installed = True
    sqlite3.connect = _connect
    sqlite3.dbapi2.connect = _connect
    builtins.open = _open
    io.open = _open
    os.remove = _mk_os('fremove', _real_remove)
    os.unlink = _mk_os('fremove', _real_unlink)
    os.rmdir = _mk_os('rmdir', _real_rmdir)
    os.mkdir = _mk_os('mkdir', _real_mkdir)


def set_listener(listener, watch_root=None):
    global _listener, _watch_root
    _listener = listener
    if watch_root is not None:
        _watch_root = watch_root


def uninstall():
    global _installed, _listener
    _listener = None
    if not _installed:
        return
    _installed = False
    sqlite3.connect = _real_connect
    sqlite3.dbapi2.connect = _real_connect
    builtins.open = _real_open
    io.open = _real_io_open
    os.remove = _real_remove
    os.unlink = _real_unlink
    os.rmdir = _real_rmdir
    os.mkdir = _real_mkdir


def real_connect(*a, **k):
    return _real_connect(*a, **k)


def real_open(*a, **k):
    return _real_open(*a, **k)
