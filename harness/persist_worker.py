"""A fresh interpreter performing ONE abstract operation on an existing cache directory (C18)."""
import json
import sys


def main():
    directory, tick, opjson, mfs = sys.argv[1], int(sys.argv[2]), sys.argv[3], int(sys.argv[4])
    from harness import envctl
    from harness.adapters import KeyMap, ValMap
    from harness.seqdriver import ApiAdapter
    import diskcache
    clock = envctl.Clock().install()
    clock.tick = tick
    c = diskcache.Cache(directory, timeout=5)
    api = ApiAdapter(diskcache, KeyMap(c.disk.pickle_protocol), ValMap(mfs, c.disk.pickle_protocol), clock)
    op = json.loads(opjson)
    ret = api.call(c, op['op'], op['a'], 0)
    c.close()
    print(json.dumps(ret))


if __name__ == '__main__':
    main()
