"""TLC-generated behaviours (plans) -> abstract operations for the drivers."""
from .tlc import run_tlc
from .envctl import MachineryError


def tlc_plans(module, cfg, timeout=120, seed=None):
    res = run_tlc(module, cfg, workers=1, timeout=timeout, seed=seed)
    if res.error:
        raise MachineryError(res.error)
    plans = [body for tag, body in res.prints if tag == 'PLAN']
    return plans, res


def seq_plan_to_ops(plan, unit_u=40):
    """CacheSeqPlan history -> (cfg, ops).  Model file value v (size units
    (v % 10) + 1) becomes a bytes value of that many * unit_u KiB."""
    init = plan[0]['args']
    policy, cull, limit, stats = init
    def val(v):
        if v < 100000 or v < 100010:
            return v
        units = (v % 10) + 1
        return 200000 + units * unit_u * 100 + (v % 100)
    cfg = dict(policy=policy, cull=cull, limit=limit * unit_u * 1024, stats=bool(stats))
    ops = []
    for st in plan[1:]:
        op, a = st['op'], st['args']
        b = lambda x: 1 if x else 0
        if op in ('set', 'add'):
            ops.append({'op': op, 'a': {'k': a[0], 'v': val(a[1]), 'ttl': a[2], 'tag': a[3]}})
        elif op == 'touch':
            ops.append({'op': op, 'a': {'k': a[0], 'ttl': a[1]}})
        elif op == 'incr':
            ops.append({'op': op, 'a': {'k': a[0], 'd': a[1], 'df': a[2]}})
        elif op == 'get':
            ops.append({'op': op, 'a': {'k': a[0], 'fx': b(a[1][0]), 'ft': b(a[1][1]), 'mk': a[2]}})
        elif op == 'contains':
            ops.append({'op': op, 'a': {'k': a[0]}})
        elif op == 'pop':
            ops.append({'op': op, 'a': {'k': a[0], 'fx': b(a[1][0]), 'ft': b(a[1][1])}})
        elif op == 'delete':
            ops.append({'op': op, 'a': {'k': a[0], 'mk': a[1]}})
        elif op in ('clear', 'expire', 'len', 'cull', 'tick'):
            ops.append({'op': op, 'a': {}})
        elif op == 'evict':
            ops.append({'op': op, 'a': {'tag': a[0]}})
        elif op == 'push':
            ops.append({'op': op, 'a': {'v': val(a[0]), 'p': a[1], 'back': b(a[2]), 'ttl': a[3], 'tag': 0}})
        elif op in ('pull', 'peek'):
            ops.append({'op': op, 'a': {'p': a[0], 'back': b(a[1]), 'fx': 0, 'ft': 0}})
        elif op == 'peekitem':
            ops.append({'op': op, 'a': {'last': b(a[0]), 'fx': 0, 'ft': 0}})
        elif op == 'iter':
            ops.append({'op': op, 'a': {'rev': b(a[0]), 'sorted': b(a[1])}})
        elif op == 'stats':
            ops.append({'op': op, 'a': {'en': b(a[0]), 'rs': b(a[1])}})
        else:
            raise MachineryError('plan step %r not understood' % (st,))
    return cfg, ops


def translate_queue_keys(ops):
    """Model queue alphabet (base 10, width 2) is only used for the LABELS;
    push/pull/peek carry prefixes, not keys, so nothing to translate; ordinary
    keys are used as they are."""
    return ops
