"""Shared check machinery: parallel drivers, batched TLC validation, verdicts,
known findings, evidence files."""
import json
import multiprocessing as mp
import os
import sys
import time
import traceback

from . import EVIDENCE, VERIF
from .envctl import MachineryError
from . import tlc as tlcmod

FINDINGS_FILE = os.path.join(VERIF, 'known_findings.json')
REPLAYS = os.path.join(EVIDENCE, 'replays')


def seed_from_env():
    try:
        return int(os.environ.get('VERIF_SEED', '0'))
    except ValueError:
        return 0


def known_findings(prop):
    try:
        doc = json.load(open(FINDINGS_FILE))
    except FileNotFoundError:
        return []
    return [f for f in doc.get('findings', []) if prop in f['properties'] and f['status'] == 'known']


class Outcome:
    def __init__(self, prop, tier, seed):
        self.prop = prop
        self.tier = tier
        self.seed = seed
        self.t0 = time.time()
        self.violations = []        # (description, replay_path)
        self.known_hits = {}        # finding id -> description
        self.states = 0
        self.transitions = 0
        self.traces = 0
        self.events = 0
        self.samples = []
        self.notes = {}
        self.assumptions = []
        self.level = 'model_checking'
        self.tlc_runs = []

    def add_tlc(self, name, res, constants=None):
        self.states += res.distinct
        self.transitions += res.generated
        self.tlc_runs.append({'config': name, 'distinct_states': res.distinct,
                              'states_generated': res.generated, 'depth': res.depth,
                              'wall_s': round(res.wall, 1), 'timed_out': res.timed_out,
                              'constants': constants or ''})

    def violation(self, desc, replay_doc=None):
        os.makedirs(REPLAYS, exist_ok=True)
        path = os.path.join(REPLAYS, '%s-%d.json' % (self.prop, len(self.violations) + 1))
        with open(path, 'w') as f:
            json.dump({'property': self.prop, 'what': desc, 'replay': replay_doc}, f, indent=1, default=str)
        self.violations.append((desc, path))

    def known(self, finding, desc):
        self.known_hits[finding['id']] = '%s %s' % (finding['what'], desc)

    def finish(self, extra_cov=None):
        wall = time.time() - self.t0
        cov = {'states': self.states, 'transitions': self.transitions,
               'traces_validated_against_impl': self.traces,
               'events_validated': self.events,
               'samples': self.samples[:4] or ['(none)'],
               'tlc_runs': self.tlc_runs,
               'known_findings_hit': sorted(self.known_hits),
               'exhaustive': False}
        cov.update(self.notes)
        if extra_cov:
            cov.update(extra_cov)
        ev = {'property_id': self.prop, 'tier': self.tier, 'seed': self.seed, 'level': self.level,
              'coverage': cov, 'assumptions': self.assumptions, 'wall_s': round(wall, 2),
              'violations': len(self.violations)}
        os.makedirs(EVIDENCE, exist_ok=True)
        with open(os.path.join(EVIDENCE, '%s.json' % self.prop), 'w') as f:
            json.dump(ev, f, indent=1, default=str)
        for fid, desc in sorted(self.known_hits.items()):
            print('KNOWN-FINDING: property=%s %s' % (self.prop, desc))
        for desc, path in self.violations[:20]:
            print('VIOLATION property=%s replay=%s' % (self.prop, path))
            print('  ' + desc[:600])
        print('%s %s: %d TLC states, %d traces (%d events) validated, %d violations, %.1fs'
              % (self.prop, self.tier, self.states, self.traces, self.events, len(self.violations), wall))
        return 1 if self.violations else 0


_cov = None


def cov_start():
    """VERIF_COV=<dir>: record which lines of the library a check executes (tools/covreport.sh); off otherwise."""
    global _cov
    d = os.environ.get('VERIF_COV')
    if not d:
        return
    if _cov is None or _cov[1] != os.getpid():
        import coverage
        from . import REPO
        _cov = (coverage.Coverage(data_file=os.path.join(d, '.coverage'), data_suffix=True,
                                  source=[os.path.join(REPO, 'diskcache')], concurrency=['thread']), os.getpid())
    _cov[0].start()


def cov_stop():
    if _cov is not None and _cov[1] == os.getpid():
        _cov[0].stop()
        _cov[0].save()


def _job(args):
    fn, a = args
    try:
        cov_start()
        try:
            return ('ok', fn(*a))
        finally:
            cov_stop()
    except MachineryError as exc:
        return ('machinery', str(exc))
    except BaseException:
        return ('machinery', traceback.format_exc())


def pmap(fn, arglist, procs=12):
    """Run fn(*args) for each args in separate worker processes (the drivers
    patch process-global state: clock, sqlite3.connect, open)."""
    if not arglist:
        return []
    ctx = mp.get_context('fork')
    with ctx.Pool(min(procs, len(arglist)), maxtasksperchild=50) as pool:
        out = pool.map(_job, [(fn, a) for a in arglist], chunksize=1)
    res = []
    for kind, val in out:
        if kind != 'ok':
            raise MachineryError('driver failed:\n' + val)
        res.append(val)
    return res


TRACE_FIELDS = ('id', 'nc', 'init', 'ev')     # what TLC needs (no JSON null anywhere in these)


def _validate_batch(args):
    module, cfg, traces, timeout = args
    slim = [{k: t[k] for k in TRACE_FIELDS if k in t} for t in traces]
    res, got = tlcmod.validate_traces(module, cfg, {'traces': slim}, timeout=timeout)
    return res.distinct, res.generated, res.wall, got


def validate_all(module, cfg, traces, batch_events=60000, procs=8, timeout=1500):
    """Split traces into batches, validate the batches in parallel.
    Returns (verdict dict id -> verdict, states, transitions)."""
    batches, cur, n = [], [], 0
    for t in traces:
        cur.append(t)
        n += len(t['ev'])
        if n >= batch_events:
            batches.append(cur)
            cur, n = [], 0
    if cur:
        batches.append(cur)
    out = pmap(_validate_batch_star, [((module, cfg, b, timeout),) for b in batches], procs=procs)
    verdicts, states, trans = {}, 0, 0
    for d, g, w, got in out:
        states += d
        trans += g
        for tid, vs in got.items():
            verdicts[tid] = vs[0]
    return verdicts, states, trans


def _validate_batch_star(a):
    return _validate_batch(a)


def die_machinery(prop, exc):
    print('MACHINERY-FAILURE property=%s: %s' % (prop, exc), file=sys.stderr)
    print('MACHINERY-FAILURE property=%s (see stderr)' % prop)
    sys.exit(2)
