"""./check <ID> --tier quick|thorough : exit 0 held / 1 violation / 2 machinery failure."""
import argparse
import importlib
import os
import sys
import traceback

from .common import seed_from_env, die_machinery
from .envctl import MachineryError

CHECKS = {
    'C03': ('harness.checks.seq', 'C03'), 'C04': ('harness.checks.seq', 'C04'),
    'C09': ('harness.checks.seq', 'C09'), 'C10': ('harness.checks.seq', 'C10'),
    'C05': ('harness.checks.conc', 'C05'), 'C06': ('harness.checks.conc', 'C06'), 'C08': ('harness.checks.conc', 'C08'), 'C07': ('harness.checks.kill', 'C07'), 'C14': ('harness.checks.conc', 'C14'), 'C11': ('harness.checks.deque', 'C11'), 'C12': ('harness.checks.index', 'C12'), 'C13': ('harness.checks.fanout', 'C13'), 'C19': ('harness.checks.django', 'C19'), 'C15': ('harness.checks.locks', 'C15'), 'C20': ('harness.checks.recipes', 'C20'), 'C16': ('harness.checks.memo', 'C16'), 'C17': ('harness.checks.checkfix', 'C17'), 'C01': ('harness.checks.codec', 'C01'), 'C02': ('harness.checks.keys', 'C02'), 'C18': ('harness.checks.persist', 'C18'),
}


def main():
    ap = argparse.ArgumentParser()
    ap.add_argument('prop')
    ap.add_argument('--tier', default=os.environ.get('VERIF_TIER', 'quick'), choices=['quick', 'thorough'])
    ap.add_argument('--replay')
    args = ap.parse_args()
    if args.prop not in CHECKS:
        print('no check registered for %s' % args.prop)
        sys.exit(2)
    # everything the library or a tool puts into "the temporary directory" (Cache() without a directory, reverse() of a
    # Deque, SANY's unpacked modules, ...) goes under this run's scratch root, which is removed when the run ends
    import tempfile
    from . import envctl
    tmp = os.path.join(envctl.scratch_root(), 'tmp')
    os.makedirs(tmp, exist_ok=True)
    os.environ['TMPDIR'] = tmp
    tempfile.tempdir = tmp
    modname, prop = CHECKS[args.prop]
    mod = importlib.import_module(modname)
    from .common import cov_start, cov_stop
    cov_start()
    import atexit
    atexit.register(cov_stop)
    try:
        if args.replay:
            rc = mod.replay(prop, args.replay)
        else:
            rc = mod.run(prop, args.tier, seed_from_env())
    except MachineryError as exc:
        die_machinery(args.prop, exc)
    except SystemExit:
        raise
    except BaseException:
        die_machinery(args.prop, traceback.format_exc())
    sys.stdout.flush()
    sys.exit(rc)


if __name__ == '__main__':
    main()
