"""C07: kill a process at a chosen boundary event, then look at the directory
with a fresh handle.  The victim is a forked child that runs real diskcache
calls; it SIGKILLs itself immediately before its n-th database statement /
file operation (or is killed asynchronously by the parent)."""
import json
import os
import signal
import sys
import time
import warnings

from . import envctl, interpose
from .adapters import KeyMap, ValMap, R, tag_model, exp_model
from .envctl import MachineryError
from .seqdriver import ApiAdapter, POLICY


class AbortExc(Exception):
    pass


class AbortBase(KeyboardInterrupt):
    """A BaseException that is not an Exception (Ctrl-C, SystemExit, GeneratorExit ...)."""


class KillListener(interpose.Listener):
    def __init__(self, kill_at):
        self.kill_at = kill_at      # 0 = never
        self.count = 0
        self.kinds = []

    def _pt(self, kind):
        self.count += 1
        self.kinds.append(kind)
        if self.count == self.kill_at:
            os.kill(os.getpid(), signal.SIGKILL)

    def sql_before(self, conn, sql, params):
        self._pt('sql:' + sql.lstrip()[:6].upper())

    def file_before(self, kind, path):
        self._pt(kind)


def _child(directory, cfg, ops, kill_at, logfd, countfd):
    """Runs in the forked child; never returns."""
    try:
        import diskcache
        clock = envctl.Clock().install()
        clock.tick = cfg.get('now', 0)
        envctl.SeededUrandom(cfg.get('seed', 1)).install()
        lst = KillListener(kill_at)
        interpose.install(None, directory)
        if cfg.get('fresh'):
            # the victim CREATES the cache: every statement and file operation of the first open is a kill point
            interpose.set_listener(lst, directory)
            cache = diskcache.Cache(directory, timeout=1, eviction_policy=POLICY[cfg['policy']], cull_limit=cfg['cull'],
                                    size_limit=cfg['limit'], statistics=cfg['stats'], disk_min_file_size=FRESH_MIN_FILE)
        else:
            cache = diskcache.Cache(directory, timeout=1)
            cache.__enter__()                               # connection opened before the counted part
        km = KeyMap(cache.disk.pickle_protocol)
        vm = ValMap(cache.disk.min_file_size, cache.disk.pickle_protocol)
        api = ApiAdapter(diskcache, km, vm, clock)
        obj = {'cache': cache}
        interpose.set_listener(lst, directory)

        def log(ev):
            os.write(logfd, (json.dumps(ev) + '\n').encode())

        resume = [0]

        def run(i, depth):
            n = len(ops)
            while i < n:
                op = ops[i]
                name, a = op['op'], dict(op.get('a', {}))
                i += 1
                if name == 'txbegin':
                    log({'ev': 'call', 'op': 'txbegin', 'a': {}, 'now': clock.tick})
                    try:
                        with cache.transact(retry=True):
                            log({'ev': 'ret', 'ret': R('none')})
                            i = run(i, depth + 1)
                            log({'ev': 'call', 'op': 'txend', 'a': {}, 'now': clock.tick})
                        log({'ev': 'ret', 'ret': R('none')})
                    except (AbortExc, AbortBase):
                        if depth > 0:
                            raise
                        log({'ev': 'ret', 'ret': R('aborted')})
                        i = resume[0]
                    continue
                if name == 'txraise':
                    if depth == 0:
                        continue
                    log({'ev': 'call', 'op': 'txraise', 'a': {}, 'now': clock.tick})
                    resume[0] = i
                    raise (AbortBase() if a.get('base') else AbortExc())
                if name == 'txend':
                    return i
                if 'v' in a and name in ('set', 'add', 'push'):
                    a['sz'] = vm.size(a['v'])
                log({'ev': 'call', 'op': name, 'a': a, 'now': clock.tick})
                ret = api.call(cache, name, a, op.get('form', 0))
                log({'ev': 'ret', 'ret': ret})
            return i

        run(0, 0)
        interpose.set_listener(None)
        os.write(countfd, json.dumps({'n': lst.count, 'kinds': lst.kinds}).encode())
        cache.close()
    except BaseException:
        import traceback
        os.write(logfd, (json.dumps({'ev': 'crash', 'tb': traceback.format_exc()}) + '\n').encode())
    finally:
        os._exit(0)


FRESH_MIN_FILE = 2 ** 14      # a non-default setting of the creating victim


def setup_dir(cfg, init_ops):
    import diskcache
    d = envctl.scratch('kill')
    if cfg.get('fresh'):
        return d, []
    clock = envctl.Clock().install()
    try:
        envctl.SeededUrandom(7).install()
        c = diskcache.Cache(d, timeout=1, eviction_policy=POLICY[cfg['policy']], cull_limit=cfg['cull'],
                            size_limit=cfg['limit'], statistics=cfg['stats'])
        km = KeyMap(c.disk.pickle_protocol)
        vm = ValMap(c.disk.min_file_size, c.disk.pickle_protocol)
        api = ApiAdapter(diskcache, km, vm, clock)
        log = []
        for op in init_ops:
            a = dict(op.get('a', {}))
            if 'v' in a and op['op'] in ('set', 'add', 'push'):
                a['sz'] = vm.size(a['v'])
            log.append({'ev': 'call', 'op': op['op'], 'a': a, 'now': clock.tick})
            log.append({'ev': 'ret', 'ret': api.call(c, op['op'], a, op.get('form', 0))})
        c.close()
    finally:
        clock.uninstall()
        envctl.SeededUrandom.uninstall()
    return d, log


def observe(directory, cfg, files0=None):
    """What a fresh handle sees after the kill (all through public API + raw reads)."""
    import diskcache
    obs = {'ev': 'obs', 'opened': 0, 'wrote': 0, 'clean2': 0, 'warn1': [], 'readable': 1, 'settings_bad': [], 'count_follows': 1}
    clock = envctl.Clock().install()
    clock.tick = cfg.get('now', 0)
    try:
        c = diskcache.Cache(directory, timeout=2)
        obs['opened'] = 1
        # every setting is there, with the default or with what the creating process asked for
        wanted = dict(diskcache.DEFAULT_SETTINGS)
        mine = {'eviction_policy': POLICY[cfg['policy']], 'cull_limit': cfg['cull'], 'size_limit': cfg['limit'],
                'statistics': 1 if cfg['stats'] else 0, 'disk_min_file_size': FRESH_MIN_FILE if cfg.get('fresh') else wanted['disk_min_file_size']}
        bad = []
        for k_, dv in wanted.items():
            try:
                got_ = getattr(c, k_)
            except AttributeError:
                bad.append(k_)
                continue
            if got_ != dv and got_ != mine.get(k_, dv) and int(got_) != int(mine.get(k_, dv)):
                bad.append(k_)
        obs['settings_bad'] = sorted(bad)
        km = KeyMap(c.disk.pickle_protocol)
        vm = ValMap(c.disk.min_file_size, c.disk.pickle_protocol)
        con = interpose.real_connect(os.path.join(directory, 'cache.db'), timeout=2, isolation_level=None)
        rows = []
        sel = 'SELECT key, raw, expire_time, tag, size, mode, filename, value FROM Cache ORDER BY rowid'
        sizes_ok = 1
        for key, raw, exp, tag, size, mode, filename, value in con.execute(sel).fetchall():
            pk = c.disk.get(key, raw)
            mk = km.to_model(pk)
            # every key reported present must yield a complete value through the public API
            live = exp is None or exp > clock.time()
            try:
                if live:
                    SENT = object()
                    got = c.get(pk, default=SENT)
                    mv = -2 if got is SENT else vm.to_model(got)
                else:
                    # an expired item is not "reported present"; its stored value is read directly
                    mv = vm.to_model(c.disk.fetch(mode, filename, value, False))
            except (IOError, OSError):
                mv = -2
            except Exception:
                mv = -1
            if filename is not None:
                full = os.path.join(directory, filename)
                if not os.path.exists(full) or os.path.getsize(full) != size:
                    sizes_ok = 0
            rows.append([mk, mv, exp_model(exp), tag_model(tag), size])
        st = dict(con.execute('SELECT key, value FROM Settings').fetchall())
        con.close()
        obs['rows'] = rows
        obs['ctr'] = [st['count'], st['size'], st['hits'], st['misses']]
        obs['sizes_ok'] = sizes_ok
        with warnings.catch_warnings():
            warnings.simplefilter('always')
            w1 = c.check()
        kinds = []
        for w in w1:
            m = str(w.message)
            kinds.append('unknown-file' if m.startswith('unknown file') else
                         'empty-dir' if m.startswith('empty directory') else
                         'file-not-found' if m.startswith('file not found') else
                         'wrong-size' if m.startswith('wrong file size') else
                         'count' if 'Settings.count' in m else 'size' if 'Settings.size' in m else 'other')
        obs['warn1'] = sorted(set(kinds))
        try:
            c.set('__verif_probe__', 1)
            # the bookkeeping follows a write made after the kill (the counters are maintained by the database itself)
            con2 = interpose.real_connect(os.path.join(directory, 'cache.db'), timeout=2, isolation_level=None)
            ((nrows,),) = con2.execute('SELECT COUNT(*) FROM Cache').fetchall()
            con2.close()
            obs['count_follows'] = 1 if len(c) == nrows else 0
            del c['__verif_probe__']
            obs['wrote'] = 1
        except Exception:
            obs['wrote'] = 0
        with warnings.catch_warnings():
            warnings.simplefilter('always')
            c.check(fix=True)
            w2 = c.check()
        obs['clean2'] = 1 if not w2 else 0
        c.close()
    except Exception as exc:
        obs['error'] = type(exc).__name__
    finally:
        clock.uninstall()
    return obs


def run_kill(cfg, init_ops, ops, kill_at, tid=1, async_delay=None):
    """One victim run.  kill_at = 0: run to completion (returns the number of kill points)."""
    d, initlog = setup_dir(cfg, init_ops)
    try:
        logpath = os.path.join(envctl.scratch_root(), 'log-%d-%d' % (os.getpid(), tid))
        logfd = os.open(logpath, os.O_WRONLY | os.O_CREAT | os.O_TRUNC | os.O_APPEND)
        r, w = os.pipe()
        pid = os.fork()
        if pid == 0:
            os.close(r)
            _child(d, cfg, ops, kill_at, logfd, w)
        os.close(w)
        if async_delay is not None:
            time.sleep(async_delay)
            try:
                os.kill(pid, signal.SIGKILL)
            except ProcessLookupError:
                pass
        _, status = os.waitpid(pid, 0)
        data = b''
        while True:
            chunk = os.read(r, 65536)
            if not chunk:
                break
            data += chunk
        os.close(r)
        os.close(logfd)
        killed = os.WIFSIGNALED(status)
        events = initlog + [json.loads(l) for l in open(logpath).read().splitlines() if l.strip()]
        os.unlink(logpath)
        for e in events:
            if e.get('ev') == 'crash':
                raise MachineryError('victim crashed:\n' + e['tb'])
        info = json.loads(data.decode()) if data else {}
        if kill_at == 0 and async_delay is None:
            if not info:
                raise MachineryError('counting run died')
        events.append({'ev': 'killed', 'k': 1 if killed else 0})
        events.append(observe(d, cfg))
        return {'id': tid, 'init': {'policy': cfg['policy'], 'cull': cfg['cull'], 'limit': cfg['limit'],
                                    'stats': 1 if cfg['stats'] else 0},
                'initops': init_ops, 'ops': ops, 'kill_at': kill_at, 'points': info.get('n', 0),
                'kinds': info.get('kinds', []), 'ev': events}
    finally:
        envctl.rm(d)


# ------------------------------------------------------------------ Deque / Index victims (C07 over C11 / C12 objects)
def _child_obj(kind, directory, maxlen, ops, kill_at, logfd, countfd):
    try:
        import diskcache
        from .dequedriver import DequeApi, mx
        from .indexdriver import IndexApi
        envctl.Clock().install()
        envctl.SeededUrandom(11).install()
        lst = KillListener(kill_at)
        interpose.install(None, directory)
        vm = ValMap()
        if kind == 'deque':
            obj = diskcache.Deque(directory=directory, maxlen=mx(maxlen))
            api = DequeApi(vm)
            len(obj)
        else:
            obj = diskcache.Index(directory)
            api = IndexApi(None, vm)
            len(obj)
        interpose.set_listener(lst, directory)
        for op in ops:
            os.write(logfd, (json.dumps({'ev': 'call', 'op': op['op'], 'a': op['a']}) + '\n').encode())
            ret = api.call(obj, op['op'], op['a'])
            os.write(logfd, (json.dumps({'ev': 'ret', 'ret': ret}) + '\n').encode())
        interpose.set_listener(None)
        os.write(countfd, json.dumps({'n': lst.count, 'kinds': lst.kinds}).encode())
    except BaseException:
        import traceback
        os.write(logfd, (json.dumps({'ev': 'crash', 'tb': traceback.format_exc()}) + '\n').encode())
    finally:
        os._exit(0)


def run_kill_obj(kind, init, maxlen, ops, kill_at, tid=1):
    """kind 'deque' (init: list of model values) or 'index' (init: list of [key id, model value])."""
    import diskcache
    from .dequedriver import mx, items_of
    from .indexdriver import PYKEYS, pairs_of
    d = envctl.scratch('kobj')
    vm = ValMap()
    try:
        envctl.SeededUrandom(5).install()
        try:
            if kind == 'deque':
                o = diskcache.Deque([vm.to_py(v) for v in init], directory=d, maxlen=mx(maxlen))
            else:
                o = diskcache.Index(d)
                for k, v in init:
                    o[PYKEYS[k]] = vm.to_py(v)
            o.cache.close()
        finally:
            envctl.SeededUrandom.uninstall()
        logpath = os.path.join(envctl.scratch_root(), 'olog-%d-%d' % (os.getpid(), tid))
        logfd = os.open(logpath, os.O_WRONLY | os.O_CREAT | os.O_TRUNC | os.O_APPEND)
        r, w = os.pipe()
        pid = os.fork()
        if pid == 0:
            os.close(r)
            _child_obj(kind, d, maxlen, ops, kill_at, logfd, w)
        os.close(w)
        _, status = os.waitpid(pid, 0)
        data = b''
        while True:
            chunk = os.read(r, 65536)
            if not chunk:
                break
            data += chunk
        os.close(r)
        os.close(logfd)
        events = [json.loads(l) for l in open(logpath).read().splitlines() if l.strip()]
        os.unlink(logpath)
        for e in events:
            if e.get('ev') == 'crash':
                raise MachineryError('victim crashed:\n' + e['tb'])
        info = json.loads(data.decode()) if data else {}
        if kill_at == 0 and not info:
            raise MachineryError('counting run died')
        events.append({'ev': 'killed', 'k': 1 if os.WIFSIGNALED(status) else 0})
        obs = {'ev': 'obs', 'opened': 0, 'items': [], 'warn': [], 'wrote': 0}
        try:
            o = diskcache.Deque(directory=d, maxlen=mx(maxlen)) if kind == 'deque' else diskcache.Index(d)
            obs['opened'] = 1
            try:
                obs['items'] = items_of(o, vm) if kind == 'deque' else pairs_of(o, vm)
            except Exception as exc:
                obs['items'] = []
                obs['unreadable'] = type(exc).__name__
            with warnings.catch_warnings():
                warnings.simplefilter('always')
                ws = o.cache.check()
            kinds = set()
            for w_ in ws:
                m = str(w_.message)
                kinds.add('unknown-file' if m.startswith('unknown file') else 'empty-dir' if m.startswith('empty directory') else
                          'file-not-found' if m.startswith('file not found') else 'wrong-size' if m.startswith('wrong file size') else
                          'count' if 'Settings.count' in m else 'size' if 'Settings.size' in m else 'other')
            obs['warn'] = sorted(kinds)
            try:
                c2 = diskcache.Cache(d, timeout=1)
                c2.set('__verif_probe__', 1)
                del c2['__verif_probe__']
                c2.close()
                obs['wrote'] = 1
            except Exception:
                obs['wrote'] = 0
            o.cache.close()
        except Exception as exc:
            obs['error'] = type(exc).__name__
        obs.setdefault('unreadable', '')
        events.append(obs)
        return {'id': tid, 'kind': kind, 'init': init, 'maxlen': maxlen, 'ops': ops, 'kill_at': kill_at, 'points': info.get('n', 0),
                'kinds': info.get('kinds', []), 'ev': events}
    finally:
        envctl.rm(d)


# ------------------------------------------------------------------ the creation of a sharded cache (C07 x C13)
FAN_ARGS = dict(cull_limit=3, eviction_policy='least-recently-used')      # what the creating process asks for (no size limit)


def run_kill_fanout_create(shards, kill_at, tid=1):
    """The victim creates a FanoutCache (every statement and file operation of the creation is a kill point) and stores
    one item; a later process opens the directory the same way.  kill_at = 0: counting run."""
    import warnings
    d = envctl.scratch('kfan')
    try:
        r, w = os.pipe()
        pid = os.fork()
        if pid == 0:
            try:
                os.close(r)
                import diskcache
                envctl.SeededUrandom(5).install()
                lst = KillListener(kill_at)
                interpose.install(lst, d)
                fc = diskcache.FanoutCache(d, shards=shards, **FAN_ARGS)
                fc.set('k', 1)
                interpose.set_listener(None)
                os.write(w, json.dumps({'n': lst.count}).encode())
            finally:
                os._exit(0)
        os.close(w)
        _, status = os.waitpid(pid, 0)
        data = os.read(r, 65536)
        os.close(r)
        info = json.loads(data.decode()) if data else {}
        if kill_at == 0 and not info:
            raise MachineryError('counting run of the sharded creation died')
        import diskcache
        obs = {'ev': 'fanout_obs', 'shards': shards, 'opened': 0, 'limits': [], 'limits_ok': 0, 'settings_ok': 0, 'warnings': -1, 'usable': 0}
        try:
            fc = diskcache.FanoutCache(d, shards=shards, **FAN_ARGS)
            obs['opened'] = 1
            lim = [sh.size_limit for sh in fc._shards]
            # thousandths of the total, so that the numbers stay small: every shard holds 1000 / shards of them
            obs['limits'] = [int(round(x * 1000.0 / 2 ** 30)) for x in lim]
            obs['limits_ok'] = 1 if all(abs(x * shards - 2 ** 30) < 1 for x in lim) else 0
            obs['settings_ok'] = 1 if all(sh.cull_limit == 3 and sh.eviction_policy == 'least-recently-used' for sh in fc._shards) else 0
            with warnings.catch_warnings(record=True) as ws:
                warnings.simplefilter('always')
                fc.check()
            obs['warnings'] = len(ws)
            fc.set('after', 2)
            obs['usable'] = 1 if fc.get('after') == 2 and fc.get('k') in (None, 1) else 0
            fc.close()
        except Exception as exc:
            obs['error'] = type(exc).__name__
        return {'id': tid, 'init': {'policy': 'lru', 'cull': 3, 'limit': 0, 'stats': 0}, 'initops': [], 'ops': [], 'kill_at': kill_at,
                'points': info.get('n', 0), 'kinds': [], 'ev': [{'ev': 'killed', 'k': 1 if os.WIFSIGNALED(status) else 0}, obs]}
    finally:
        envctl.rm(d)


# ------------------------------------------------------------------ ShardCreate.tla behaviours on the real FanoutCache
SC_E_TOTAL = 2 ** 25           # the explicit total size limit of an "E" open


class _StepKiller(interpose.Listener):
    """Kills the process before the event that performs the named step of the named shard."""

    def __init__(self, shard_dir, target):
        self.dir, self.target = shard_dir, target

    def _die(self):
        os.kill(os.getpid(), signal.SIGKILL)

    def file_before(self, kind, path):
        if self.target == 'mkdir' and kind == 'mkdir' and os.path.abspath(str(path)) == self.dir:
            self._die()

    def connect_before(self, path):
        if self.target == 'sql' and os.path.dirname(os.path.abspath(str(path))) == self.dir:
            self._die()          # before the connection that creates the database file

    def sql_before(self, conn, sql, params):
        path = getattr(conn, '_verif_path', '') or ''
        if os.path.dirname(os.path.abspath(path)) != self.dir:
            return
        if self.target == 'store' and sql.lstrip().upper().startswith('INSERT OR REPLACE INTO SETTINGS') and params and params[0] == 'size_limit':
            self._die()


def _shard_state(d, n, e_total):
    import sqlite3 as _s
    phase, stored = [], []
    for i in range(n):
        sd = os.path.join(d, '%03d' % i)
        db = os.path.join(sd, 'cache.db')
        if not os.path.isdir(sd):
            phase.append('none'); stored.append('none'); continue
        if not os.path.exists(db):
            phase.append('dir'); stored.append('none'); continue
        con = interpose.real_connect(db, timeout=5)
        try:
            rows = con.execute("SELECT value FROM Settings WHERE key = 'size_limit'").fetchall()
        except _s.OperationalError:
            rows = []
        finally:
            con.close()
        if not rows:
            phase.append('db'); stored.append('none'); continue
        v = rows[0][0]
        phase.append('set')
        stored.append('Dshare' if abs(v * n - 2 ** 30) < 1 else 'Eshare' if abs(v * n - e_total) < 1 else
                      'full' if abs(v - 2 ** 30) < 1 else 'other:%r' % (v,))
    return phase, stored


def run_shard_plan(plan, n, tid=1):
    d = envctl.scratch('scp')
    ev = []
    try:
        for i, st in enumerate(plan):
            s, sub = st['s'], st['sub']
            target = None
            if st['end'] == 'kill' and s <= n:
                sd = os.path.join(d, '%03d' % (s - 1))
                if sub in ('decide', 'mkdir') and not os.path.isdir(sd):
                    target = 'mkdir'
                elif sub in ('decide', 'mkdir', 'connect') and not os.path.exists(os.path.join(sd, 'cache.db')):
                    target = 'sql'
                else:
                    target = 'store'
            pid = os.fork()
            if pid == 0:
                try:
                    import diskcache
                    envctl.SeededUrandom(5).install()
                    interpose.install(_StepKiller(os.path.abspath(sd), target) if target else None, d)
                    kw = {'size_limit': SC_E_TOTAL} if st['mode'] == 'E' else {}
                    diskcache.FanoutCache(d, shards=n, **kw)
                finally:
                    os._exit(0)
            _, status = os.waitpid(pid, 0)
            killed = os.WIFSIGNALED(status)
            phase, stored = _shard_state(d, n, SC_E_TOTAL)
            ev.append({'i': i + 1, 'mode': st['mode'], 'end': st['end'], 's': s, 'sub': sub or '-', 'phase': list(st['phase']),
                       'stored': list(st['stored']), 'obs_phase': phase, 'obs_stored': stored,
                       'ran': 1 if killed == (target is not None) else 0,
                       'how': 'killed' if killed else 'ran to the end'})
        return {'id': tid, 'ev': ev}
    finally:
        envctl.rm(d)
