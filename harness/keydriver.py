"""C02 driver: pairs of concrete keys through a real cache; descriptors for KeySpace.tla."""
import math
import os
import pickle
import pickletools
import struct

from . import envctl
from .envctl import MachineryError


def universe(protocol):
    base = ['', 'a', 'b', 'ab', '1', 'é', b'', b'a', b'ab', b'1', 0, 1, -1, 2, 2 ** 53, 2 ** 53 + 1, 2 ** 63 - 1, -2 ** 63,
            2 ** 63, 2 ** 64, -2 ** 63 - 1, 2 ** 70, 0.0, -0.0, 1.0, -1.0, 0.5, 2.0 ** 53, 2.0 ** 63, 2.0 ** 64, float('inf'),
            5e-324, 2.0 ** 70, -2.0 ** 63, -2.0 ** 64, True, False, None, (), (1,), (1, 2), ('a',), (1.0,), (True,), frozenset([1]), (None,), ((1,),)]
    out = list(base)
    # bytes keys equal to the serialized form of other (non-native) keys
    for k in [True, None, (1,), (1, 2), 2 ** 63, 2 ** 70, frozenset([1])]:
        out.append(pickletools.optimize(pickle.dumps(k, protocol=protocol)))
    return out


def descriptor(k, protocol, ids):
    """abstract descriptor of a concrete key for KeySpace.tla"""
    t = type(k)
    d = {'t': {str: 'str', bytes: 'bytes', int: 'int', float: 'float', bool: 'bool', type(None): 'none',
               tuple: 'tuple', frozenset: 'frozenset'}[t],
         'm': 0, 'e': 0, 'int64': False, 'id': 0, 'bid': 0, 'pid': 0}
    def ident(kind, obj):
        return ids.setdefault((kind, obj), len(ids) + 1)
    if t is int:
        from fractions import Fraction
        d.update(m=ident('num', Fraction(k)), int64=-2 ** 63 <= k < 2 ** 63)      # m: identity of the exact numeric value
    elif t is float:
        from fractions import Fraction
        d.update(m=ident('num', ('inf', k > 0) if math.isinf(k) else Fraction(k)))
    elif t is str:
        d['id'] = ident('text', k)
    elif t is bytes:
        d['id'] = ident('bytes', k)
        d['bid'] = ident('blob', k)
    else:
        d['id'] = ident('obj', (type(k).__name__, repr(k)))
    if not (t in (str, bytes, float) or (t is int and d['int64'])):
        d['pid'] = ident('blob', pickletools.optimize(pickle.dumps(k, protocol=protocol)))
    return d


def run_pairs(pairs, protocol, seed=0, tid=1):
    """pairs: list of (i, j) indexes into universe(protocol)"""
    import diskcache
    root = envctl.scratch('keys')
    U = universe(protocol)
    ids = {}
    D = [descriptor(k, protocol, ids) for k in U]
    ev = []
    try:
        c = diskcache.Cache(root, disk_pickle_protocol=protocol)
        for i, j in pairs:
            k1, k2 = U[i], U[j]
            c.clear()
            c.set(k1, 'v1')
            c.set(k2, 'v2')
            n = len(c)
            g1 = c.get(k1, default='<none>')
            g2 = c.get(k2, default='<none>')
            keys = list(c)
            sk = list(c.iterkeys())
            rk = list(c.iterkeys(reverse=True))
            def same_key(a, b):
                return type(a) is type(b) and (a == b or (a != a and b != b)) and (not isinstance(a, float) or math.copysign(1, a) == math.copysign(1, b) or True)
            first_ok = 1 if keys and same_key(keys[0], k1) else 0
            types_ok = 1 if all(any(same_key(x, y) for y in (k1, k2)) for x in keys) else 0
            rev_ok = 1 if rk == sk[::-1] and sorted(map(repr, sk)) == sorted(map(repr, keys)) else 0
            # pop of the second key must not touch the first (when they are different entries)
            try:
                p2 = c.pop(k2, default='<none>')
            except Exception as exc:
                p2 = 'raised ' + type(exc).__name__
            left = len(c)
            g1b = c.get(k1, default='<none>')
            # membership and add of the second key next to the first
            c.clear()
            c.set(k1, 'v1', expire=1000)           # (an item whose time to live is running)
            in2 = 1 if k2 in c else 0
            try:
                a2 = 1 if c.add(k2, 'a2') else 0
            except Exception:
                a2 = -1
            an = len(c)
            ag1 = c.get(k1, default='<none>')
            ag2 = c.get(k2, default='<none>')
            # the other key-addressed operations through the second key while only the first is stored
            def _try(f):
                try:
                    r = f()
                    return 1 if r is True else 0 if r is False else r
                except KeyError:
                    return 'KeyError'
                except Exception as exc:
                    return 'raised ' + type(exc).__name__
            c.clear()
            c.set(k1, 'v1', expire=None)
            t2 = _try(lambda: c.touch(k2, expire=100))
            x1 = c.get(k1, default='<none>', expire_time=True)
            x1 = 0 if not isinstance(x1, tuple) else (1 if x1[1] is None else 2)      # 1: still without expiry, 2: got one
            d2 = _try(lambda: c.delete(k2))
            left3 = len(c)
            g1c = c.get(k1, default='<none>')
            c.clear()
            c.set(k1, 5)
            i2 = _try(lambda: c.incr(k2, 1, default=None))
            gi1 = c.get(k1, default='<none>')
            ev.append({'ev': 'pair', 'k1': D[i], 'k2': D[j], 'n': n, 'g1': g1, 'g2': g2, 'first_ok': first_ok,
                       'in2': in2, 'a2': a2, 'an': an, 'ag1': ag1, 'ag2': ag2,
                       't2': str(t2), 'x1': x1, 'd2': str(d2), 'left3': left3, 'g1c': str(g1c), 'i2': str(i2), 'gi1': str(gi1),
                       'types_ok': types_ok, 'rev_ok': rev_ok, 'p2': p2, 'left': left, 'g1b': g1b,
                       'r1': repr(k1)[:40], 'r2': repr(k2)[:40]})
        c.close()
        return {'id': tid, 'proto': protocol, 'ev': ev}
    finally:
        envctl.rm(root)


def run_paging(protocol, nfill, seed=0, tid=1):
    """sorted iteration across the 100-key pages with a bytes key and its pickled twin among many keys"""
    import diskcache
    root = envctl.scratch('keys')
    try:
        c = diskcache.Cache(root, disk_pickle_protocol=protocol)
        twin = (1, 2)
        tb = pickletools.optimize(pickle.dumps(twin, protocol=protocol))
        keys = [tb, twin] + [tb + bytes([i // 250 + 1, i % 250 + 1]) for i in range(nfill)] + ['s%03d' % i for i in range(7)] + list(range(5))
        for i, k in enumerate(keys):
            c[k] = i
        fwd = list(c.iterkeys())
        rev = list(c.iterkeys(reverse=True))
        ins = list(c)
        ok = 1 if rev == fwd[::-1] and len(fwd) == len(keys) and len(set(map(repr, fwd))) == len(keys) and \
            sorted(map(repr, ins)) == sorted(map(repr, keys)) and list(reversed(c)) == ins[::-1] else 0
        c.close()
        return {'id': tid, 'proto': protocol, 'ev': [{'ev': 'paging', 'nfill': nfill, 'ok': ok, 'nf': len(fwd), 'nr': len(rev), 'nk': len(keys)}]}
    finally:
        envctl.rm(root)
