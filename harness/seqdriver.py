"""Drive one real Cache through a history of abstract operations and record
the trace that CacheSeqTrace.tla validates.  Driver + recorder only."""
import io
import os

from . import envctl, interpose
from .adapters import (KeyMap, ValMap, R, tag_py, tag_model, ttl_py, exp_model, OPAQUE)
from .envctl import MachineryError, NOEXP

POLICY = {'lrs': 'least-recently-stored', 'lru': 'least-recently-used',
          'lfu': 'least-frequently-used', 'none': 'none'}
SENT = object()


class PageListener(interpose.Listener):
    """Records the page bytes the library saw (PRAGMA page_count results)."""

    def __init__(self):
        self.pages = []
        self.page_size = 4096

    def sql_after(self, conn, sql, params, rows, error):
        if rows and sql.strip().upper().startswith('PRAGMA PAGE_COUNT'):
            self.pages.append(rows[0][0] * self.page_size)

    # a transient "database is locked" at the n-th statement from now (another process held the lock for a moment)
    busy_at = 0

    def sql_before(self, conn, sql, params):
        if self.busy_at > 0:
            self.busy_at -= 1
            if self.busy_at == 0:
                import sqlite3
                raise sqlite3.OperationalError('database is locked')


class StreamError(Exception):
    pass


class BrokenStream:
    """A readable binary stream that fails after its first chunk."""

    def __init__(self, data):
        self.data = data
        self.n = 0

    def read(self, size=-1):
        self.n += 1
        if self.n > 1:
            raise StreamError('stream broke')
        return self.data[:size if size and size > 0 else None]


def implicit_retry(name, a, form):
    """Operator forms always wait for the lock (retry=True inside the library)."""
    if name == 'set' and form == 1 and not a.get('ttl') and not a.get('tag'):
        return True
    if name == 'get' and a.get('mk') == 'KeyError' and form != 1:
        return True
    if name == 'delete' and a.get('mk') == 'KeyError':
        return True
    return False


class ApiAdapter:
    """Abstract operation -> real API call on a cache object -> normalised result."""

    def __init__(self, dc, km, vm, clock):
        self.dc = dc
        self.km = km
        self.vm = vm
        self.clock = clock
        self.index_forms = False     # sequential histories: some push / pull calls go through Index.push / Index.pull

    def call(self, c, name, a, form=0):
        try:
            return self._call(c, name, a, form)
        except (KeyError, TypeError, ValueError, IndexError, AssertionError) as exc:
            return R(type(exc).__name__)
        except self.dc.Timeout as exc:
            return R('Timeout', [exc.args[0]] if exc.args and isinstance(exc.args[0], int) else [])
        except interpose.sqlite3.Error as exc:
            return R(type(exc).__name__)
        except (OSError, UnicodeError) as exc:
            return R('OSError' if isinstance(exc, OSError) else type(exc).__name__)
        except StreamError:
            return R('StreamError')

    # ------------------------------------------------------------ results
    def _val(self, x):
        if hasattr(x, 'read'):
            try:
                data = x.read()
            finally:
                x.close()
            return self.vm.to_model(data)
        return self.vm.to_model(x)

    def _payload(self, res, fx, ft, item=False):
        """Normalise (value[, expire_time][, tag]) or ((key, value)[, ...])."""
        if res is SENT:
            return None             # sharded caches hand back the bare default on a lock timeout
        if fx and ft:
            main, e, t = res
            extra = [exp_model(e), tag_model(t)]
        elif fx:
            main, e = res
            extra = [exp_model(e)]
        elif ft:
            main, t = res
            extra = [tag_model(t)]
        else:
            main, extra = res, []
        if item:
            k, v = main
            if k is SENT or v is SENT:
                return None
            return [self.km.to_model(k), self._val(v)] + extra
        if main is SENT:
            return None
        return [self._val(main)] + extra

    def _store_args(self, a):
        v = a['v']
        a['sz'] = self.vm.size(v)
        return self.vm.to_py(v)

    def _call(self, c, name, a, form):
        km, vm = self.km, self.vm
        rt = {'retry': True} if a.get('retry') else {}
        if name == 'tick':
            self.clock.advance(a.get('n', 1))
            return R('none')
        if name in ('set', 'add'):
            k = km.to_py(a['k'])
            pv = self._store_args(a)
            ttl, tag = ttl_py(a['ttl']), tag_py(a['tag'])
            if name == 'set' and form == 1 and ttl is None and tag is None:
                c[k] = pv
                return R('true')
            if form == 3 and type(pv) is bytes:
                r = getattr(c, name)(k, BrokenStream(pv), expire=ttl, read=True, tag=tag, **rt)
            elif form == 2 and type(pv) is bytes:
                r = getattr(c, name)(k, io.BytesIO(pv), expire=ttl, read=True, tag=tag, **rt)
            else:
                r = getattr(c, name)(k, pv, expire=ttl, tag=tag, **rt)
            return R('true' if r is True else 'false' if r is False else 'weird')
        if name == 'touch':
            r = c.touch(km.to_py(a['k']), expire=ttl_py(a['ttl']), **rt)
            return R('true' if r is True else 'false' if r is False else 'weird')
        if name == 'incr':
            k = km.to_py(a['k'])
            df = a['df'][0] if a['df'] else None
            if form == 1:
                r = c.decr(k, -a['d'], default=df, **rt)
            else:
                r = c.incr(k, a['d'], default=df, **rt)
            return R('int', [r]) if type(r) is int else R('none') if r is None else R('weird')
        if name == 'get':
            k = km.to_py(a['k'])
            fx, ft = bool(a['fx']), bool(a['ft'])
            if a['mk'] == 'KeyError':
                r = c.read(k) if form == 1 else c[k]
                return R('val', self._payload(r, False, False))
            r = c.get(k, default=SENT, expire_time=fx, tag=ft, read=(form == 2), **rt)
            p = self._payload(r, fx, ft)
            return R('miss') if p is None else R('val', p)
        if name == 'contains':
            return R('true' if (km.to_py(a['k']) in c) else 'false')
        if name == 'pop':
            fx, ft = bool(a['fx']), bool(a['ft'])
            r = c.pop(km.to_py(a['k']), default=SENT, expire_time=fx, tag=ft, **rt)
            p = self._payload(r, fx, ft)
            return R('miss') if p is None else R('val', p)
        if name == 'delete':
            k = km.to_py(a['k'])
            if a['mk'] == 'KeyError':
                del c[k]
                return R('true')
            r = c.delete(k, **rt)
            return R('true' if r is True else 'false' if r is False else 'weird')
        if name == 'clear':
            return R('int', [c.clear(**rt)])
        if name == 'evict':
            return R('int', [c.evict(tag_py(a['tag']), **rt)])
        if name == 'expire':
            return R('int', [c.expire(**rt)])
        if name == 'cull':
            return R('int', [c.cull(**rt)])
        if name == 'push':
            pv = self._store_args(a)
            prefix = None if not a['p'] else '' if a['p'] == [-1] else ''.join(chr(x) for x in a['p'])
            side = 'back' if a['back'] else 'front'
            if self.index_forms and form == 1 and not a['ttl'] and not a['tag'] and type(c) is self.dc.Cache:
                r = self.dc.Index.fromcache(c).push(pv, prefix=prefix, side=side)     # the Index forwards to the same cache
            elif form == 2 and type(pv) is bytes:
                r = c.push(io.BytesIO(pv), prefix=prefix, side=side, expire=ttl_py(a['ttl']),
                           read=True, tag=tag_py(a['tag']))
            else:
                r = c.push(pv, prefix=prefix, side=side, expire=ttl_py(a['ttl']), tag=tag_py(a['tag']), **rt)
            return R('key', km.to_model(r))
        if name in ('pull', 'peek'):
            prefix = None if not a['p'] else '' if a['p'] == [-1] else ''.join(chr(x) for x in a['p'])
            side = 'back' if a['back'] else 'front'
            fx, ft = bool(a['fx']), bool(a['ft'])
            if self.index_forms and name == 'pull' and form == 1 and not fx and not ft and type(c) is self.dc.Cache:
                r = self.dc.Index.fromcache(c).pull(prefix=prefix, default=(SENT, SENT), side=side)
            else:
                r = getattr(c, name)(prefix=prefix, default=(SENT, SENT), side=side, expire_time=fx, tag=ft, **rt)
            p = self._payload(r, fx, ft, item=True)
            return R('miss') if p is None else R('item', p)
        if name == 'peekitem':
            fx, ft = bool(a['fx']), bool(a['ft'])
            r = c.peekitem(last=bool(a['last']), expire_time=fx, tag=ft, **rt)
            return R('item', self._payload(r, fx, ft, item=True))
        if name == 'len':
            return R('int', [len(c)])
        if name == 'iter':
            rev, srt = bool(a['rev']), bool(a['sorted'])
            if srt:
                keys = list(c.iterkeys(reverse=rev))
            else:
                keys = list(reversed(c)) if rev else list(c)
            return R('keys', [km.to_model(k) for k in keys])
        if name == 'close':
            c.close()
            return R('none')
        if name == 'stats':
            h, m = c.stats(enable=bool(a['en']), reset=bool(a['rs']))
            return R('pair', [h, m])
        if name == 'tagindex':
            (c.create_tag_index if a['on'] else c.drop_tag_index)()
            return R('none')
        if name == 'volume':
            return R('int', [int(c.volume())])
        raise MachineryError('unknown abstract operation %r' % (name,))


class SeqRunner:
    def __init__(self, cfg, seed=0, cls='Cache'):
        """cfg: dict(policy, cull, limit, stats, min_file_size, tag_index, protocol?)"""
        import diskcache
        self.dc = diskcache
        self.cfg = cfg
        self.clock = envctl.Clock().install()
        envctl.SeededUrandom(seed).install()
        self.dir = envctl.scratch('seq')
        self.listener = PageListener()
        interpose.install(self.listener, self.dir)
        settings = dict(eviction_policy=POLICY[cfg['policy']], cull_limit=cfg['cull'],
                        size_limit=cfg['limit'], statistics=cfg['stats'],
                        disk_min_file_size=cfg.get('min_file_size', 2 ** 15),
                        tag_index=cfg.get('tag_index', 0))
        if 'protocol' in cfg:
            settings['disk_pickle_protocol'] = cfg['protocol']
        self.cache = diskcache.Cache(self.dir, timeout=1, **settings)
        self.km = KeyMap(self.cache.disk.pickle_protocol)
        self.vm = ValMap(cfg.get('min_file_size', 2 ** 15), self.cache.disk.pickle_protocol,
                         cfg.get('unit', 1024))
        self.obs = interpose.real_connect(os.path.join(self.dir, 'cache.db'), timeout=5,
                                          isolation_level=None)
        ((self.listener.page_size,),) = self.obs.execute('PRAGMA page_size').fetchall()
        self.api = ApiAdapter(diskcache, self.km, self.vm, self.clock)
        self.api.index_forms = True
        self.events = []

    def close(self):
        try:
            self.obs.close()
            self.cache.close()
        finally:
            interpose.set_listener(None)
            self.clock.uninstall()
            envctl.SeededUrandom.uninstall()
            envctl.rm(self.dir)

    # ------------------------------------------------------------ projection
    def project(self):
        rows = []
        sel = ('SELECT key, raw, expire_time, tag, size, mode, filename, value'
               ' FROM Cache ORDER BY rowid')
        disk = self.cache.disk
        for key, raw, exp, tag, size, mode, filename, value in self.obs.execute(sel).fetchall():
            try:
                pk = disk.get(key, raw)
                mk = self.km.to_model(pk)
            except Exception:
                mk = [9, 1]
            try:
                pv = disk.fetch(mode, filename, value, False)
                mv = self.vm.to_model(pv)
            except (IOError, OSError):
                mv = -2                      # row refers to a missing file
            except Exception:
                mv = -1
            rows.append([mk, mv, exp_model(exp), tag_model(tag), size])
        st = dict(self.obs.execute('SELECT key, value FROM Settings').fetchall())
        ctr = [st['count'], st['size'], st['hits'], st['misses']]
        ((pc,),) = self.obs.execute('PRAGMA page_count').fetchall()
        return rows, ctr, pc * self.listener.page_size

    # ------------------------------------------------------------ one step
    # ------------------------------------------------------------ C18 lifecycle
    def lifecycle(self, name, a):
        import pickle as _p
        dc = self.dc
        if name == 'reopen':
            self.cache.close()
            if a.get('args'):
                s = self.cfg
                self.cache = dc.Cache(self.dir, timeout=1, eviction_policy=POLICY[s['policy']], cull_limit=s['cull'],
                                      size_limit=s['limit'], statistics=s['stats'],
                                      disk_min_file_size=s.get('min_file_size', 2 ** 15))
            else:
                self.listener.busy_at = a.get('busy', 0)         # opened while the database is busy for a moment
                try:
                    self.cache = dc.Cache(self.dir, timeout=1)   # settings must come back from the directory
                finally:
                    self.listener.busy_at = 0
            return R('none')
        if name == 'pickle':
            self.cache = _p.loads(_p.dumps(self.cache))
            return R('none')
        if name == 'settings':
            c = dc.Cache(self.dir, timeout=1) if a.get('fresh') else self.cache
            pol = {v: k for k, v in POLICY.items()}[c.eviction_policy]
            r = R('settings', [{'lrs': 1, 'lru': 2, 'lfu': 3, 'none': 0}[pol], c.cull_limit, c.size_limit, 1 if c.statistics else 0])
            if a.get('fresh'):
                c.close()
            return r
        if name == 'via':
            inner = a['inner']
            how = a['how']
            if how == 'thread':
                import threading
                box = []
                t = threading.Thread(target=lambda: box.append(self.api.call(self.cache, inner['op'], inner['a'], 0)))
                t.start(); t.join()
                return box[0]
            if how == 'fork':
                import json as _j
                r, w = os.pipe()
                pid = os.fork()
                if pid == 0:
                    try:
                        envctl.SeededUrandom.uninstall()      # the child must not replay the parent's file names
                        out = self.api.call(self.cache, inner['op'], inner['a'], 0)
                        os.write(w, _j.dumps(out).encode())
                    finally:
                        os._exit(0)
                os.close(w)
                data = b''
                while True:
                    ch = os.read(r, 65536)
                    if not ch:
                        break
                    data += ch
                os.close(r)
                os.waitpid(pid, 0)
                return _j.loads(data.decode())
            if how == 'proc':
                import json as _j, subprocess, sys
                from . import VERIF
                p = subprocess.run([sys.executable, '-m', 'harness.persist_worker', self.dir, str(self.clock.tick), _j.dumps(inner),
                                    str(self.cfg.get('min_file_size', 2 ** 15))],
                                   cwd=VERIF, stdout=subprocess.PIPE, stderr=subprocess.PIPE, text=True, timeout=120,
                                   # the other process does not share this one's locale: what is stored as UTF-8 must not be
                                   # decoded with the reader's locale encoding
                                   env=dict(os.environ, LC_ALL='C', LANG='C', PYTHONUTF8='0', PYTHONCOERCECLOCALE='0',
                                            PYTHONIOENCODING='utf-8'))
                if p.returncode != 0:
                    raise MachineryError('persist worker failed: ' + p.stderr[-800:])
                return _j.loads(p.stdout.strip().splitlines()[-1])
        raise MachineryError('unknown lifecycle op ' + name)

    def step(self, op):
        """op: dict with 'op' and abstract args (see CacheSeqTrace.Dispatch)."""
        name = op['op']
        a = dict(op.get('a', {}))
        form = op.get('form', 0)
        self.listener.pages = []
        now = self.clock.tick
        if name == 'reopen':
            a['stats0'] = 1 if self.cfg['stats'] else 0
        if name == 'via' and 'v' in a['inner']['a'] and a['inner']['op'] in ('set', 'add', 'push'):
            a['inner'] = {'op': a['inner']['op'], 'a': dict(a['inner']['a'], sz=self.vm.size(a['inner']['a']['v']))}
        try:
            if name in ('reopen', 'pickle', 'settings', 'via'):
                ret = self.lifecycle(name, a)
            else:
                ret = self.api.call(self.cache, name, a, form)
        except Exception as exc:           # anything else is reported by name
            ret = R(type(exc).__name__)
        rows, ctr, pbe = self.project()
        ev = {'op': name, 'a': a, 'now': now, 'pb': list(self.listener.pages), 'pbe': pbe,
              'ret': ret, 'rows': rows, 'ctr': ctr}
        self.events.append(ev)
        return ev

    def init_record(self):
        return {'policy': self.cfg['policy'], 'cull': self.cfg['cull'], 'limit': self.cfg['limit'],
                'stats': 1 if self.cfg['stats'] else 0}


def run_history(cfg, ops, seed=0, tid=1):
    r = SeqRunner(cfg, seed)
    try:
        for op in ops:
            r.step(op)
        return {'id': tid, 'init': r.init_record(), 'cfg': cfg, 'ev': r.events}
    finally:
        r.close()
