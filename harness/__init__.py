"""Verification harness for python-diskcache: driver + recorder only.

All comparison logic lives in the TLA+ specifications under /verif/spec;
this package drives the real library (imported from /repo's working tree),
records what it did at the library's boundary with SQLite, the file system
and the clock, and hands the recorded traces to TLC.
"""
import os
import sys

REPO = os.environ.get('VERIF_REPO', '/repo')
VERIF = os.path.dirname(os.path.dirname(os.path.abspath(__file__)))
SPEC = os.path.join(VERIF, 'spec')
EVIDENCE = os.environ.get('VERIF_EVIDENCE', os.path.join(VERIF, 'evidence'))   # selftest runs against seeded changes write elsewhere
SHM = '/dev/shm' if os.path.isdir('/dev/shm') else '/var/tmp'

if REPO not in sys.path:
    sys.path.insert(0, REPO)
sys.dont_write_bytecode = True
