"""C02: keys address entries by documented equality and never alias."""
import json
import os
import pickle
import random

from .. import keydriver, common, SPEC
from ..common import Outcome, pmap, validate_all, known_findings
from ..envctl import MachineryError
from ..tlc import run_tlc


def _pairs(pairs, proto, seed, tid):
    return keydriver.run_pairs(pairs, proto, seed, tid)


def _paging(proto, nfill, seed, tid):
    return keydriver.run_paging(proto, nfill, seed, tid)


def tla_universe(proto):
    """writes MCKeys.tla with the universe as TLA+ records"""
    ids = {}
    U = keydriver.universe(proto)
    recs = []
    for k in U:
        d = keydriver.descriptor(k, proto, ids)
        recs.append('[t |-> "%s", m |-> %d, e |-> %d, int64 |-> %s, id |-> %d, bid |-> %d, pid |-> %d]'
                    % (d['t'], d['m'], d['e'], 'TRUE' if d['int64'] else 'FALSE', d['id'], d['bid'], d['pid']))
    body = ('---- MODULE MCKeys ----\nEXTENDS KeySpace\nmc_Universe == {\n  ' + ',\n  '.join(recs) +
            '}\nmc_NoDev == {}\nmc_Dev == {"D_bigint_float"}\n====\n')
    with open(os.path.join(SPEC, 'MCKeys.tla'), 'w') as f:
        f.write(body)
    return len(U)


def run(prop, tier, seed):
    out = Outcome('C02', tier, seed)
    rng = random.Random(seed * 275604541 + 2)
    n = tla_universe(pickle.HIGHEST_PROTOCOL)
    res = run_tlc('MCKeys.tla', 'MCKeys.cfg', workers=1, timeout=300)
    if res.error or res.violation:
        raise MachineryError('KeySpace: %s %s %s' % (res.error, res.violation, res.out[-800:]))
    out.add_tlc('MCKeys.cfg', res, 'NoAliasing and EqualKeysOneEntry over all ordered pairs of %d keys (released put/equality transcription, listed deviation enabled)' % n)
    protos = [0, pickle.HIGHEST_PROTOCOL] if tier == 'quick' else list(range(pickle.HIGHEST_PROTOCOL + 1))
    jobs = []
    tid = 0
    for proto in protos:
        N = len(keydriver.universe(proto))
        allpairs = [(i, j) for i in range(N) for j in range(N)]
        rng.shuffle(allpairs)           # every ordered pair, in both tiers (the tiers differ in the pickle protocols)
        for s in range(0, len(allpairs), 150):
            tid += 1
            jobs.append((allpairs[s:s + 150], proto, seed, tid))
    traces = pmap(_pairs, jobs, procs=14)
    pj = []
    for proto in protos:
        for nfill in ((97, 98, 99, 100, 101) if tier == 'quick' else tuple(range(95, 106)) + (198, 199, 200, 201)):
            tid += 1
            pj.append((proto, nfill, seed, tid))
    traces += pmap(_paging, pj, procs=14)
    out.traces = len(traces)
    out.events = sum(len(t['ev']) for t in traces)
    common.TRACE_FIELDS = ('id', 'ev')
    verdicts, st, tr = validate_all('KeyTrace.tla', 'KeyTrace.cfg', traces, batch_events=3000)
    out.states += st
    out.transitions += tr
    findings = {f['deviation']: f for f in known_findings('C02') if 'deviation' in f}
    byid = {t['id']: t for t in traces}
    pending = []
    def handle(v, t):
        for dname in v.get('known', []):
            if dname in findings:
                out.known(findings[dname], '')
            else:
                out.violation('unlisted deviation ' + dname, {})
        if not v['ok']:
            e = t['ev'][v['at'] - 1]
            out.violation(v['why'] + ' | pickle protocol %s' % t.get('proto'), {'event': e, 'protocol': t.get('proto')})
            if t['ev'][v['at']:]:
                pending.append({'id': t['id'], 'proto': t.get('proto'), 'ev': t['ev'][v['at']:]})
    for tid_, v in sorted(verdicts.items()):
        handle(v, byid[tid_])
    rounds = 0
    while pending and rounds < 20 and len(out.violations) < 100:
        rounds += 1
        cur, pending = pending, []
        verdicts, st, tr = validate_all('KeyTrace.tla', 'KeyTrace.cfg', cur, batch_events=3000)
        for p in cur:
            handle(verdicts[p['id']], p)
    out.samples.append({k: traces[0]['ev'][0][k] for k in ('r1', 'r2', 'n', 'g1', 'g2')})
    out.notes.update({'key_pairs_exercised': sum(1 for t in traces for e in t['ev'] if e['ev'] == 'pair'), 'universe': n, 'protocols': protos})
    out.assumptions += ['NaN is outside the key domain', 'JSONDisk keys are exercised in C18 (format) only']
    return out.finish()
