"""C12: diskcache.Index against an insertion-ordered dictionary (IndexOps.tla)."""
import random

from .. import indexdriver, concdriver, sched, common
from ..common import Outcome, pmap, validate_all, known_findings
from ..envctl import MachineryError
from ..tlc import run_tlc


def design_level(out, tier):
    """IndexSeq.tla (refinement of the composed cache operations to the ordered dictionary) and IndexConc.tla
    (transactions and value-file operations of concurrent clients); the released lookup must break PresentKeyAlwaysFound."""
    res = run_tlc('MCIndex.tla', 'MCIndex.cfg', workers=8, timeout=300)
    if res.error or res.violation:
        raise MachineryError('MCIndex: %s %s\n%s' % (res.error, res.violation, res.out[-1500:]))
    out.add_tlc('MCIndex.cfg', res, 'refinement to the ordered dictionary: 3 keys, values {1,2}, every operation incl. two-pair update and views')
    names = ['inline', 'remove'] + (['intended'] if tier == 'thorough' else [])
    for name in names:
        res = run_tlc('MCIndexConc.tla', 'MCIndexConc_%s.cfg' % name, workers=16, timeout=900)
        if res.error or res.violation:
            raise MachineryError('MCIndexConc_%s: %s %s\n%s' % (name, res.error, res.violation, res.out[-1500:]))
        first = open(__import__('os').path.join(__import__('harness').SPEC, 'MCIndexConc_%s.cfg' % name)).readline().strip()
        out.add_tlc('MCIndexConc_%s.cfg' % name, res, first)
    res = run_tlc('MCIndexConc.tla', 'MCIndexConc_dev_race.cfg', workers=1, timeout=300)
    if res.violation not in ('PresentKeyAlwaysFound', 'ValuesExplained'):
        raise MachineryError('MCIndexConc_dev_race was expected to violate PresentKeyAlwaysFound, got %s %s' % (res.violation, res.error))
    out.notes['design_deviations_rejected'] = ['dev_race (released lookup, file-backed values) violates PresentKeyAlwaysFound = known finding F12']

F1 = 200000 + 40 * 100 + 1
F2 = 200000 + 48 * 100 + 2


def _seq(ops, impl, via, seed, tid):
    return indexdriver.run_seq(ops, impl, via, seed, tid)


def slim(t):
    ev = []
    drop = {1} if t.get('cfg', {}).get('lock_client') else ()
    for e in t['ev']:
        if e.get('c') in drop:
            continue                 # the independent lock holder (a raw connection): not an Index client
        if e['ev'] in ('call', 'ret'):
            ev.append({k: e[k] for k in ('ev', 'c', 'op', 'a', 'ret') if k in e})
        elif e['ev'] in ('commit', 'awrite', 'final'):
            ev.append({'ev': e['ev'], 'c': e['c'], 'pairs': e['pairs']})
    return {'kind': 'conc', 'nc': t['nc'], 'init': {'pairs': t['init']['pairs']},
            'program': t['program'], 'schedule': t['schedule'], 'ev': ev}


def _conc_dfs(cfg, prog, bound, max_runs, seed):
    ex = sched.DFSExplorer(bound, max_runs)
    out = []
    while ex.next():
        out.append(slim(concdriver.run_program(cfg, prog, ex.strategy(), seed, 0)))
    return out


def _conc_script(cfg, prog, order, seed):
    return [slim(concdriver.run_program(cfg, prog, sched.scripted_phases(order), seed, 0))]


def _conc_rand(cfg, prog, seed):
    rng = random.Random(seed)
    return [slim(concdriver.run_program(cfg, prog, sched.random_strategy(rng, rng.choice([0.2, 0.5, 0.8])), seed, 0))]


def run(prop, tier, seed):
    out = Outcome('C12', tier, seed)
    design_level(out, tier)
    rng = random.Random(seed * 122949823 + 12)
    jobs = []
    tid = 0
    n, length = (80, 60) if tier == 'quick' else (1200, 120)
    for i in range(n):
        ops = indexdriver.random_ops(rng, length)
        tid += 1
        jobs.append((ops, 'diskcache', rng.choice(['Index', 'Index', 'Index', 'fanout', 'django']), seed + i, tid))
        if i % 2 == 0:
            tid += 1
            jobs.append((ops, 'stdlib', 'Index', seed + i, tid))
    # histories with transact() blocks (ended or raised, nested), also through OrderedDict with saved copies
    for i in range(20 if tier == 'quick' else 300):
        ops = indexdriver.block_ops(rng, length // 2)
        tid += 1
        jobs.append((ops, 'diskcache', rng.choice(['Index', 'Index', 'fanout']), seed + 7000 + i, tid))
        if i % 3 == 0:
            tid += 1
            jobs.append((ops, 'stdlib', 'Index', seed + 7000 + i, tid))
    traces = pmap(_seq, jobs, procs=14)
    # concurrency: lookups / replacements / setdefault / popitem on shared keys
    o = lambda name, **a: {'op': name, 'a': a}
    ops1 = [o('getitem', k=2), o('setitem', k=2, v=F2), o('setitem', k=2, v=5), o('setdefault', k=2, v=7), o('setdefault', k=7, v=F1),
            o('popitem', last=1), o('popitem', last=0), o('delitem', k=2), o('pop', k=2, d=[9]), o('contains', k=2), o('len'),
            o('getitem', k=7), o('peekitem', last=1)]
    cj_dfs, cj_rand = [], []
    pairs = [(a, b) for a in ops1 for b in ops1]
    rng.shuffle(pairs)
    # always include the lookup-vs-replacement pair (the schedule shape of the known finding)
    pairs = [(o('getitem', k=2), o('setitem', k=2, v=F2)), (o('getitem', k=2), o('setitem', k=2, v=5))] + pairs
    for a, b in pairs[:(18 if tier == 'quick' else len(pairs))]:
        init = rng.choice([[[2, F1]], [[2, 3], [7, F1]], [[1, 1], [2, F1], [7, 2]]])
        cfg = dict(policy='none', cull=10, limit=2 ** 30, stats=False, shared=0, kind='index', timeout=0, busy_budget=2,
                   init_pairs=init if (a, b) != pairs[0] and (a, b) != pairs[1] else [[2, F1]])
        cj_dfs.append((cfg, {1: [a], 2: [b]}, 2, 60 if tier == 'quick' else 300, seed))
    # a failing call first (KeyError inside its transaction), then compound operations of the same client
    for b in (o('popitem', last=1), o('setdefault', k=7, v=5), o('pop', k=1, d=[])):
        cfg = dict(policy='none', cull=10, limit=2 ** 30, stats=False, shared=0, kind='index', timeout=0, busy_budget=2,
                   init_pairs=[[1, 1], [2, 2], [7, 3]])
        cj_dfs.append((cfg, {1: [o('delitem', k=8), o('popitem', last=1)], 2: [b]}, 2, 60 if tier == 'quick' else 300, seed))
    # every operation of an Index waits for the write lock (C14): an independent connection holds it when the operation starts
    # or takes it while the operation works, and gives it up after a failed attempt - no operation may fail
    from .conc import op as _op
    for b in (o('setitem', k=2, v=5), o('setitem', k=7, v=F2), o('delitem', k=2), o('pop', k=2, d=[]), o('popitem', last=1),
              o('setdefault', k=7, v=5), o('update', pairs=[[7, 5], [2, 6]]), o('clear')):
        cfg = dict(policy='none', cull=10, limit=2 ** 30, stats=False, shared=0, kind='index', timeout=0, busy_budget=1,
                   init_pairs=[[1, 1], [2, F1]], lock_client=1)
        cj_dfs.append((cfg, {1: [_op('lock'), _op('unlock')], 2: [b, o('len')]}, 2, 25 if tier == 'quick' else 120, seed))
    for i in range(60 if tier == 'quick' else 1500):
        cfg = dict(policy='none', cull=10, limit=2 ** 30, stats=False, shared=rng.randrange(2), kind='index', timeout=0,
                   busy_budget=2, init_pairs=rng.choice([[], [[2, F1]], [[2, 3], [7, F1]]]))
        prog = {c: [rng.choice(ops1) for _ in range(rng.randint(1, 3))] for c in range(1, rng.choice([2, 3]) + 1)}
        cj_rand.append((cfg, prog, seed * 1000 + i))
    # a handle opened (reopen / unpickle / first access through a FanoutCache) while another client inserts and removes
    for i in range(40 if tier == 'quick' else 800):
        cfg = dict(policy='none', cull=10, limit=2 ** 30, stats=False, shared=0, kind='index', timeout=0,
                   busy_budget=2, init_pairs=rng.choice([[], [[2, 3]], [[2, 3], [7, F1]]]))
        prog = {1: [{'op': 'reopen', 'a': {}}, o('len'), rng.choice(ops1)],
                2: [rng.choice([o('setitem', k=rng.choice([1, 2, 8]), v=rng.choice([4, F2])), o('delitem', k=2), o('popitem', last=1),
                                o('setdefault', k=8, v=5)]) for _ in range(rng.randint(1, 3))]}
        cj_rand.append((cfg, prog, seed * 1000 + 500000 + i))
    # client orders generated by TLC from IndexConc (the programs of MCIndexConc), replayed on the real Index
    from .. import plans
    FV = lambda v: 200000 + 40 * 100 + v
    MODEL_PROGS = {
        'File': {1: [o('setitem', k=1, v=FV(5)), o('getitem', k=1), o('getitem', k=1)],
                 2: [o('setitem', k=1, v=FV(6)), o('setdefault', k=1, v=7), o('setitem', k=1, v=8)],
                 3: [o('getitem', k=1), o('setitem', k=1, v=FV(9)), o('getitem', k=1)]},
        'Remove': {1: [o('setitem', k=1, v=FV(5)), o('setitem', k=2, v=FV(6)), o('getitem', k=2), o('delitem', k=1)],
                   2: [o('setdefault', k=2, v=7), o('popitem', last=1), o('getitem', k=1)],
                   3: [o('pop', k=2, d=[]), o('setitem', k=2, v=FV(8)), o('setdefault', k=1, v=9)]}}
    cj_script = []
    for name, prog in MODEL_PROGS.items():
        if tier == 'quick' and name == 'File':
            continue          # the larger model (35 s of TLC): thorough tier
        pl, _ = plans.tlc_plans('IndexConcPlan.tla', 'IndexConcPlan_%s.cfg' % name, timeout=120, seed=seed)
        rng.shuffle(pl)
        for p_ in pl[:(40 if tier == 'quick' else 1000)]:
            cfg = dict(policy='none', cull=10, limit=2 ** 30, stats=False, shared=0, kind='index', timeout=0, busy_budget=2, init_pairs=[])
            cj_script.append((cfg, prog, p_['hist'], seed))
    out.notes['tlc_generated_schedules_replayed'] = len(cj_script)
    ctr = [t for lst in pmap(_conc_script, cj_script, procs=14) for t in lst]
    ctr += [t for lst in pmap(_conc_dfs, cj_dfs, procs=14) for t in lst] + [t for lst in pmap(_conc_rand, cj_rand, procs=14) for t in lst]
    alltr = traces + ctr
    for i, t in enumerate(alltr):
        t['id'] = i + 1
    out.traces = len(alltr)
    out.events = sum(len(t['ev']) for t in alltr)
    common.TRACE_FIELDS = ('id', 'nc', 'init', 'ev', 'kind')
    verdicts, st, tr = validate_all('IndexTrace.tla', 'IndexTrace.cfg', alltr, batch_events=40000)
    out.states += st
    out.transitions += tr
    byid = {t['id']: t for t in alltr}
    findings = {f['deviation']: f for f in known_findings('C12') if 'deviation' in f}
    for tid_, v in sorted(verdicts.items()):
        t = byid[tid_]
        if v['ok']:
            for d in v.get('known', []):
                if d in findings:
                    out.known(findings[d], '(program %s)' % str(t.get('program'))[:160])
                else:
                    out.violation('unlisted deviation %s' % d, {'trace': t})
            continue
        if t.get('impl') == 'stdlib':
            raise MachineryError('IndexOps.tla disagrees with OrderedDict itself: %s' % v)
        if t['kind'] == 'seq':
            out.violation('history (via %s) rejected at operation %d: %s | %s' % (t.get('via'), v['at'], v['why'], str(t['ev'][v['at'] - 1])[:300]),
                          {'trace': t, 'verdict': v})
        else:
            out.violation('schedule rejected at event %d: %s | program=%s schedule=%s' % (v['at'], v['why'], str(t['program'])[:300], t['schedule'][:60]),
                          {'trace': t, 'verdict': v})
    out.samples.append({'ops': [[e['op'], e['a'], e['ret']] for e in traces[0]['ev'][:15]]})
    out.notes.update({'sequential_histories': len(traces), 'stdlib_cross_check_histories': sum(1 for t in traces if t.get('impl') == 'stdlib'),
                      'concurrent_schedules': len(ctr)})
    out.level = 'model_checking'
    return out.finish({'evaluations': len(alltr), 'distinct_nontrivial': len({str(t.get('program', t['ev'][:5])) for t in alltr}),
                       'rule': 'seeded random operation histories on diskcache.Index (direct, FanoutCache.index, DjangoCache.index) and on OrderedDict '
                               '(cross-check of the spec), plus scheduler-enumerated 2-client programs (all schedules up to 2 preemptions) and random 2-3 client programs; '
                               'every trace validated by TLC against IndexOps.tla; distinct = distinct programs/histories'})
