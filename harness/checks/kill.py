"""C07: kill-point enumeration on the real code, every run validated by TLC
against KillTrace.tla."""
import random

from .. import killdriver
from ..common import Outcome, pmap, validate_all, known_findings, TRACE_FIELDS
from ..envctl import MachineryError
from .conc import op, KA, KB, F1, F2, F3, report, design_level

BIGSTREAM = 200000 + 999 * 100 + 9      # ~1 MiB bytes value (several write chunks when streamed with read=True? no: one)


def workloads(rng, tier):
    K3 = [1, 99]
    base = [
        ('set-inline-new', [], [op('set', k=KA, v=5, ttl=[], tag=0)]),
        ('set-file-new', [], [op('set', k=KA, v=F1, ttl=[4], tag=1)]),
        ('set-file-over-file', [op('set', k=KA, v=F1, ttl=[], tag=1)], [op('set', k=KA, v=F2, ttl=[], tag=0)]),
        ('set-inline-over-file', [op('set', k=KA, v=F1, ttl=[], tag=1)], [op('set', k=KA, v=7, ttl=[], tag=0)]),
        ('set-stream', [], [dict(op('set', k=KA, v=F3, ttl=[], tag=0), form=2)]),
        ('add-file', [op('set', k=KB, v=2, ttl=[], tag=0)], [op('add', k=KA, v=F1, ttl=[], tag=0)]),
        ('add-present-file', [op('set', k=KA, v=F1, ttl=[], tag=0)], [op('add', k=KA, v=F2, ttl=[], tag=0)]),
        ('incr', [op('set', k=KA, v=5, ttl=[], tag=0)], [op('incr', k=KA, d=1, df=[0]), op('incr', k=KB, d=2, df=[0])]),
        ('incr-over-expired-file', [op('set', k=KA, v=F1, ttl=[0], tag=0)], [op('incr', k=KA, d=1, df=[0])]),
        ('touch', [op('set', k=KA, v=F1, ttl=[], tag=0)], [op('touch', k=KA, ttl=[9])]),
        ('pop-file', [op('set', k=KA, v=F1, ttl=[], tag=1), op('set', k=KB, v=1, ttl=[], tag=0)], [op('pop', k=KA, fx=0, ft=0)]),
        ('delete-file', [op('set', k=KA, v=F1, ttl=[], tag=1)], [op('delete', k=KA, mk='false')]),
        ('push-file', [op('push', v=F1, p=[], back=1, ttl=[], tag=0)], [op('push', v=F2, p=[], back=0, ttl=[], tag=0),
                                                                     op('push', v=F3, p=[97], back=1, ttl=[], tag=0)]),
        ('pull-file', [op('push', v=F1, p=[], back=1, ttl=[], tag=0), op('push', v=F2, p=[], back=1, ttl=[], tag=0)],
         [op('pull', p=[], back=0, fx=0, ft=0), op('pull', p=[], back=1, fx=0, ft=0)]),
        ('pull-expired-heads', [op('push', v=F1, p=[], back=1, ttl=[0], tag=0), op('push', v=F2, p=[], back=1, ttl=[0], tag=0),
                                op('push', v=F3, p=[], back=1, ttl=[], tag=0)], [op('pull', p=[], back=0, fx=0, ft=0)]),
        ('peek-expired-heads', [op('push', v=F1, p=[], back=1, ttl=[0], tag=0), op('push', v=3, p=[], back=1, ttl=[], tag=0)],
         [op('peek', p=[], back=0, fx=0, ft=0), op('peekitem', last=0, fx=0, ft=0)]),
        ('clear', [op('set', k=KA, v=F1, ttl=[], tag=1), op('set', k=KB, v=F2, ttl=[], tag=0), op('set', k=K3, v=1, ttl=[], tag=0)], [op('clear')]),
        ('evict', [op('set', k=KA, v=F1, ttl=[], tag=1), op('set', k=KB, v=F2, ttl=[], tag=1), op('set', k=K3, v=1, ttl=[], tag=2)], [op('evict', tag=1)]),
        ('expire', [op('set', k=KA, v=F1, ttl=[0], tag=1), op('set', k=KB, v=F2, ttl=[], tag=1), op('set', k=K3, v=F3, ttl=[0], tag=2)], [op('expire')]),
        ('block-commit', [op('set', k=KA, v=1, ttl=[], tag=0)],
         [op('txbegin'), op('set', k=KA, v=6, ttl=[], tag=0), op('incr', k=KB, d=1, df=[0]), op('set', k=K3, v=F1, ttl=[], tag=0), op('txend'),
          op('set', k=KB, v=9, ttl=[], tag=0)]),
        ('block-nested', [op('set', k=KA, v=1, ttl=[], tag=0)],
         [op('txbegin'), op('incr', k=KA, d=1, df=[0]), op('txbegin'), op('set', k=KB, v=F2, ttl=[], tag=0), op('txend'),
          op('delete', k=KA, mk='false'), op('txend')]),
        ('block-abort-then-writes', [op('set', k=KA, v=1, ttl=[], tag=0)],
         [op('txbegin'), op('set', k=KA, v=6, ttl=[], tag=0), op('txraise'), op('set', k=KB, v=3, ttl=[], tag=0), op('incr', k=KA, d=1, df=[0])]),
        ('block-baseexception-then-writes', [op('set', k=KA, v=1, ttl=[], tag=0)],
         [op('txbegin'), op('set', k=KA, v=6, ttl=[], tag=0), op('txraise', base=1), op('set', k=KB, v=3, ttl=[], tag=0),
          op('incr', k=KA, d=1, df=[0]), op('set', k=K3, v=F1, ttl=[], tag=0)]),
        ('block-replace-file', [op('set', k=KA, v=F1, ttl=[], tag=0)],
         [op('txbegin'), op('set', k=KA, v=F2, ttl=[], tag=0), op('incr', k=KB, d=1, df=[0]), op('txend')]),
        ('block-pop-file', [op('set', k=KA, v=F1, ttl=[], tag=0)],
         [op('txbegin'), op('pop', k=KA, fx=0, ft=0), op('set', k=KB, v=2, ttl=[], tag=0), op('txend')]),
    ]
    return base


def _enum(cfg, name, init, ops, base_tid):
    t0 = killdriver.run_kill(cfg, init, ops, 0, base_tid)
    t0['workload'] = name
    out = [t0]
    for n in range(1, t0['points'] + 1):
        t = killdriver.run_kill(cfg, init, ops, n, base_tid + n)
        t['workload'] = name
        t['point'] = t0['kinds'][n - 1]
        out.append(t)
    return out


F1m, F2m = 200000 + 40 * 100 + 1, 200000 + 48 * 100 + 2      # file-backed values of the Deque / Index victims


def obj_workloads():
    o = lambda name, **a: {'op': name, 'a': a}
    dq = [
        ('deque-append-file', [1, F1m], -1, [o('append', v=F2m), o('appendleft', v=5)]),
        ('deque-append-at-maxlen', [1, F1m, 3], 3, [o('append', v=F2m), o('appendleft', v=6)]),
        ('deque-pop', [1, F1m, 3], -1, [o('pop'), o('popleft'), o('pop')]),
        ('deque-setitem-delitem', [1, F1m, 3], -1, [o('setitem', i=1, v=F2m), o('delitem', i=0)]),
        ('deque-remove', [1, F1m, 3], -1, [o('remove', v=F1m)]),
        ('deque-clear', [1, F1m, 3], -1, [o('clear')]),
        ('deque-setmaxlen', [1, F1m, 3, 4], -1, [o('setmaxlen', m=2)]),
        ('deque-extend', [1], -1, [o('extend', vs=[6, F2m, 7]), o('extendleft', vs=[8, 9])]),
        ('deque-rotate', [1, F1m, 3], -1, [o('rotate', n=1), o('rotate', n=-2)]),
        ('deque-reverse', [1, F1m, 3], -1, [o('reverse')]),
    ]
    ix = [
        ('index-setitem', [[1, 1], [2, F1m], [7, 3]], 0, [o('setitem', k=2, v=F2m), o('setitem', k=8, v=5), o('setitem', k=1, v=F1m)]),
        ('index-remove', [[1, 1], [2, F1m], [7, 3]], 0, [o('delitem', k=2), o('pop', k=1, d=[]), o('popitem', last=1)]),
        ('index-setdefault', [[1, 1]], 0, [o('setdefault', k=8, v=F2m), o('setdefault', k=1, v=9)]),
        ('index-update', [[1, 1], [2, F1m]], 0, [o('update', pairs=[[8, 4], [2, 6], [7, F2m]])]),
        ('index-clear', [[1, 1], [2, F1m], [7, 3]], 0, [o('clear')]),
    ]
    return [('deque',) + w for w in dq] + [('index',) + w for w in ix]


def _enum_obj(kind, name, init, maxlen, ops, base_tid):
    t0 = killdriver.run_kill_obj(kind, init, maxlen, ops, 0, base_tid)
    t0['workload'] = name
    out = [t0]
    for n in range(1, t0['points'] + 1):
        t = killdriver.run_kill_obj(kind, init, maxlen, ops, n, base_tid + n)
        t['workload'] = name
        t['point'] = t0['kinds'][n - 1]
        out.append(t)
    return out


def _enum_fan(shards, base_tid):
    t0 = killdriver.run_kill_fanout_create(shards, 0, base_tid)
    out = [t0]
    for n in range(1, t0['points'] + 1):
        out.append(killdriver.run_kill_fanout_create(shards, n, base_tid + n))
    for t in out:
        t['workload'] = 'create a FanoutCache with %d shards, then set' % shards
        t['point'] = 'event %d of the creation' % t['kill_at']
    return out


def _async(cfg, name, init, ops, delay, tid):
    t = killdriver.run_kill(cfg, init, ops, 0, tid, async_delay=delay)
    t['workload'] = name
    return [t]


def run(prop, tier, seed):
    out = Outcome('C07', tier, seed)
    out.level = 'fault_enumeration'
    rng = random.Random(seed * 32452843 + 7)
    jobs = []
    tid = 0
    wl = workloads(rng, tier)
    if tier == 'quick':
        rng.shuffle(wl)
        keep = [w for w in wl if w[0] in ('pop-file', 'set-file-over-file', 'block-baseexception-then-writes')]
        wl = keep + [w for w in wl if w not in keep][:9]
    for name, init, ops in wl:
        for stats in ((False,) if tier == 'quick' else (False, True)):
            cfg = dict(policy='lru' if stats else 'lrs', cull=0, limit=2 ** 30, stats=stats, now=1)
            jobs.append((cfg, name, init, ops, tid))
            tid += 1000
    # the victim creates the cache itself (first open of an empty directory), then works
    for stats in (False, True):
        cfg = dict(policy='lfu' if stats else 'lru', cull=0, limit=2 ** 29, stats=stats, now=1, fresh=1)
        jobs.append((cfg, 'create-then-set', [], [op('set', k=KA, v=5, ttl=[], tag=0), op('set', k=KB, v=F1, ttl=[], tag=0)], tid))
        tid += 1000
    design_level(out, 'C07', tier)
    res = pmap(_enum, jobs, procs=14)
    # the creation of a sharded cache: every statement / file operation of FanoutCache(directory, shards=n) is a kill point
    fres = pmap(_enum_fan, [(sh, tid + 1000 * i) for i, sh in enumerate((2,) if tier == 'quick' else (2, 3, 8))], procs=3)
    res = res + fres
    traces = [t for lst in res for t in lst]
    points = sum(lst[0]['points'] for lst in res)
    out.notes['kill_points_in_sharded_creation'] = sum(lst[0]['points'] for lst in fres)
    if tier == 'thorough':
        ajobs = []
        for i in range(600):
            name, init, ops = rng.choice(wl)
            cfg = dict(policy='lrs', cull=0, limit=2 ** 30, stats=False, now=1)
            ajobs.append((cfg, name, init, ops, rng.random() * 0.02, 10 ** 6 + i))
        traces += [t for lst in pmap(_async, ajobs, procs=14) for t in lst]
    for i, t in enumerate(traces):
        t['id'] = i + 1
    out.traces = len(traces)
    out.events = sum(len(t['ev']) for t in traces)
    verdicts, st, tr = validate_all('KillTrace.tla', 'KillTrace.cfg', traces, batch_events=40000)
    out.states += st
    out.transitions += tr
    byid = {t['id']: t for t in traces}
    findings = {f['deviation']: f for f in known_findings('C07') if 'deviation' in f}
    changed = set()
    for tid_, v in sorted(verdicts.items()):
        t = byid[tid_]
        if v['ok']:
            for d in v.get('known', []):
                if d in findings:
                    out.known(findings[d], '(kill inside a transact() block, workload %s at point %s)' % (t['workload'], t.get('kill_at')))
                else:
                    out.violation('needs unlisted deviation %s' % d, {'workload': t['workload'], 'kill_at': t['kill_at']})
            changed.add((t['workload'], t.get('point'), str(t['ev'][-1].get('rows'))))
            continue
        out.violation('workload %s killed before boundary event %s (%s): %s'
                      % (t['workload'], t['kill_at'], t.get('point'), v['why']),
                      {'workload': t['workload'], 'initops': t['initops'], 'ops': t['ops'], 'kill_at': t['kill_at'],
                       'events': t['ev'], 'verdict': v})
    # Deque and Index operations under the same enumeration, judged against DequeOps / IndexOps
    owl = obj_workloads()
    # (every workload in both tiers: they are short)
    ojobs = [(kind, name, init, maxlen, ops, 5 * 10 ** 6 + 1000 * i) for i, (kind, name, init, maxlen, ops) in enumerate(owl)]
    ores = pmap(_enum_obj, ojobs, procs=14)
    otr = [t for lst in ores for t in lst]
    for i, t in enumerate(otr):
        t['id'] = i + 1
    import harness.common as _c
    _c.TRACE_FIELDS = ('id', 'kind', 'init', 'maxlen', 'ev')
    overd, st, tr = validate_all('ObjKillTrace.tla', 'ObjKillTrace.cfg', otr, batch_events=20000)
    out.states += st
    out.transitions += tr
    out.traces += len(otr)
    out.events += sum(len(t['ev']) for t in otr)
    points += sum(lst[0]['points'] for lst in ores)
    obyid = {t['id']: t for t in otr}
    for tid_, v in sorted(overd.items()):
        t = obyid[tid_]
        if v['ok']:
            for d in v.get('known', []):
                if d in findings:
                    out.known(findings[d], '(workload %s killed before boundary event %s: %s)' % (t['workload'], t.get('kill_at'), t.get('point')))
                else:
                    out.violation('needs unlisted deviation %s' % d, {'workload': t['workload'], 'kill_at': t['kill_at']})
            continue
        out.violation('workload %s killed before boundary event %s (%s): %s' % (t['workload'], t['kill_at'], t.get('point'), v['why']),
                      {'workload': t['workload'], 'init': t['init'], 'ops': t['ops'], 'kill_at': t['kill_at'], 'events': t['ev'], 'verdict': v})
    out.notes['deque_index_workloads'] = [w[1] for w in owl]
    for t in traces[1:3]:
        out.samples.append({'workload': t['workload'], 'kill_before_event': t['kill_at'], 'kind': t.get('point'),
                            'observation': t['ev'][-1]})
    out.assumptions += ['SQLite atomic commit and lock release on process death are trusted',
                        'kill points: immediately before every database statement and every file / directory operation of the victim; '
                        'asynchronous kills inside SQLite only in the thorough tier (sampled)',
                        'Deque and Index workloads: the same enumeration, contents listed by a fresh Deque / Index, judged against DequeOps / IndexOps (ObjKillTrace.tla)']
    return out.finish({'evaluations': len(traces), 'distinct_nontrivial': len(changed),
                       'kill_points_enumerated': points,
                       'rule': 'each workload is first run to completion in a forked child counting its boundary events (N), then re-run N times, the child '
                               'SIGKILLing itself immediately before the n-th event; a fresh handle then observes contents, readability of every present key, '
                               'check(), a write, check(fix=True)+check(); each run is validated by TLC against KillTrace.tla; distinct_nontrivial = distinct '
                               '(workload, kind of event, contents found) combinations',
                       'workloads': [w[0] for w in wl]})
