"""C20: Averager and throttle."""
import random

from .. import recipedriver, sched, common
from ..common import Outcome, pmap, validate_all
from ..envctl import MachineryError
from ..tlc import run_tlc

THROTTLE_MODELS = {'quick': [('ok', '2 callers x 2 calls, 2 per period, 1/2-token grid, 16 ticks')],
                   'thorough': [('ok', '2 callers x 2 calls, 2 per period, 1/2-token grid, 16 ticks'),
                                ('big', '3 callers x 2 calls, 2 per period, 1/2-token grid, 22 ticks'),
                                ('rate3', '2 callers x 3 calls, 3 per period, 1/3-token grid, 24 ticks')]}


def design_level(out, tier):
    """Throttle.tla: the token bucket explored exhaustively (RateBound, TallyBounded, EventuallyThrough under fairness);
    without the cap on the refilled tally the model must break."""
    for name, what in THROTTLE_MODELS[tier]:
        res = run_tlc('MCThrottle.tla', 'MCThrottle_%s.cfg' % name, workers=16, timeout=1500)
        if res.error or res.violation:
            raise MachineryError('design model MCThrottle_%s: %s %s\n%s' % (name, res.error, res.violation, res.out[-1500:]))
        out.add_tlc('MCThrottle_%s.cfg' % name, res, what + '; RateBound, TallyBounded, EventuallyThrough')
    res = run_tlc('MCThrottle.tla', 'MCThrottle_nocap.cfg', workers=1, timeout=300)
    if res.violation not in ('TallyBounded', 'RateBound'):
        raise MachineryError('MCThrottle_nocap was expected to violate TallyBounded or RateBound, got %s %s' % (res.violation, res.error))
    rej = ['nocap (refilled tally not capped at count) violates %s' % res.violation]
    res = run_tlc('MCAverager.tla', 'MCAverager_ok.cfg', workers=8, timeout=600)
    if res.error or res.violation:
        raise MachineryError('design model MCAverager_ok: %s %s\n%s' % (res.error, res.violation, res.out[-1500:]))
    out.add_tlc('MCAverager_ok.cfg', res, '3 clients, values {1,2}, <= 5 operations add/get/pop; EveryAddCounted, AllAddsFinish')
    res = run_tlc('MCAverager.tla', 'MCAverager_dev.cfg', workers=1, timeout=300)
    if res.violation != 'EveryAddCounted':
        raise MachineryError('MCAverager_dev was expected to violate EveryAddCounted, got %s %s' % (res.violation, res.error))
    rej.append('Averager.add without its transaction block violates EveryAddCounted (lost update)')
    out.notes['design_deviations_rejected'] = rej
    # unbounded safety of the token bucket: an inductive invariant discharged by Apalache (any number of ticks / calls)
    import os, shutil, subprocess, tempfile
    from .. import SPEC
    apa = shutil.which('apalache-mc')
    if apa:
        d = tempfile.mkdtemp(prefix='apa-', dir='/dev/shm')
        try:
            results = []
            for mod, init, inv, length, want in (('ThrottleInd.tla', 'Init', 'IndInv', 0, True), ('ThrottleInd.tla', 'IndInit', 'IndInv', 1, True),
                                                 ('ThrottleInd.tla', 'IndInit', 'RateFromZero', 0, True), ('ThrottleIndNoCap.tla', 'IndInit', 'IndInv', 1, False),
                                                 ('AveragerInd.tla', 'Init', 'IndInv', 0, True), ('AveragerInd.tla', 'IndInit', 'IndInv', 1, True)):
                from ..tlc import run_group
                rc_, stdout_ = run_group([apa, 'check', '--init=' + init, '--inv=' + inv, '--length=%d' % length, '--out-dir=' + d, mod],
                                         os.path.join(SPEC, 'apalache'), 900)
                ok = 'EXITCODE: OK' in stdout_
                if ok != want:
                    raise MachineryError('Apalache %s %s/%s length %d: expected %s\n%s' % (mod, init, inv, length, 'OK' if want else 'a violation', stdout_[-1200:]))
                results.append('%s --init=%s --inv=%s --length=%d: %s' % (mod, init, inv, length, 'holds' if ok else 'violated (as it must be)'))
            out.notes['apalache_inductive_invariant'] = results
        finally:
            shutil.rmtree(d, ignore_errors=True)
    # ... and proved with TLAPS for ARBITRARY Count, Q >= 1 (the uncapped variant must not be provable)
    tlapm = shutil.which('tlapm')
    if tlapm:
        d = tempfile.mkdtemp(prefix='tlaps-', dir='/dev/shm')
        try:
            res = []
            # (the unprovable variant ThrottleProofNoCap.tla is kept in spec/tlaps for the reader: running it sends the back
            #  ends on a long search, so it is not part of the check)
            for mod, want in (('ThrottleProof.tla', True), ('AveragerProof.tla', True)):
                shutil.copy(os.path.join(SPEC, 'tlaps', mod), d)
                from ..tlc import run_group
                rc_, stdout_ = run_group([tlapm, '--cleanfp', mod], d, 600)
                ok = 'obligations proved' in stdout_ and 'failed' not in stdout_
                if ok != want:
                    raise MachineryError('TLAPS %s: expected a complete proof\n%s' % (mod, stdout_[-1200:]))
                res.append('%s: %s' % (mod, [l for l in stdout_.splitlines() if 'obligations' in l][-1].strip()))
            out.notes['tlaps_proof'] = res
        finally:
            shutil.rmtree(d, ignore_errors=True)


def _avg_dfs(cfg, prog, bound, max_runs, seed):
    ex = sched.DFSExplorer(bound, max_runs)
    out = []
    while ex.next():
        out.append(recipedriver.run_averager(cfg, prog, ex.strategy(), seed, 0))
    return out


def _avg_rand(cfg, prog, seed):
    rng = random.Random(seed)
    return [recipedriver.run_averager(cfg, prog, sched.random_strategy(rng, rng.choice([0.2, 0.5, 0.8])), seed, 0)]


def _thr(cfg, arrivals, seed):
    rng = random.Random(seed)
    return [recipedriver.run_throttle(cfg, arrivals, sched.random_strategy(rng, 0.5), seed, 0)]


def run(prop, tier, seed):
    out = Outcome('C20', tier, seed)
    design_level(out, tier)
    rng = random.Random(seed * 198491317 + 20)
    dfs, rnd, thr = [], [], []
    vals = [1, 2, 4]
    progs = [{1: [('add', 1)], 2: [('add', 2)]}, {1: [('add', 1), ('get',)], 2: [('add', 4)]},
             {1: [('add', 2)], 2: [('pop',)]}, {1: [('add', 1)], 2: [('add', 2)], 3: [('get',)]},
             {1: [('add', 4), ('add', 1)], 2: [('pop',), ('add', 2)]}, {1: [('add', 1)], 2: [('add', 2)], 3: [('add', 4)]}]
    for p in progs:
        for shared in (0, 1):
            dfs.append(({'shared': shared}, p, 2, 80 if tier == 'quick' else 500, seed))
        for key in ('a', 'k1'):
            dfs.append(({'shared': 0, 'fanout': 3, 'key': key}, p, 2, 60 if tier == 'quick' else 300, seed))
    for i in range(60 if tier == 'quick' else 1500):
        prog = {c: [rng.choice([('add', rng.choice(vals)), ('add', rng.choice(vals)), ('get',), ('pop',)]) for _ in range(rng.randint(1, 3))]
                for c in range(1, rng.choice([2, 3]) + 1)}
        cfg_ = {'shared': rng.randrange(2)}
        if rng.random() < 0.35:
            # the Averager in a FanoutCache with several shards (its block spans all of them), keys on different shards
            cfg_.update(fanout=rng.choice([2, 3]), key=rng.choice(['latency', 'a', 'b', 'size', 'k1']))
        rnd.append((cfg_, prog, seed * 1000 + i))
    for i in range(60 if tier == 'quick' else 1200):
        count, seconds = rng.choice([(1, 1), (2, 1), (3, 2), (1, 2)])
        q = 4
        callers = rng.choice([1, 1, 2, 3])
        arrivals = {}
        for c in range(1, callers + 1):
            pattern = rng.choice(['burst', 'idle-burst', 'steady', 'random'])
            n = rng.randint(2, 7)
            if pattern == 'burst':
                gaps = [0] * n
            elif pattern == 'idle-burst':
                gaps = [0, 0, rng.choice([12, 20, 40])] + [0] * n
            elif pattern == 'steady':
                gaps = [rng.choice([1, 2, 4])] * n
            else:
                gaps = [rng.choice([0, 0, 1, 2, 3, 5, 9]) for _ in range(n)]
            arrivals[c] = gaps
        thr.append(({'count': count, 'seconds': seconds, 'q': q}, arrivals, seed * 1000 + i))
    traces = ([t for lst in pmap(_avg_dfs, dfs, procs=14) for t in lst] + [t for lst in pmap(_avg_rand, rnd, procs=14) for t in lst]
              + [t for lst in pmap(_thr, thr, procs=14) for t in lst])
    for i, t in enumerate(traces):
        t['id'] = i + 1
    out.traces = len(traces)
    out.events = sum(len(t['ev']) for t in traces)
    common.TRACE_FIELDS = ('id', 'nc', 'kind', 'ev', 'count', 'secq', 'q', 'calls', 'starts', 'starts_hi', 'seconds')
    verdicts, st, tr = validate_all('RecipesTrace.tla', 'RecipesTrace.cfg', traces, batch_events=40000)
    out.states += st
    out.transitions += tr
    byid = {t['id']: t for t in traces}
    for tid_, v in sorted(verdicts.items()):
        if not v['ok']:
            t = byid[tid_]
            out.violation('%s %s rejected at event %d: %s | program=%s schedule=%s' % (t['kind'], t['cfg'], v['at'], v['why'], t['program'], t['schedule'][:50]),
                          {'trace': t, 'verdict': v})
    out.samples.append({'averager': [t for t in traces if t['kind'] == 'avg'][0]['program'],
                        'throttle': {'cfg': [t for t in traces if t['kind'] == 'thr'][0]['cfg'], 'arrivals': [t for t in traces if t['kind'] == 'thr'][0]['program'],
                                     'starts': [t for t in traces if t['kind'] == 'thr'][0]['starts']}})
    out.notes.update({'averager_schedules': sum(1 for t in traces if t['kind'] == 'avg'), 'throttle_runs': sum(1 for t in traces if t['kind'] == 'thr'),
                      'throttle_starts_checked': sum(len(t['starts']) for t in traces if t['kind'] == 'thr')})
    out.level = 'model_checking'
    return out.finish({'evaluations': len(traces), 'distinct_nontrivial': len({str(t['program']) + str(t['cfg']) for t in traces}),
                       'rule': 'Averager: scheduler-enumerated (<= 2 preemptions) and random schedules of 2-3 adders/poppers/readers, the pair published by every COMMIT '
                               'validated by TLC; throttle: rates (1/1, 2/1, 3/2, 1/2) x 1-3 callers x arrival patterns (burst, idle then burst, steady, random) under a virtual clock, '
                               'every pass of the loop checked by TLC as a step of Throttle!Try (pair read = pair stored last; start/cap/sleep follow from it) and the start history against RateBound; distinct = distinct programs'})
