"""C11: diskcache.Deque against collections.deque (DequeOps.tla)."""
import random

from .. import dequedriver, concdriver, sched
from ..common import Outcome, pmap, validate_all, known_findings
from ..envctl import MachineryError
from ..tlc import run_tlc
from .conc import op


def _seq(ops, maxlen, impl, via, seed, tid):
    return dequedriver.run_seq(ops, maxlen, impl, via, seed, tid)


def _conc_dfs(cfg, prog, bound, max_runs, seed, base_tid):
    ex = sched.DFSExplorer(bound, max_runs)
    out = []
    while ex.next():
        t = concdriver.run_program(cfg, prog, ex.strategy(), seed, 0)
        out.append(slim(t, {1} if cfg.get('lock_client') else ()))
    return out


def _conc_rand(cfg, prog, seed):
    rng = random.Random(seed)
    t = concdriver.run_program(cfg, prog, sched.random_strategy(rng, rng.choice([0.2, 0.5, 0.8])), seed, 0)
    return [slim(t)]


def slim(t, drop=()):
    ev = []
    for e in t['ev']:
        if e.get('c') in drop:
            continue                 # the independent lock holder (a raw connection): not a Deque client
        if e['ev'] in ('call', 'ret'):
            ev.append({k: e[k] for k in ('ev', 'c', 'op', 'a', 'ret') if k in e})
        elif e['ev'] in ('commit', 'awrite', 'final'):
            ev.append({'ev': e['ev'], 'c': e['c'], 'items': e['items']})
    return {'kind': 'conc', 'nc': t['nc'], 'init': {'items': t['init']['items'], 'maxlen': t['init']['maxlen']},
            'program': t['program'], 'schedule': t['schedule'], 'ev': ev}


def run(prop, tier, seed):
    out = Outcome('C11', tier, seed)
    rng = random.Random(seed * 86028121 + 11)
    res = run_tlc('MCDeque.tla', 'MCDeque.cfg', workers=16, timeout=300)
    if res.error or res.violation:
        raise MachineryError('MCDeque: %s %s\n%s' % (res.error, res.violation, res.out[-2000:]))
    out.add_tlc('MCDeque.cfg', res, 'refinement of the composed cache operations to the pure deque: values {1,2}, maxlen {None,0,1,2}, <= 3 items')
    # sequential histories: diskcache.Deque (direct, via FanoutCache.deque, via DjangoCache.deque) and collections.deque
    jobs = []
    tid = 0
    n, length = (80, 60) if tier == 'quick' else (1200, 120)
    for i in range(n):
        maxlen = rng.choice([-1, -1, 0, 1, 2, 3, 5])
        ops = dequedriver.random_ops(rng, length, maxlen)
        via = rng.choice(['Deque', 'Deque', 'Deque', 'fanout', 'django'])
        tid += 1
        jobs.append((ops, maxlen, 'diskcache', via, seed + i, tid))
        if i % 2 == 0:
            # the same plan through the standard library: validates DequeOps itself
            ops2 = [o for o in ops if not (o['op'] == 'setmaxlen')]
            tid += 1
            jobs.append((ops2, maxlen, 'stdlib', 'Deque', seed + i, tid))
    # histories with transact() blocks (ended or raised, nested), also through collections.deque with saved copies
    for i in range(20 if tier == 'quick' else 300):
        maxlen = rng.choice([-1, -1, 2, 3, 5])
        ops = dequedriver.block_ops(rng, length // 2, maxlen)
        tid += 1
        jobs.append((ops, maxlen, 'diskcache', rng.choice(['Deque', 'Deque', 'fanout']), seed + 7000 + i, tid))
        if i % 3 == 0:
            tid += 1
            jobs.append((ops, maxlen, 'stdlib', 'Deque', seed + 7000 + i, tid))
    traces = pmap(_seq, jobs, procs=14)
    # concurrent producers / consumers
    cj_dfs, cj_rand = [], []
    prod = lambda v: {'op': 'append', 'a': {'v': v}}
    cons = [{'op': 'popleft', 'a': {}}, {'op': 'pop', 'a': {}}, {'op': 'peekleft', 'a': {}}, {'op': 'len', 'a': {}},
            {'op': 'getitem', 'a': {'i': 0}}, {'op': 'appendleft', 'a': {'v': 9}}, {'op': 'remove', 'a': {'v': 1}}, {'op': 'remove', 'a': {'v': 2}}]
    # removal by value against a consumer of the same item: it either removes an item or reports that there is none
    for other in ({'op': 'popleft', 'a': {}}, {'op': 'remove', 'a': {'v': 1}}, {'op': 'pop', 'a': {}}):
        for init in ([1, 2, 1], [1], [2, 1]):
            cfg = dict(policy='none', cull=10, limit=2 ** 30, stats=False, shared=0, kind='deque', maxlen=-1, timeout=0, busy_budget=2, init_items=init)
            cj_dfs.append((cfg, {1: [{'op': 'remove', 'a': {'v': 1}}], 2: [other]}, 2, 60 if tier == 'quick' else 300, seed, 0))
    # a lowered maxlen against a concurrent consumer / producer: only the surplus is discarded
    for m in (1, 2):
        for other in ({'op': 'popleft', 'a': {}}, {'op': 'pop', 'a': {}}, {'op': 'append', 'a': {'v': 7}}):
            cfg = dict(policy='none', cull=10, limit=2 ** 30, stats=False, shared=0, kind='deque', maxlen=-1, timeout=0,
                       busy_budget=2, init_items=[1, 2, 3][:m + 1])
            cj_dfs.append((cfg, {1: [{'op': 'setmaxlen', 'a': {'m': m}}], 2: [other]}, 2, 60 if tier == 'quick' else 300, seed, 0))
    # every operation of a Deque waits for the write lock (C14): an independent connection holds it when the operation
    # starts or takes it while the operation works, and gives it up after a failed attempt - no operation may fail
    for o in ({'op': 'append', 'a': {'v': 7}}, {'op': 'appendleft', 'a': {'v': 7}}, {'op': 'pop', 'a': {}}, {'op': 'popleft', 'a': {}},
              {'op': 'setitem', 'a': {'i': 1, 'v': 8}}, {'op': 'delitem', 'a': {'i': 0}}, {'op': 'extend', 'a': {'vs': [5, 6]}},
              {'op': 'remove', 'a': {'v': 2}}, {'op': 'rotate', 'a': {'n': 1}}, {'op': 'reverse', 'a': {}}, {'op': 'clear', 'a': {}},
              {'op': 'setmaxlen', 'a': {'m': 2}}):
        cfg = dict(policy='none', cull=10, limit=2 ** 30, stats=False, shared=0, kind='deque', maxlen=-1, timeout=0, busy_budget=1,
                   init_items=[1, 2, 3], lock_client=1)
        cj_dfs.append((cfg, {1: [op('lock'), op('unlock')], 2: [o, {'op': 'len', 'a': {}}]}, 2, 25 if tier == 'quick' else 120, seed, 0))
    k = 14 if tier == 'quick' else 150
    for i in range(k):
        maxlen = rng.choice([-1, -1, 1, 2])
        cfg = dict(policy='none', cull=10, limit=2 ** 30, stats=False, shared=0, kind='deque', maxlen=maxlen, timeout=0,
                   busy_budget=2, init_items=[rng.choice([1, 2, 3]) for _ in range(rng.randint(0, 2))][:(maxlen if maxlen >= 0 else 9)])
        prog = {1: [prod(10 + j) for j in range(rng.randint(1, 2))], 2: [rng.choice(cons) for _ in range(rng.randint(1, 2))]}
        if rng.random() < 0.4:
            prog[3] = [prod(20), rng.choice(cons)]
        cj_dfs.append((cfg, prog, 2, 40 if tier == 'quick' else 250, seed, 0))
    for i in range(60 if tier == 'quick' else 1500):
        maxlen = rng.choice([-1, -1, 1, 2, 3])
        cfg = dict(policy='none', cull=10, limit=2 ** 30, stats=False, shared=rng.randrange(2), kind='deque', maxlen=maxlen,
                   timeout=0, busy_budget=2, init_items=[rng.choice([1, 2, 3]) for _ in range(rng.randint(0, 3))][:(maxlen if maxlen >= 0 else 9)])
        prog = {c: [rng.choice([prod(100 * c + j)] + cons + [{'op': 'rotate', 'a': {'n': 1}}]) for j in range(rng.randint(1, 3))]
                for c in range(1, rng.choice([2, 3, 3]) + 1)}
        cj_rand.append((cfg, prog, seed * 1000 + i))
    ctr = [t for lst in pmap(_conc_dfs, cj_dfs, procs=14) for t in lst] + [t for lst in pmap(_conc_rand, cj_rand, procs=14) for t in lst]
    alltr = traces + ctr
    for i, t in enumerate(alltr):
        t['id'] = i + 1
    out.traces = len(alltr)
    out.events = sum(len(t['ev']) for t in alltr)
    from .. import common
    common.TRACE_FIELDS = ('id', 'nc', 'init', 'ev', 'kind')
    verdicts, st, tr = validate_all('DequeTrace.tla', 'DequeTrace.cfg', alltr, batch_events=40000)
    out.states += st
    out.transitions += tr
    byid = {t['id']: t for t in alltr}
    for tid_, v in sorted(verdicts.items()):
        if v['ok']:
            continue
        t = byid[tid_]
        if t.get('impl') == 'stdlib':
            raise MachineryError('DequeOps.tla disagrees with collections.deque itself: %s' % v)
        if t['kind'] == 'seq':
            desc = 'history (maxlen=%s, via %s) rejected at operation %d: %s | %s' % (
                t['init']['maxlen'], t.get('via'), v['at'], v['why'], str(t['ev'][v['at'] - 1])[:300])
            out.violation(desc, {'trace': t, 'verdict': v})
        else:
            out.violation('schedule rejected at event %d: %s | program=%s schedule=%s' % (
                v['at'], v['why'], str(t['program'])[:300], t['schedule'][:60]), {'trace': t, 'verdict': v})
    out.samples.append({'maxlen': traces[0]['init']['maxlen'], 'ops': [[e['op'], e['a'], e['ret']] for e in traces[0]['ev'][:15]]})
    out.notes.update({'sequential_histories': len(traces), 'stdlib_cross_check_histories': sum(1 for t in traces if t.get('impl') == 'stdlib'),
                      'concurrent_schedules': len(ctr)})
    out.assumptions += ['reading Deque.maxlen of an unbounded Deque (inf instead of None) and reopening with a maxlen below the '
                        'current length are outside the compared behaviour (see DESIGN.md)',
                        'rotate/reverse/extend/clear/remove are sequences of transactions: under concurrency only their combined effect at quiescence is compared']
    return out.finish()
