"""C18: data and settings persist and are shared by every handle; the released format stays readable."""
import hashlib
import json
import os
import random
import shutil

from .. import gen, seqdriver, common, envctl, VERIF
from ..common import Outcome, pmap, validate_all
from ..envctl import MachineryError

FIX = os.path.join(VERIF, 'fixtures', 'released')


def fixture_items():
    keys = ['', 'a', 'text-key', 'é', b'', b'bytes', b'\x00\xff', 0, 1, -1, 2 ** 63 - 1, -2 ** 63, 2 ** 63, 2 ** 70, 0.5, -0.0, 1e300,
            float('inf'), None, True, False, (1, 2), ('a', (1, 2.5)), frozenset([1, 2])]
    vals = [5, -7, 2.5, 'short', 's\r\n' * 3000, b'by', b'B' * 9000, None, True, (1, 'two', 3.0), {'k': [1, 2, 3] * 2000}, float('inf')]
    return keys, vals


def digest(v):
    if hasattr(v, 'read'):
        v = v.read()
    return hashlib.sha1((type(v).__name__ + ':' + repr(v)).encode('utf-8', 'backslashreplace')).hexdigest()[:16]


def read_back(root):
    """everything a user can read from the reference directory, as {name: digest}"""
    import diskcache
    out = {}
    c = diskcache.Cache(os.path.join(root, 'cache-disk'))
    out['disk.settings'] = digest((c.eviction_policy, c.cull_limit, c.size_limit, c.statistics, c.disk_min_file_size, c.disk_pickle_protocol))
    out['disk.len'] = digest(len(c))
    out['disk.keys'] = digest([(type(k).__name__, repr(k)) for k in c])
    for k in list(c):
        out['disk.item.%s:%r' % (type(k).__name__, k)] = digest(c.get(k, expire_time=True, tag=True))
    out['disk.check'] = digest([str(w.message) for w in c.check()])
    c.close()
    j = diskcache.Cache(os.path.join(root, 'cache-json'), disk=diskcache.JSONDisk)
    out['json.keys'] = digest(list(j))
    for k in list(j):
        out['json.item.%r' % (k,)] = digest(j[k])
    out['json.compress_level'] = digest(getattr(j.disk, 'compress_level', None))
    j.close()
    f = diskcache.FanoutCache(os.path.join(root, 'fanout3'), shards=3)
    keys, vals = fixture_items()
    out['fanout.len'] = digest(len(f))
    for k in keys:
        out['fanout.item.%s:%r' % (type(k).__name__, k)] = digest(f.get(k, default='<missing>'))
    out['fanout.deque'] = digest(list(f.deque('dq')))
    out['fanout.index'] = digest(list(f.index('ix').items()))
    out['fanout.shard-of-keys'] = digest(sorted((repr(k), s) for s, sh in enumerate(f._shards) for k in sh))
    f.close()
    d = diskcache.Deque(directory=os.path.join(root, 'deque'))
    out['deque'] = digest(list(d)); d.cache.close()
    x = diskcache.Index(os.path.join(root, 'index'))
    out['index'] = digest(list(x.items())); x.cache.close()
    return out


FIX2 = os.path.join(VERIF, 'fixtures', 'released2')
JKEYS = ['\u00e9', '\u043a\u043b\u044e\u0447', '\u65e5\u672c', 'ascii', ['list', '\u00e9', 1], 1.5, None, True,
         {'b': 1, 'a': 2}, ['x', {'z': 1, 'm': [2, {'k': 0, 'c': 1}]}]]        # mappings whose insertion order is not the sorted one
JVALS = ['\u00fcber', 'x' * 10, ['\u00e9', {'\u043a': [1, None]}], '\u65e5' * 3000, {'n': 1.5}]


def write_fixture2(root):
    """second reference directory: JSONDisk with non-ASCII keys and values (Cache and 3-shard FanoutCache), text values with
    non-ASCII characters in files.  Written ONCE by the pinned version (tools/mkfixtures2.py)."""
    import diskcache
    j = diskcache.Cache(os.path.join(root, 'json-keys'), disk=diskcache.JSONDisk, disk_compress_level=3, disk_min_file_size=2 ** 12)
    for i, k in enumerate(JKEYS):
        j.set(k, JVALS[i % len(JVALS)], tag='t' if i % 2 else None)
    j.close()
    f = diskcache.FanoutCache(os.path.join(root, 'fanout-json'), shards=3, disk=diskcache.JSONDisk, disk_min_file_size=2 ** 12)
    for i, k in enumerate(JKEYS):
        f.set(k, JVALS[(i + 2) % len(JVALS)])
    f.close()
    t = diskcache.Cache(os.path.join(root, 'text'), disk_min_file_size=2 ** 10)
    for i, v in enumerate(['\u00e9' * 2000, '\ufeffbom' + 'z' * 3000, 'a\u2028b' * 800, '\U0001f600' * 600]):
        t['t%d' % i] = v
    t.close()


def read_back2(root):
    import diskcache
    out = {}
    j = diskcache.Cache(os.path.join(root, 'json-keys'), disk=diskcache.JSONDisk)
    out['json2.len'] = digest(len(j))
    for k in JKEYS:
        out['json2.item.%r' % (k,)] = digest(j.get(k, default='<missing>', tag=True))
    j.close()
    f = diskcache.FanoutCache(os.path.join(root, 'fanout-json'), shards=3, disk=diskcache.JSONDisk)
    out['fjson.len'] = digest(len(f))
    for k in JKEYS:
        out['fjson.item.%r' % (k,)] = digest(f.get(k, default='<missing>'))
    f.close()
    t = diskcache.Cache(os.path.join(root, 'text'))
    for i in range(4):
        out['text.t%d' % i] = digest(t.get('t%d' % i, default='<missing>'))
    t.close()
    return out


def wrappers_scenario():
    """Factories and wrappers hand their arguments on, and what one handle stores every other handle reads:
    a list of (what, expected, observed) judged like the fixture."""
    import diskcache
    import pickle as _p
    from diskcache.djangocache import DjangoCache
    root = envctl.scratch('wrap')
    ev = []

    def rec(what, exp, obs):
        ev.append({'what': what, 'exp': digest(exp), 'obs': digest(obs)})
    try:
        fan = diskcache.FanoutCache(os.path.join(root, 'f'), shards=3, disk=diskcache.JSONDisk, disk_compress_level=2, timeout=0.25)
        sub = fan.cache('sub', timeout=0.5)
        rec('fanout.cache(timeout=)', 0.5, sub.timeout)
        rec('fanout.cache disk class', 'JSONDisk', type(sub.disk).__name__)
        dq = fan.deque('dq', maxlen=3)
        rec('fanout.deque(maxlen=)', 3, dq.maxlen)
        rec('fanout.deque eviction policy', 'none', dq.cache.eviction_policy)
        rec('fanout.deque disk class', 'JSONDisk', type(dq.cache.disk).__name__)
        ix = fan.index('ix')
        rec('fanout.index eviction policy', 'none', ix.cache.eviction_policy)
        rec('fanout.index disk class', 'JSONDisk', type(ix.cache.disk).__name__)
        ix['k'] = [1, 'x']
        other = diskcache.Cache(ix.directory, disk=diskcache.JSONDisk)
        rec('item of fanout.index through a JSONDisk Cache on its directory', [1, 'x'], other.get('k'))
        other.close()
        rec('fanout.cache(name) twice is one object', True, fan.cache('sub') is sub)
        g = _p.loads(_p.dumps(fan))
        rec('unpickled FanoutCache: shard directories', 3, len([n for n in os.listdir(fan.directory) if n.isdigit()]))
        rec('unpickled FanoutCache: disk class', 'JSONDisk', type(g.disk).__name__)
        rec('unpickled FanoutCache: timeout', 0.25, g.timeout)
        # two live handles: a setting stored through one is what the other (and a later handle) stores over it
        a, b = diskcache.FanoutCache(os.path.join(root, 'g'), shards=2), diskcache.FanoutCache(os.path.join(root, 'g'), shards=2)
        a.reset('cull_limit', 0)
        b.reset('cull_limit', 10)
        c = diskcache.FanoutCache(os.path.join(root, 'g'), shards=2)
        rec('reset through a second handle is stored', [10, 10], [sh.cull_limit for sh in (diskcache.Cache(os.path.join(root, 'g', '%03d' % i)) for i in range(2))])
        rec('reset(key) reads the stored value', 10, a.reset('cull_limit'))
        for x in (a, b, c):
            x.close()
        # a FanoutCache opened again: arguments that are given replace the stored settings (the size limit divided among
        # the shards), arguments that are not given leave them as they are stored
        hdir = os.path.join(root, 'h')
        h1 = diskcache.FanoutCache(hdir, shards=4, size_limit=2 ** 24, cull_limit=3, eviction_policy='least-recently-used')
        h1.close()
        h2 = diskcache.FanoutCache(hdir, shards=4)
        rec('FanoutCache reopened without arguments keeps the stored settings', [2 ** 22, 3, 'least-recently-used'] * 4,
            [x for sh in h2._shards for x in (int(sh.size_limit), sh.cull_limit, sh.eviction_policy)])
        h2.close()
        h3 = diskcache.FanoutCache(hdir, shards=4, size_limit=2 ** 20, cull_limit=5)
        rec('FanoutCache reopened with size_limit= and cull_limit= uses them', [2 ** 18, 5, 'least-recently-used'] * 4,
            [x for sh in h3._shards for x in (int(sh.size_limit), sh.cull_limit, sh.eviction_policy)])
        h3.close()
        rec('... and stores them', [2 ** 18, 5] * 4,
            [x for i in range(4) for sh in [diskcache.Cache(os.path.join(hdir, '%03d' % i))] for x in (int(sh.size_limit), sh.cull_limit)])
        # routing follows the STORED disk settings: created with pickle protocol 2 (JSONDisk: compression 6), opened again
        # without them, every key is found where it was put and stored again over itself
        pkeys = [(1, 2), None, True, 2 ** 70, ('a', (2.5, None)), frozenset([3]), 'text', 7, b'raw']
        for tag_, cls_, kw_ in (('pickle protocol 2', diskcache.Disk, {'disk_pickle_protocol': 2}), ('JSONDisk level 6', diskcache.JSONDisk, {'disk_compress_level': 6})):
            rdir = os.path.join(root, 'r' + tag_[:1])
            ks = [k for k in pkeys if cls_ is diskcache.Disk or not isinstance(k, (tuple, frozenset, bytes))] + ([['l', 1], {'m': [1]}] if cls_ is diskcache.JSONDisk else [])
            r1 = diskcache.FanoutCache(rdir, shards=5, disk=cls_, **kw_)
            for i_, k in enumerate(ks):
                r1.set(k, i_)
            r1.close()
            r2 = diskcache.FanoutCache(rdir, shards=5, disk=cls_)
            rec('FanoutCache (%s) reopened without the disk setting finds every key' % tag_, list(range(len(ks))), [r2.get(k) for k in ks])
            for i_, k in enumerate(ks):
                r2.set(k, i_)
            rec('... and stores over them', len(ks), len(r2))
            r2.close()
        dj = DjangoCache(os.path.join(root, 'dj'), {'SHARDS': 4, 'DATABASE_TIMEOUT': 0.5, 'OPTIONS': {'size_limit': 2 ** 22, 'cull_limit': 7}})
        dj.set('k', 1)
        rec('DjangoCache SHARDS: shard directories', 4, len([n for n in os.listdir(dj.directory) if n.isdigit()]))
        raw = diskcache.FanoutCache(dj.directory, shards=4)
        rec('DjangoCache OPTIONS reach the shards', [7, 2 ** 20], [raw._shards[0].cull_limit, int(raw._shards[0].size_limit)])
        rec('item of DjangoCache through a FanoutCache with the same shards', 1, raw.get(':1:k'))
        raw.close()
        sub2 = dj.cache('inner')
        sub2['z'] = 5
        rec('DjangoCache.cache(name) persists', 5, diskcache.Cache(sub2.directory)['z'])
        dj.close()
        fan.close()
    except Exception as exc:
        rec('wrappers scenario ran', 'completed', type(exc).__name__ + ': ' + str(exc)[:80])
    finally:
        envctl.rm(root)
    return ev


def _hist(cfg, ops, seed, tid):
    return seqdriver.run_history(cfg, ops, seed, tid)


def lifecycle_history(rng, n):
    keys = gen.key_universe(8, rng)
    vals = gen.val_universe(rng)
    base = gen.random_history(rng, n, keys, vals, dict(clear=0.2, cull=0.5, push=3, pull=3))
    ops = []
    for o in base:
        r = rng.random()
        if r < 0.10:
            if rng.random() < 0.5:
                ops.append({'op': 'reopen', 'a': {'args': rng.randrange(2)}})
            else:
                # the database is locked for a moment at one of the statements of the open
                ops.append({'op': 'reopen', 'a': {'args': 0, 'busy': rng.choice([1, 1, 2, 3, 4, rng.randint(5, 45)])}})
                ops.append({'op': 'settings', 'a': {'fresh': 0}})
        elif r < 0.16:
            ops.append({'op': 'pickle', 'a': {}})
        elif r < 0.21:
            ops.append({'op': 'close', 'a': {}})
        elif r < 0.26:
            ops.append({'op': 'settings', 'a': {'fresh': rng.randrange(2)}})
        if o['op'] in ('set', 'add', 'get', 'incr', 'pop', 'delete', 'touch', 'contains', 'push', 'pull', 'len') and rng.random() < 0.22:
            how = rng.choice(['fork', 'thread', 'thread', 'proc'] if rng.random() < 0.3 else ['fork', 'thread'])
            ops.append({'op': 'via', 'a': {'how': how, 'inner': {'op': o['op'], 'a': o['a']}}})
        else:
            ops.append(o)
    return ops


def design_level(out, tier):
    """Lifecycle.tla: handles on one directory (create / open / busy open / close / pickle / fork / use)."""
    from ..tlc import run_tlc
    res = run_tlc('MCLifecycle.tla', 'MCLifecycle_ok.cfg', workers=8, timeout=600)
    if res.error or res.violation:
        raise MachineryError('MCLifecycle_ok: %s %s\n%s' % (res.error, res.violation, res.out[-1500:]))
    out.add_tlc('MCLifecycle_ok.cfg', res, '3 handles, <= 3 processes, create with arguments, open / busy open / close / pickle / fork / store / remove; '
                                           'SettingsComeBack, SameCodec, OneContents, UsedConnectionIsOwn')
    rej = []
    for name, inv in (('dev_busy', ('SettingsComeBack',)), ('dev_pickle', ('SameCodec', 'OneContents')), ('dev_conn', ('UsedConnectionIsOwn',))):
        res = run_tlc('MCLifecycle.tla', 'MCLifecycle_%s.cfg' % name, workers=1, timeout=300)
        if res.violation not in inv:
            raise MachineryError('MCLifecycle_%s was expected to violate %s, got %s %s' % (name, inv, res.violation, res.error))
        rej.append('%s violates %s' % (name, inv))
    out.notes['design_deviations_rejected'] = rej


def run(prop, tier, seed):
    out = Outcome('C18', tier, seed)
    design_level(out, tier)
    rng = random.Random(seed * 295075147 + 18)
    jobs = []
    n, length = (40, 70) if tier == 'quick' else (500, 140)
    for i in range(n):
        cfg = gen.random_cfg(rng, small_limit=False)
        cfg['limit'] = rng.choice([2 ** 28, 2 ** 29, 2 ** 30])
        jobs.append((cfg, lifecycle_history(rng, length), seed + i, i + 1))
    # enumeration: a handle opened while the database is locked for a moment at its n-th statement, for every n
    for j in range(2 if tier == 'quick' else 8):
        cfg = gen.random_cfg(rng, small_limit=False)
        cfg['limit'] = rng.choice([2 ** 28, 2 ** 29])
        keys = gen.key_universe(4, rng)
        vals = gen.val_universe(rng)
        ops = [o for o in gen.random_history(rng, 6, keys, vals, dict(clear=0, cull=0)) if o['op'] in ('set', 'add', 'incr')]
        for nth in range(1, 61):
            ops.append({'op': 'reopen', 'a': {'args': 0, 'busy': nth}})
            ops.append({'op': 'settings', 'a': {'fresh': 0}})
            if nth % 7 == 0:
                ops += [o for o in gen.random_history(rng, 2, keys, vals, dict(clear=0, cull=0))]
        jobs.append((cfg, ops, seed + 9000 + j, n + j + 1))
    # text stored in files, read and written by a fresh interpreter whose locale is not UTF-8
    for j in range(2):
        cfg = gen.random_cfg(rng, small_limit=False)
        cfg['limit'] = 2 ** 29
        KA_, KB_ = [1, 97], [1, 98]
        tv = lambda n: 300000 + (36 + 4 * n) * 100 + 2 * n + 1          # non-ASCII text of 36+ KiB (odd ids)
        get = lambda k: {'op': 'get', 'a': {'k': k, 'fx': 0, 'ft': 0, 'mk': 'miss'}}
        setv = lambda k, v: {'op': 'set', 'a': {'k': k, 'v': v, 'ttl': [], 'tag': 0}}
        ops = [setv(KA_, tv(j)), {'op': 'via', 'a': {'how': 'proc', 'inner': get(KA_)}}, {'op': 'via', 'a': {'how': 'proc', 'inner': setv(KB_, tv(j + 2))}},
               get(KB_), {'op': 'via', 'a': {'how': 'fork', 'inner': get(KB_)}}, {'op': 'reopen', 'a': {'args': 0}},
               {'op': 'via', 'a': {'how': 'proc', 'inner': {'op': 'pop', 'a': {'k': KA_, 'fx': 0, 'ft': 0}}}}, get(KA_)]
        jobs.append((cfg, ops, seed + 9500 + j, n + 20 + j))
    traces = pmap(_hist, jobs, procs=14)
    out.traces = len(traces)
    out.events = sum(len(t['ev']) for t in traces)
    common.TRACE_FIELDS = ('id', 'init', 'ev')
    verdicts, st, tr = validate_all('CacheSeqTrace.tla', 'CacheSeqTrace.cfg', traces)
    out.states += st
    out.transitions += tr
    byid = {t['id']: t for t in traces}
    for tid_, v in sorted(verdicts.items()):
        if not v['ok']:
            t = byid[tid_]
            e = t['ev'][v['at'] - 1]
            out.violation('history with lifecycle events rejected at event %d (%s): %s; reference %s; observed %s'
                          % (v['at'], v['op'], v['why'], v.get('expected', '')[:200], str({k: e[k] for k in ('a', 'now', 'ret')})[:300]),
                          {'cfg': t['cfg'], 'events': t['ev'][:v['at']], 'verdict': v})
    # format stability: the committed reference directories, read by the current tree
    total = 0
    for n_, (fix, reader) in enumerate(((FIX, read_back), (FIX2, read_back2))):
        if not os.path.exists(os.path.join(fix, 'expected.json')):
            raise MachineryError('%s is missing (tools/mkfixtures.py released / tools/mkfixtures2.py)' % fix)
        scratch = envctl.scratch('fix')
        shutil.rmtree(scratch)
        shutil.copytree(fix, scratch)
        try:
            expected = json.load(open(os.path.join(fix, 'expected.json')))
            try:
                observed = reader(scratch)
            except Exception as exc:
                observed = {'<reading the reference directory raised>': type(exc).__name__ + ': ' + str(exc)[:100]}
            ev = [{'what': k, 'exp': expected.get(k, '<absent>'), 'obs': observed.get(k, '<absent>')} for k in sorted(set(expected) | set(observed))]
            ft = [{'id': 1, 'ev': ev}]
            common.TRACE_FIELDS = ('id', 'ev')
            verdicts, st, tr = validate_all('FixtureTrace.tla', 'FixtureTrace.cfg', ft)
            out.states += st
            out.transitions += tr
            if not verdicts[1]['ok']:
                bad = [e for e in ev if e['exp'] != e['obs']]
                out.violation(verdicts[1]['why'] + ' (%d of %d objects differ, e.g. %s)' % (len(bad), len(ev), [b['what'] for b in bad[:4]]), {'differences': bad[:40]})
            out.traces += 1
            out.events += len(ev)
            total += len(ev)
        finally:
            envctl.rm(scratch)
    out.notes['fixture_objects_compared'] = total
    # factories / wrappers / second handles (same judgement: expected vs observed)
    wev = wrappers_scenario()
    common.TRACE_FIELDS = ('id', 'ev')
    verdicts, st, tr = validate_all('FixtureTrace.tla', 'FixtureTrace.cfg', [{'id': 1, 'ev': wev}])
    out.states += st
    out.transitions += tr
    out.traces += 1
    out.events += len(wev)
    if not verdicts[1]['ok']:
        bad = [e['what'] for e in wev if e['exp'] != e['obs']]
        out.violation('C18 arguments or stored settings do not reach the object behind a factory / wrapper / second handle: %s' % bad[:6], {'differences': [e for e in wev if e['exp'] != e['obs']]})
    out.notes['wrapper_facts_compared'] = len(wev)
    out.samples.append({'cfg': traces[0]['cfg'], 'ops': [[e['op'], e['a'], e['ret']] for e in traces[0]['ev'][:14]]})
    out.notes['lifecycle_events'] = sum(1 for t in traces for e in t['ev'] if e['op'] in ('reopen', 'pickle', 'close', 'via', 'settings'))
    out.level = 'model_checking'
    out.assumptions += ['lifecycle events for Deque / Index (reopen, copy, pickle) are part of C11 / C12; FanoutCache and DjangoCache handles are exercised '
                        'through the fixture (reopen by a fresh handle) and through C13 / C19',
                        'the format-stability part is a golden-file comparison (fixtures/released, written once by the pinned version) expressed as a trace']
    return out.finish({'evaluations': len(traces) + 1, 'distinct_nontrivial': len({str(t['cfg']) for t in traces}),
                       'rule': 'seeded random histories (as C03) with close / reopen (with and without settings) / pickle+unpickle / settings read-back inserted at random points and single '
                               'operations performed by a forked child, a second thread or a fresh interpreter, all validated by TLC against CacheSeqTrace (lifecycle events are no-ops of the '
                               'model, every handle acts on the one state); plus the committed released-format reference directory read back by the current tree'})
