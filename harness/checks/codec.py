"""C01: stored values come back identical."""
import itertools
import pickle
import random

from .. import codecdriver, common
from ..common import Outcome, pmap, validate_all, known_findings
from ..envctl import MachineryError
from ..tlc import run_tlc

KINDS = ['int64', 'bigint', 'float', 'negzero', 'inf', 'nan', 'str', 'bytes', 'none', 'bool', 'container', 'stream', 'badkeymap']
LENS = ['zero', 'below', 'at', 'above', 'big']
FEATS = ['CR', 'LF', 'CRLF', 'NUL', 'U85', 'U2028', 'astral', 'surrogate', 'BOM']


def _run(thr, disk, proto, cases, seed, tid):
    return codecdriver.run_config(thr, disk, proto, cases, seed, tid)


def value_cases(rng, tier):
    out = []
    for k in KINDS:
        if k in ('str',):
            featsets = [[]] + [[f] for f in FEATS] + [['CR', 'LF'], ['CRLF', 'NUL'], ['astral', 'U2028', 'CR'], ['BOM', 'LF']]
            if tier == 'thorough':
                featsets += [list(c) for c in itertools.combinations(FEATS, 2)]
            for ln in LENS:
                for fs in featsets:
                    out.append((k, ln, fs))
        elif k in ('bytes', 'container', 'stream'):
            for ln in LENS:
                out.append((k, ln, []))
        else:
            out.append((k, 'zero', []))
    return out


def run(prop, tier, seed):
    out = Outcome('C01', tier, seed)
    rng = random.Random(seed * 256203221 + 1)
    res = run_tlc('Codec.tla', 'Codec.cfg', workers=4, timeout=300)
    if res.error or res.violation:
        raise MachineryError('Codec.tla: %s %s' % (res.error, res.violation))
    out.add_tlc('Codec.cfg', res, 'full product: 13 kinds x 5 length classes x feature sets x 4 thresholds x 2 disks x 16 accessors (incr / decr inside and across the 64-bit range for integers)')
    vcs = value_cases(rng, tier)
    jobs = []
    tid = 0
    protos = [0, 2, pickle.HIGHEST_PROTOCOL] if tier == 'quick' else list(range(pickle.HIGHEST_PROTOCOL + 1))
    reps = 1 if tier == 'quick' else 4
    for thr in codecdriver.THR:
        for disk in ('Disk', 'JSONDisk'):
            for proto in protos:
                cases = []
                for (k, ln, fs) in vcs:
                    if thr == 't32k' and ln == 'big' and tier == 'quick' and rng.random() < 0.5:
                        continue
                    accs = codecdriver.ACCESSORS if tier == 'thorough' else rng.sample(codecdriver.ACCESSORS, 3) + [rng.choice(['get-unpickled', 'pull-unpickled'])]
                    if k == 'int64':
                        accs = list(accs) + codecdriver.INCR_ACC * 3
                    for a in accs:
                        for _ in range(reps):
                            cases.append((k, ln, fs, a))
                # split into a few jobs per configuration
                rng.shuffle(cases)
                step = 400
                for i in range(0, len(cases), step):
                    tid += 1
                    jobs.append((thr, disk, proto, cases[i:i + step], seed + tid, tid))
    traces = pmap(_run, jobs, procs=14)
    out.traces = len(traces)
    out.events = sum(len(t['ev']) for t in traces)
    common.TRACE_FIELDS = ('id', 'ev')
    verdicts, st, tr = validate_all('CodecTrace.tla', 'CodecTrace.cfg', traces, batch_events=20000)
    out.states += st
    out.transitions += tr
    byid = {t['id']: t for t in traces}
    pending = []
    findings = {f['deviation']: f for f in known_findings('C01') if 'deviation' in f}
    for tid_, v in sorted(verdicts.items()):
        for dname in v.get('known', []):
            if dname in findings:
                out.known(findings[dname], '')
            else:
                out.violation('unlisted deviation ' + dname, {})
        if not v['ok']:
            t = byid[tid_]
            e = t['ev'][v['at'] - 1]
            out.violation(v['why'] + ' | pickle protocol %s' % e['proto'], {'case': e})
            rest = t['ev'][v['at']:]
            if rest:
                pending.append({'id': tid_, 'ev': rest})
    rounds = 0
    while pending and rounds < 30 and len(out.violations) < 200:
        rounds += 1
        verdicts, st, tr = validate_all('CodecTrace.tla', 'CodecTrace.cfg', pending, batch_events=20000)
        nxt = []
        for p in pending:
            v = verdicts[p['id']]
            if not v['ok']:
                e = p['ev'][v['at'] - 1]
                out.violation(v['why'] + ' | pickle protocol %s' % e['proto'], {'case': e})
                if p['ev'][v['at']:]:
                    nxt.append({'id': p['id'], 'ev': p['ev'][v['at']:]})
        pending = nxt
    cases_seen = {(e['kind'], e['len'], tuple(e['feat']), e['thr'], e['disk'], e['acc']) for t in traces for e in t['ev']}
    out.samples += [traces[0]['ev'][0], traces[-1]['ev'][-1]]
    out.notes.update({'abstract_cases_with_witness': len(cases_seen), 'witnesses': out.events,
                      'rejected_as_expected': sum(1 for t in traces for e in t['ev'] if e['outcome'] == 'rejected')})
    out.assumptions += ['values inside an abstract case are sampled (hypothesis-style witnesses), the case matrix is enumerated',
                        'JSONDisk is exercised with JSON-representable values; tuples and non-text dict keys are outside its domain']
    return out.finish()
