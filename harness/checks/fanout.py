"""C13: FanoutCache is observably one cache with a fixed key -> shard mapping."""
import json
import os
import random
import subprocess
import sys

from .. import gen, fanoutdriver, common, VERIF
from ..common import Outcome, pmap, validate_all, known_findings
from ..envctl import MachineryError
from ..tlc import run_tlc, validate_traces

FOPS = dict(set=16, add=6, touch=4, incr=6, get=14, contains=4, pop=4, delete=5, clear=0.4, evict=1.5, expire=2,
            push=0, pull=0, peek=0, peekitem=0, len=2, iter=2, stats=1.5, cull=1.5, tick=8)

ROUTE_KEYS = ([i for i in (0, 1, 2, 7, 255, 256, 65535, 2 ** 31, 2 ** 32 - 2, 2 ** 32 - 1, 2 ** 32, 2 ** 40, 2 ** 63 - 1, -1, -2, -2 ** 63, 2 ** 64, 2 ** 70, -2 ** 70)]
              + [0.5, 1.5, -0.25, 1e300, float('inf'), 3.25]
              + ['', 'a', 'b', 'ab', 'key', 'k' * 50, 'é', '中文', '\U0001f600', 'a-000000000000005']
              + [b'', b'a', b'\x00', b'\xff\xfe', b'key', bytes(range(32))]
              + [None, True, False, (1, 2), ('a', 1), (1, ('x', 2.5)), frozenset([1]), (None,), ((),)])
EQUAL_PAIRS = [(1, 1.0), (0, -0.0), (0, 0.0), (7, 7.0), (2 ** 40, float(2 ** 40)), (-1, -1.0)]

ROUTE_SCRIPT = r'''
import sys, json, os, sqlite3, tempfile, shutil, pickle
sys.path.insert(0, %(repo)r)
import diskcache
keys = pickle.loads(bytes.fromhex(sys.argv[1]))
out = {}
for n in (1, 2, 3, 8, 13):
    d = tempfile.mkdtemp(dir=%(shm)r)
    try:
        f = diskcache.FanoutCache(d, shards=n)
        for i, k in enumerate(keys):
            f.set(k, i)
        if os.environ.get('VERIF_FORK') == '1':
            pass
        table = []
        for s in range(n):
            con = sqlite3.connect(os.path.join(d, '%%03d' %% s, 'cache.db'))
            for (v,) in con.execute('SELECT value FROM Cache').fetchall():
                table.append([v, s])
            con.close()
        f.close()
        out[str(n)] = sorted(table)
    finally:
        shutil.rmtree(d, ignore_errors=True)
print(json.dumps(out))
'''


def _run(cfg, ops, seed, tid):
    return fanoutdriver.run_history(cfg, ops, seed, tid)


def routing_tables(seeds):
    """Shard of every key of ROUTE_KEYS + the equal pairs, computed in fresh interpreters
    with different hash seeds (value i identifies key i)."""
    import pickle
    from .. import REPO, SHM
    keys = ROUTE_KEYS + [k for pair in EQUAL_PAIRS for k in pair]
    blob = pickle.dumps(keys).hex()
    script = ROUTE_SCRIPT % {'repo': REPO, 'shm': SHM}
    tables = {}
    for hs in seeds:
        env = dict(os.environ, PYTHONHASHSEED=str(hs), PYTHONDONTWRITEBYTECODE='1')
        p = subprocess.run(['/venv/bin/python', '-c', script, blob], env=env, stdout=subprocess.PIPE, stderr=subprocess.PIPE, text=True, timeout=600)
        if p.returncode != 0:
            raise MachineryError('routing probe failed: ' + p.stderr[-1500:])
        tables[str(hs)] = json.loads(p.stdout)
    return keys, tables


def design_level(out, tier):
    """FanoutSeq.tla: N shards + every routing function in lock step with one reference cache; an aggregate that
    skips a shard must break it."""
    for name in (['two'] if tier == 'quick' else ['two', 'three', 'keys3']):
        res = run_tlc('MCFanout.tla', 'MCFanout_%s.cfg' % name, workers=16, timeout=1500)
        if res.error or res.violation:
            raise MachineryError('MCFanout_%s: %s %s\n%s' % (name, res.error, res.violation, res.out[-1500:]))
        first = open(os.path.join(VERIF, 'spec', 'MCFanout_%s.cfg' % name)).readline().strip()
        out.add_tlc('MCFanout_%s.cfg' % name, res, first)
    res = run_tlc('MCFanout.tla', 'MCFanout_dev_skip.cfg', workers=1, timeout=300)
    if res.violation not in ('SameResults', 'UnionIsReference'):
        raise MachineryError('MCFanout_dev_skip was expected to violate SameResults or UnionIsReference, got %s %s' % (res.violation, res.error))
    rej = ['dev_skip (aggregates skip the last shard) violates %s' % res.violation]
    res = run_tlc('MCFanoutRemove.tla', 'MCFanoutRemove_ok.cfg', workers=8, timeout=600)
    if res.error or res.violation:
        raise MachineryError('MCFanoutRemove_ok: %s %s\n%s' % (res.error, res.violation, res.out[-1500:]))
    out.add_tlc('MCFanoutRemove_ok.cfg', res, 'aggregate removal over 3 shards x 0..3 items, pages of 2, lock holders; CountsEverything, EveryShardOnce, Terminates')
    res = run_tlc('MCFanoutRemove.tla', 'MCFanoutRemove_dev.cfg', workers=1, timeout=300)
    if res.violation != 'CountsEverything':
        raise MachineryError('MCFanoutRemove_dev was expected to violate CountsEverything, got %s %s' % (res.violation, res.error))
    rej.append('dev (a Timeout count replaces the running total) violates CountsEverything')
    # how the shards come to their size limit (creation, kills between its steps, later opens with / without a limit)
    res = run_tlc('ShardCreate.tla', 'ShardCreate_ok.cfg', workers=4, timeout=300)
    if res.error or res.violation:
        raise MachineryError('ShardCreate_ok: %s %s\n%s' % (res.error, res.violation, res.out[-1500:]))
    out.add_tlc('ShardCreate_ok.cfg', res, '3 shards, opens with and without a size limit, kills between any two steps; NeverUndivided, ExplicitApplied, StoredSurvives, AllOpened')
    for name, want in (('dev_always', 'StoredSurvives'), ('dev_dbfile', 'NeverUndivided'), ('dev_dir', 'NeverUndivided'), ('dev_ignore', 'ExplicitApplied')):
        res = run_tlc('ShardCreate.tla', 'ShardCreate_%s.cfg' % name, workers=1, timeout=300)
        if res.violation != want:
            raise MachineryError('ShardCreate_%s was expected to violate %s, got %s %s' % (name, want, res.violation, res.error))
        rej.append('ShardCreate %s violates %s' % (name, want))
    out.notes['design_deviations_rejected'] = rej


def _shard_plan(plan, n, tid):
    from .. import killdriver
    return killdriver.run_shard_plan(plan, n, tid)


def shard_plans(out, tier, seed):
    """Every behaviour of ShardCreate with 2 shards and 3 opens (8000; a sample in the quick tier) replayed on the real
    FanoutCache, each open in a forked process killed before the named step; ShardCreateTrace compares the shards on disk."""
    from .. import plans
    pl, res = plans.tlc_plans('ShardCreatePlan.tla', 'ShardCreatePlan.cfg', timeout=300)
    rng = random.Random(seed * 7919 + 13)
    rng.shuffle(pl)
    pl = pl[:400] if tier == 'quick' else pl
    traces = pmap(_shard_plan, [(p, 2, i + 1) for i, p in enumerate(pl)], procs=14)
    import harness.common as _c
    saved = _c.TRACE_FIELDS
    _c.TRACE_FIELDS = ('id', 'ev')
    try:
        verdicts, st, tr = validate_all('ShardCreateTrace.tla', 'ShardCreateTrace.cfg', traces, batch_events=3000)
    finally:
        _c.TRACE_FIELDS = saved
    out.states += st
    out.transitions += tr
    out.traces += len(traces)
    out.events += sum(len(t['ev']) for t in traces)
    byid = {t['id']: t for t in traces}
    for tid_, v in sorted(verdicts.items()):
        if not v['ok']:
            if v['why'].startswith('harness:'):
                raise MachineryError('shard plan %d: %s' % (tid_, v['why']))
            out.violation('plan of ShardCreate replayed on FanoutCache: %s' % v['why'], {'plan': byid[tid_]['ev'], 'verdict': v})
    out.notes['shardcreate_plans_generated'] = 8000 if tier != 'quick' else len(pl)
    out.notes['shardcreate_plans_replayed'] = len(traces)


def run(prop, tier, seed):
    out = Outcome('C13', tier, seed)
    design_level(out, tier)
    rng = random.Random(seed * 141650939 + 13)
    jobs = []
    tid = 0
    n, length = (60, 110) if tier == 'quick' else (900, 220)
    for i in range(n):
        shards = rng.choice([1, 2, 3, 8, 13])
        cfg = gen.random_cfg(rng, small_limit=rng.random() < 0.5)
        cfg['limit'] = (cfg['limit'] // shards) * shards * (shards if cfg['limit'] < 2 ** 24 else 1)
        cfg['shards'] = shards
        keys = gen.key_universe(rng.choice([6, 12, 30]), rng, with_int=True, with_comp=True)
        keys = [k for k in keys if not (k[0] == 0 and k[1] < 0)] or keys
        vals = gen.val_universe(rng)
        ops = gen.random_history(rng, length, keys, vals, FOPS)
        # lifecycle of the sharded cache itself: pickle / copy / reopen at random points
        for _ in range(rng.randint(0, 4)):
            ops.insert(rng.randrange(len(ops) + 1), {'op': rng.choice(['pickle', 'pickle', 'copy', 'reopen']), 'a': {}, 'form': rng.randrange(2)})
        for o in ops:
            if o['op'] == 'iter':
                o['a']['sorted'] = 0
            # another client holds the write lock of one shard for a moment while an aggregate removal runs
            if shards > 1 and o['op'] in ('clear', 'expire', 'evict', 'cull') and rng.random() < 0.5:
                o['a']['busy'] = [rng.randrange(1, shards), rng.choice([1, 1, 2])]
        tid += 1
        jobs.append((cfg, ops, seed + i, tid))
    # the total size limit is divided among the shards: file-backed values until every shard is over its share
    for shards in ((2, 3) if tier == 'quick' else (2, 3, 8)):
        for policy in (('lrs',) if tier == 'quick' else ('lrs', 'lru', 'lfu')):
            K = lambda i: [1] + [ord(ch) for ch in 's%03d' % i]
            ops = []
            for i in range(24 * shards):
                ops.append({'op': 'set', 'a': {'k': K(i), 'v': 200000 + (40 + 8 * (i % 3)) * 100 + (i % 90), 'ttl': [], 'tag': 0}, 'form': 0})
                if i % 6 == 0:
                    ops.append({'op': 'get', 'a': {'k': K(rng.randrange(i + 1)), 'fx': 0, 'ft': 0, 'mk': 'miss'}, 'form': 0})
                if i % 5 == 0:
                    ops.append({'op': 'tick', 'a': {'n': 1}, 'form': 0})
            ops += [{'op': 'volume', 'a': {}, 'form': 0}, {'op': 'cull', 'a': {}, 'form': 0}, {'op': 'len', 'a': {}, 'form': 0}]
            cfg = dict(policy=policy, cull=rng.choice([2, 10]), limit=shards * 320 * 1024, stats=False, shards=shards, min_file_size=2 ** 15)
            tid += 1
            jobs.append((cfg, ops, seed + 8500 + tid, tid))
    # the limit each shard works with, however the cache came to be: created, created over shard directories that were there
    # already, reopened / unpickled / copied with and without the limit spelled out
    for shards in (2, 3, 8):
        for premade in (0, 1):
            for limit in (2 ** 30, shards * 2 ** 20):
                ops = [{'op': 'limits', 'a': {}, 'form': 0}, {'op': 'set', 'a': {'k': [1, 97], 'v': 5, 'ttl': [], 'tag': 0}, 'form': 0}]
                for life in ('reopen', 'pickle', 'copy'):
                    ops += [{'op': life, 'a': {}, 'form': 0}, {'op': 'limits', 'a': {}, 'form': 0}]
                cfg = dict(policy='lrs', cull=10, limit=limit, stats=False, shards=shards, min_file_size=2 ** 15, premade=premade)
                tid += 1
                jobs.append((cfg, ops, seed + 8700 + tid, tid))
    # more than one page (100 rows) per shard, the lock taken by another client BETWEEN the pages, repeatedly
    for j in range(2 if tier == 'quick' else 12):
        shards = rng.choice([2, 3])
        cfg = gen.random_cfg(rng, small_limit=False)
        cfg.update(limit=2 ** 30, shards=shards, cull=0, policy='none')
        K = lambda i: [1] + [ord(ch) for ch in 'b%04d' % i]
        ops = [{'op': 'set', 'a': {'k': K(i), 'v': i % 5, 'ttl': [1] if i % 2 else [], 'tag': 1 + (i % 2)}, 'form': 0} for i in range(230 * shards)]
        ops.append({'op': 'tick', 'a': {'n': 3}, 'form': 0})
        bulk = rng.choice(['expire', 'evict', 'clear'])
        ops.append({'op': bulk, 'a': dict({'tag': 2} if bulk == 'evict' else {}, busy=[rng.randrange(shards), 2, 1, 2]), 'form': 0})
        ops.append({'op': 'len', 'a': {}, 'form': 0})
        ops.append({'op': 'clear', 'a': {'busy': [rng.randrange(shards), 1, 1, 3]}, 'form': 0})
        tid += 1
        jobs.append((cfg, ops, seed + 8000 + j, tid))
    traces = pmap(_run, jobs, procs=14)
    out.traces = len(traces)
    out.events = sum(len(t['ev']) for t in traces)
    for t in traces:
        if t['route_conflict']:
            out.violation('routing is not a function of the key: key %s found in shards %s and %s' % tuple(t['route_conflict']),
                          {'cfg': t['cfg'], 'ops': [[e['op'], e['a']] for e in t['ev']]})
    common.TRACE_FIELDS = ('id', 'init', 'ev', 'route')
    good = [t for t in traces if not t['route_conflict']]
    verdicts, st, tr = validate_all('FanoutTrace.tla', 'FanoutTrace.cfg', good, batch_events=12000)
    out.states += st
    out.transitions += tr
    byid = {t['id']: t for t in good}
    for tid_, v in sorted(verdicts.items()):
        if not v['ok']:
            t = byid[tid_]
            out.violation('history on %d shards rejected at event %d (%s): %s | %s' % (t['cfg']['shards'], v['at'], v['op'], v['why'],
                          str({k: t['ev'][v['at'] - 1][k] for k in ('a', 'now', 'pb', 'ret')})[:300]),
                          {'cfg': t['cfg'], 'events': t['ev'][:v['at']], 'verdict': v})
    # routing: identical in every process / hash seed, equal to the recorded table, and equal for equal keys
    seeds = [0, 1, 12345] if tier == 'quick' else [0, 1, 2, 3, 12345, 999, 4242, 31337]
    keys, tables = routing_tables(seeds)
    ref = tables[str(seeds[0])]
    for hs, tb in tables.items():
        if tb != ref:
            diff = [(n_, a, b) for n_ in ref for a, b in zip(ref[n_], tb[n_]) if a != b][:3]
            out.violation('shard routing depends on the interpreter (PYTHONHASHSEED %s vs %s): %s; keys %s'
                          % (seeds[0], hs, diff, [repr(keys[d[1][0]]) for d in diff]), {'tables': {str(seeds[0]): ref, hs: tb}})
    fixture = os.path.join(VERIF, 'fixtures', 'routing.json')
    if os.path.exists(fixture):
        rec = json.load(open(fixture))
        if rec['keys'] == [repr(k) for k in keys] and rec['table'] != ref:
            diff = [(n_, a, b) for n_ in ref for a, b in zip(rec['table'][n_], ref[n_]) if a != b][:3]
            out.violation('shard routing differs from the routing recorded for the released version: %s' % (diff,), {'diff': diff})
    else:
        out.notes['routing_fixture'] = 'absent'
    nk = len(ROUTE_KEYS)
    known = {f['deviation']: f for f in known_findings('C13') if 'deviation' in f}
    for j, (a, b) in enumerate(EQUAL_PAIRS):
        ia, ib = nk + 2 * j, nk + 2 * j + 1
        for n_, tb in ref.items():
            sh = dict((v, s) for v, s in tb)
            if ia in sh and ib in sh and sh[ia] != sh[ib]:
                if 'D_route_numeric' in known:
                    out.known(known['D_route_numeric'], '(%r and %r with %s shards)' % (a, b, n_))
                else:
                    out.violation('keys the cache treats as equal (%r, %r) live in different shards (%s shards)' % (a, b, n_), {})
                break
            if (ia in sh) != (ib in sh):
                pass        # equal keys in one shard overwrite each other: one value survives
    shard_plans(out, tier, seed)
    out.samples.append({'cfg': traces[0]['cfg'], 'ops': [[e['op'], e['a'], e['ret']] for e in traces[0]['ev'][:10]]})
    out.notes.update({'routing_keys': len(keys), 'interpreters_compared': len(seeds), 'shard_counts': [1, 2, 3, 8, 13]})
    out.level = 'model_checking'
    return out.finish({'evaluations': len(traces) + len(seeds) * 5, 'distinct_nontrivial': len({json.dumps(t['cfg'], sort_keys=True) for t in traces}),
                       'rule': 'seeded random histories (as C03) on FanoutCache with 1/2/3/8/13 shards, full projection of every shard after every call, validated by TLC against '
                               'FanoutTrace.tla (per-shard CacheOps steps, aggregate folds, divided size limit); routing tables of %d keys computed in fresh interpreters with '
                               'different hash seeds, compared with each other and with the recorded table; distinct = distinct configurations' % len(keys)})
