"""C19: DjangoCache against the Django cache-backend contract (DjangoTrace.tla)."""
import random

from .. import djangodriver, common
from ..common import Outcome, pmap, validate_all
from ..envctl import MachineryError


def _run(cfg, ops, impl, seed, tid):
    return djangodriver.run(cfg, ops, impl, seed, tid)


def design_level(out, tier):
    """DjangoSeq.tla: the contract stated directly (map (key, version) -> value, expiry) in lock step with DjangoCache's
    composition of reference-dictionary operations over made keys, for every backend configuration."""
    import os
    from .. import VERIF
    from ..tlc import run_tlc
    for name in (['one'] if tier == 'quick' else ['one', 'two']):
        res = run_tlc('MCDjango.tla', 'MCDjango_%s.cfg' % name, workers=16, timeout=3000)
        if res.error or res.violation:
            raise MachineryError('MCDjango_%s: %s %s\n%s' % (name, res.error, res.violation, res.out[-1500:]))
        out.add_tlc('MCDjango_%s.cfg' % name, res, open(os.path.join(VERIF, 'spec', 'MCDjango_%s.cfg' % name)).readline().strip())
    rej = []
    for name, invs in (('dev_zero', ('SameResults', 'Agreement')), ('dev_ver', ('Namespaced', 'SameResults', 'Agreement'))):
        res = run_tlc('MCDjango.tla', 'MCDjango_%s.cfg' % name, workers=4, timeout=300)
        if res.violation not in invs:
            raise MachineryError('MCDjango_%s was expected to violate one of %s, got %s %s' % (name, invs, res.violation, res.error))
        rej.append('%s violates %s' % (name, res.violation))
    out.notes['design_deviations_rejected'] = rej


def run(prop, tier, seed):
    out = Outcome('C19', tier, seed)
    design_level(out, tier)
    rng = random.Random(seed * 160481183 + 19)
    jobs = []
    tid = 0
    n, length = (120, 70) if tier == 'quick' else (2000, 140)
    for i in range(n):
        cfg = {'prefix': rng.choice(['', 'p', 'pre']), 'version': rng.choice([1, 1, 2]),
               'timeout': rng.choice([['n'], ['t', 0], ['t', 5], ['t', 3], ['t', 300]]), 'shards': rng.choice([1, 3, 8])}
        ops = djangodriver.random_ops(rng, length)
        # incr_version past version 9 is outside the one-digit encoding of the model
        tid += 1
        jobs.append((cfg, ops, 'diskcache', seed + i, tid))
        if i % 2 == 0:
            tid += 1
            jobs.append((cfg, ops, 'locmem', seed + i, tid))
    traces = pmap(_run, jobs, procs=14)
    out.traces = len(traces)
    out.events = sum(len(t['ev']) for t in traces)
    common.TRACE_FIELDS = ('id', 'init', 'ev')
    verdicts, st, tr = validate_all('DjangoTrace.tla', 'DjangoTrace.cfg', traces, batch_events=40000)
    out.states += st
    out.transitions += tr
    byid = {t['id']: t for t in traces}
    spec_bad = []
    for tid_, v in sorted(verdicts.items()):
        if v['ok']:
            continue
        t = byid[tid_]
        if t['impl'] == 'locmem':
            spec_bad.append((t, v))
            continue
        out.violation('history (prefix=%r version=%s TIMEOUT=%s shards=%s) rejected at call %d: %s | args %s now %s'
                      % (t['cfg']['prefix'], t['cfg']['version'], t['cfg']['timeout'], t['cfg']['shards'], v['at'], v['why'],
                         t['ev'][v['at'] - 1]['a'], t['ev'][v['at'] - 1]['now']),
                      {'cfg': t['cfg'], 'events': t['ev'][:v['at']], 'verdict': v})
    if spec_bad:
        t, v = spec_bad[0]
        import collections
        print(collections.Counter((v['op'], v['why'][:90]) for t, v in spec_bad).most_common(12))
        for t, v in spec_bad[:2]:
            print(t['cfg'], [(e['op'], e['a'], e['now'], e['ret']) for e in t['ev'][:v['at']]][-8:])
        raise MachineryError('DjangoTrace.tla disagrees with Django\'s own LocMemCache (%d traces), e.g. %s at %s'
                             % (len(spec_bad), v['why'], t['ev'][v['at'] - 1]))
    out.samples.append({'cfg': traces[0]['cfg'], 'ops': [[e['op'], e['a'], e['ret']] for e in traces[0]['ev'][:12]]})
    out.notes.update({'histories': len(traces), 'locmem_cross_check_histories': sum(1 for t in traces if t['impl'] == 'locmem')})
    out.level = 'model_checking'
    return out.finish({'evaluations': len(traces), 'distinct_nontrivial': len({str(t['cfg']) for t in traces}),
                       'rule': 'seeded random call sequences over 3 keys x versions {default,1,2} x timeouts {DEFAULT, None, 0, -1, 1, 2, 5} under a virtual clock, '
                               'x backend TIMEOUT {None,0,3,5,300} x KEY_PREFIX x VERSION x SHARDS {1,3,8}; return values validated by TLC against DjangoTrace.tla; '
                               'the same plans through django LocMemCache validate the spec; distinct = distinct backend configurations'})
