"""C15: Lock / RLock / BoundedSemaphore / barrier."""
import random

from .. import recipedriver, sched, common
from ..common import Outcome, pmap, validate_all
from ..envctl import MachineryError
from ..tlc import run_tlc


def _dfs(cfg, prog, bound, max_runs, seed):
    ex = sched.DFSExplorer(bound, max_runs)
    out = []
    while ex.next():
        out.append(recipedriver.run_locks(cfg, prog, ex.strategy(), seed, 0))
    return out


def _rand(cfg, prog, seed):
    rng = random.Random(seed)
    st = sched.pct_strategy(rng, len(prog), rng.choice([1, 2, 3]), 60) if rng.random() < 0.5 else \
        sched.random_strategy(rng, rng.choice([0.2, 0.5, 0.8]))
    return [recipedriver.run_locks(cfg, prog, st, seed, 0)]


def _fork(kind, seed):
    return [recipedriver.run_fork_rlock(kind, seed, 0)]


def run(prop, tier, seed):
    out = Outcome('C15', tier, seed)
    rng = random.Random(seed * 179424673 + 15)
    for k in ('lock', 'rlock', 'sem'):
        res = run_tlc('Locks.tla', 'Locks_%s.cfg' % k, workers=8, timeout=300)
        if res.error or res.violation:
            raise MachineryError('Locks_%s: %s %s\n%s' % (k, res.error, res.violation, res.out[-1500:]))
        out.add_tlc('Locks_%s.cfg' % k, res, '3 contenders x 2 rounds, nesting depth 2, semaphore value 2; safety + liveness under fairness')
    rej = []
    for name, inv in (('foreign', ('RLockOwner', 'MutualExclusion', 'FreeWhenNoHolder')), ('semread', ('SemBound',)), ('reset', ('MutualExclusion', 'RLockOwner', 'FreeWhenNoHolder', 'SemBound'))):
        res = run_tlc('Locks.tla', 'Locks_dev_%s.cfg' % name, workers=1, timeout=300)
        if res.violation not in inv:
            raise MachineryError('Locks_dev_%s was expected to violate %s, got %s %s' % (name, inv, res.violation, res.error))
        rej.append('%s violates %s' % (name, inv))
    out.notes['design_deviations_rejected'] = rej
    # mutual exclusion of Lock and RLock for an ARBITRARY set of contenders: a machine-checked TLAPS proof
    import os, shutil, subprocess, tempfile
    from .. import SPEC
    tlapm = shutil.which('tlapm')
    if tlapm:
        d = tempfile.mkdtemp(prefix='tlaps-', dir='/dev/shm')
        try:
            res_ = []
            # (LockProofForeign.tla, the unprovable variant, is kept in spec/tlaps for the reader and not run here)
            for mod, want in (('LockProof.tla', True),):
                shutil.copy(os.path.join(SPEC, 'tlaps', mod), d)
                from ..tlc import run_group
                rc_, stdout_ = run_group([tlapm, '--cleanfp', mod], d, 600)
                ok = 'obligations proved' in stdout_ and 'failed' not in stdout_
                if ok != want:
                    raise MachineryError('TLAPS %s: expected a complete proof\n%s' % (mod, stdout_[-1200:]))
                res_.append('%s: %s' % (mod, [l for l in stdout_.splitlines() if 'obligations' in l][-1].strip()))
            out.notes['tlaps_proof'] = res_
        finally:
            shutil.rmtree(d, ignore_errors=True)
    dfs, rnd = [], []
    rounds = ['acquire', 'release']
    for kind in ('lock', 'rlock', 'sem'):
        for permits in ((1,) if kind != 'sem' else (1, 2, 3)):
            for shared in (0, 1):
                for fan in (0, 1):
                    if tier == 'quick' and rng.random() < 0.5:
                        continue
                    cfg = {'kind': kind, 'permits': permits, 'shared': shared, 'fanout': fan}
                    prog = {1: list(rounds), 2: list(rounds)}
                    if kind == 'rlock':
                        prog[1] = ['acquire', 'acquire', 'release', 'release']
                    if kind == 'sem' and permits >= 2:
                        prog[3] = list(rounds)
                    dfs.append((cfg, prog, 2, 50 if tier == 'quick' else 400, seed))
                    if kind == 'lock':
                        dfs.append((cfg, {1: ['locked', 'acquire', 'locked', 'release', 'locked']}, 2, 5, seed))
                        dfs.append((cfg, {1: ['acquire', 'locked', 'release'], 2: ['locked', 'acquire', 'locked', 'release']}, 2, 30 if tier == 'quick' else 200, seed))
                    if kind == 'rlock':
                        dfs.append((cfg, {1: list(rounds), 2: ['bad_release'] + list(rounds)}, 2, 30 if tier == 'quick' else 200, seed))
                    if kind == 'sem':
                        # a semaphore has no owner: an extra release is refused when every permit is free
                        dfs.append((cfg, {1: ['bad_release', 'acquire', 'release', 'bad_release']}, 2, 5, seed))
                    if permits == 1:        # barrier builds the resource itself (a semaphore of value 1)
                        dfs.append((cfg, {1: ['barrier'], 2: ['barrier', 'barrier']}, 2, 30 if tier == 'quick' else 200, seed))
    for i in range(80 if tier == 'quick' else 2500):
        kind = rng.choice(['lock', 'rlock', 'sem'])
        permits = rng.choice([1, 2, 3]) if kind == 'sem' else 1
        cfg = {'kind': kind, 'permits': permits, 'shared': rng.randrange(2), 'fanout': rng.randrange(2)}
        n = rng.choice([2, 3, 4])
        prog = {}
        for c in range(1, n + 1):
            ops = []
            for _ in range(rng.randint(1, 2)):
                if kind == 'rlock' and rng.random() < 0.4:
                    ops += ['acquire', 'acquire', 'release', 'release']
                elif rng.random() < 0.2 and permits == 1:
                    ops += ['barrier']
                else:
                    ops += ['acquire', 'release']
            prog[c] = ops
        rnd.append((cfg, prog, seed * 1000 + i))
    traces = [t for lst in pmap(_dfs, dfs, procs=14) for t in lst] + [t for lst in pmap(_rand, rnd, procs=14) for t in lst]
    traces += [t for k in ('rlock',) for t in _fork(k, seed)]
    for i, t in enumerate(traces):
        t['id'] = i + 1
    out.traces = len(traces)
    out.events = sum(len(t['ev']) for t in traces)
    common.TRACE_FIELDS = ('id', 'nc', 'kind', 'permits', 'ev')
    verdicts, st, tr = validate_all('LocksTrace.tla', 'LocksTrace.cfg', traces, batch_events=40000)
    out.states += st
    out.transitions += tr
    byid = {t['id']: t for t in traces}
    for tid_, v in sorted(verdicts.items()):
        if not v['ok']:
            t = byid[tid_]
            out.violation('%s (permits %s, cfg %s) rejected at event %d: %s | program=%s schedule=%s'
                          % (t['kind'], t['permits'], t['cfg'], v['at'], v['why'], t['program'], t['schedule'][:60]),
                          {'trace': t, 'verdict': v})
    out.samples.append({'cfg': traces[0]['cfg'], 'program': traces[0]['program'], 'events': traces[0]['ev'][:14]})
    out.notes.update({'schedules': len(traces), 'programs': len(dfs) + len(rnd)})
    out.assumptions += ['contenders are threads (shared or own Cache / FanoutCache objects) under the scheduler; a separate process only in the '
                        'fork scenario (object built before fork, release attempted by the child)',
                        'Lock.release of an unheld Lock is a silent no-op in the library and is not judged (only RLock and BoundedSemaphore refuse)']
    return out.finish()
