"""C03 / C04 / C09 / C10 (sequential part): one client against the reference
dictionary CacheOps.  Design level: TLC explores CacheSeq exhaustively over
small alphabets.  Conformance: TLC-generated plans and seeded random
histories are replayed on the real Cache; every recorded trace is validated
by TLC (CacheSeqTrace)."""
import random

from .. import gen, plans, seqdriver
from ..common import Outcome, pmap, validate_all, known_findings
from ..envctl import MachineryError
from ..tlc import run_tlc

DESIGN = {
    'C03': {'quick': [('MCSeq_coreq.cfg', 120), ('MCSeq_stats.cfg', 60), ('MCSeq_iter.cfg', 60)],
            'thorough': [('MCSeq_core.cfg', 900), ('MCSeq_stats.cfg', 60), ('MCSeq_iter.cfg', 60)]},
    'C04': {'quick': [('MCSeq_expq.cfg', 120)],
            'thorough': [('MCSeq_expq.cfg', 120), ('MCSeq_exp.cfg', 1500)]},
    'C09': {'quick': [('MCSeq_evictq.cfg', 120)],
            'thorough': [('MCSeq_evictq.cfg', 120), ('MCSeq_evict.cfg', 1500)]},
    'C10': {'quick': [('MCSeq_queueq.cfg', 120)],
            'thorough': [('MCSeq_queueq.cfg', 120), ('MCSeq_queue.cfg', 1500)]},
}

WEIGHTS = {
    'C03': {},
    'C04': dict(tick=14, expire=4, touch=8, add=8, incr=8, pull=5, peek=4, peekitem=4, push=6, cull=2,
                clear=0.1, evict=0.3, iter=0.5, stats=0.3),
    'C09': dict(set=22, get=14, incr=6, cull=4, tick=6, add=6, push=2, pull=1, peek=0.5, peekitem=0.5,
                clear=0.1, evict=0.3, iter=0.5, stats=0.3, touch=1, pop=2, delete=2, expire=1),
    'C10': dict(push=22, pull=14, peek=8, set=6, get=3, delete=3, tick=5, peekitem=2, iter=2,
                clear=0.1, evict=0.3, stats=0.3, cull=0.5, expire=1, add=2, incr=2, touch=1, pop=1),
}


def _run(cfg, ops, seed, tid):
    return seqdriver.run_history(cfg, ops, seed, tid)


def _scenarios(prop, rng):
    """Hand-shaped populations the quantifier names explicitly (page boundaries)."""
    K = lambda i: [1] + [ord(c) for c in 'p%04d' % i]
    out = []
    if prop == 'C03':
        n = 260          # 130 items per tag: more than one page of 100 whatever the 25 deletions hit
        ops = [{'op': 'set', 'a': {'k': K(i), 'v': i % 7, 'ttl': [], 'tag': 1 + (i % 2)}} for i in range(n)]
        dele = sorted(rng.sample(range(n), 25))
        ops += [{'op': 'delete', 'a': {'k': K(i), 'mk': 'false'}} for i in dele]
        for rev in (0, 1):
            for srt in (0, 1):
                ops.append({'op': 'iter', 'a': {'rev': rev, 'sorted': srt}})
        ops.append({'op': 'evict', 'a': {'tag': 1}})
        ops.append({'op': 'iter', 'a': {'rev': 0, 'sorted': 0}})
        ops.append({'op': 'len', 'a': {}})
        ops.append({'op': 'clear', 'a': {}})
        out.append((dict(policy='lrs', cull=0, limit=2 ** 30, stats=False, tag_index=rng.randrange(2)), ops))
    if prop == 'C04':
        for n, cull in ((150, 0), (230, 10)):
            ops = [{'op': 'set', 'a': {'k': K(i), 'v': 1, 'ttl': [2] if i % 9 else [], 'tag': 0}}
                   for i in range(n)]
            ops += [{'op': 'set', 'a': {'k': K(1000 + i), 'v': 1, 'ttl': [3 + i % 3], 'tag': 0}} for i in range(40)]
            ops += [{'op': 'tick', 'a': {'n': 2}}, {'op': 'expire', 'a': {}},        # exact instant: nothing passed yet
                    {'op': 'tick', 'a': {'n': 1}}]
            if cull:
                ops += [{'op': 'set', 'a': {'k': K(5000), 'v': 1, 'ttl': [], 'tag': 0}}]
            ops += [{'op': 'expire', 'a': {}}, {'op': 'len', 'a': {}}, {'op': 'tick', 'a': {'n': 5}},
                    {'op': 'expire', 'a': {}}, {'op': 'iter', 'a': {'rev': 0, 'sorted': 0}}]
            out.append((dict(policy='lrs', cull=cull, limit=2 ** 30, stats=False), ops))
    if prop == 'C04':
        # more than two pages of expired items whose storage order differs from their expiry order
        for pattern in ('random', 'descending'):
            n = 240
            ops = []
            for i in range(n):
                ttl = rng.randrange(1, 9) if pattern == 'random' else 8 - (i * 8) // n
                ops.append({'op': 'set', 'a': {'k': K(i), 'v': 1, 'ttl': [ttl] if i % 11 else [], 'tag': 0}})
            ops += [{'op': 'tick', 'a': {'n': 5}}, {'op': 'expire', 'a': {}}, {'op': 'len', 'a': {}},
                    {'op': 'tick', 'a': {'n': 10}}, {'op': 'cull', 'a': {}}, {'op': 'iter', 'a': {'rev': 1, 'sorted': 0}}]
            out.append((dict(policy='lru', cull=0, limit=2 ** 30, stats=False), ops))
    if prop == 'C09':
        for policy in ('lrs', 'lru', 'lfu', 'none'):
            ops = []
            for i in range(26):
                ops.append({'op': 'set', 'a': {'k': K(i), 'v': 200000 + (40 + 8 * (i % 4)) * 100 + i, 'ttl': [] if i % 5 else [3], 'tag': 0}})
                if i % 3 == 0:
                    ops.append({'op': 'get', 'a': {'k': K(rng.randrange(i + 1)), 'fx': 0, 'ft': 0, 'mk': 'miss'}})
                if i % 4 == 0:
                    ops.append({'op': 'tick', 'a': {'n': 1}})
            ops.append({'op': 'cull', 'a': {}})
            out.append((dict(policy=policy, cull=0, limit=300 * 1024, stats=False), ops))
            # writes that cull lazily: exactly one (or two) freshly expired items AND policy eviction in the same write
            for cull, per in ((3, 2), (10, 2), (10, 3)):
                ops = []
                for i in range(70):
                    ops.append({'op': 'tick', 'a': {'n': 1}})
                    ttl = [3] if i % per else []
                    ops.append({'op': 'set', 'a': {'k': K(i), 'v': 200000 + (40 + 8 * (i % 3)) * 100 + i, 'ttl': ttl, 'tag': 0}})
                    if i % 5 == 0:
                        ops.append({'op': 'get', 'a': {'k': K(rng.randrange(i + 1)), 'fx': 0, 'ft': 0, 'mk': 'miss'}})
                out.append((dict(policy=policy, cull=cull, limit=1000 * 1024, stats=False), ops))
            # every way of using an item counts as a use: counters that are incremented / decremented / looked up after
            # the bulk was stored outlive it, the counters nobody used go first
            ops = [{'op': 'set', 'a': {'k': K(i), 'v': i + 1, 'ttl': [], 'tag': 0}} for i in range(6)]
            ops.append({'op': 'tick', 'a': {'n': 1}})
            ops += [{'op': 'set', 'a': {'k': K(i), 'v': 200000 + 40 * 100 + i, 'ttl': [], 'tag': 0}} for i in range(10, 17)]
            ops.append({'op': 'tick', 'a': {'n': 1}})
            ops += [{'op': 'incr', 'a': {'k': K(0), 'd': 2, 'df': []}, 'form': 0},
                    {'op': 'incr', 'a': {'k': K(1), 'd': -1, 'df': [0]}, 'form': 1},
                    {'op': 'get', 'a': {'k': K(2), 'fx': 0, 'ft': 0, 'mk': 'miss'}}]
            for i in range(17, 31):
                ops.append({'op': 'tick', 'a': {'n': 1}})
                ops.append({'op': 'set', 'a': {'k': K(i), 'v': 200000 + 40 * 100 + i, 'ttl': [], 'tag': 0}})
                if i % 4 == 0:
                    ops.append({'op': 'len', 'a': {}})
            out.append((dict(policy=policy, cull=2, limit=400 * 1024, stats=False), ops))
    return out


def run(prop, tier, seed):
    out = Outcome(prop, tier, seed)
    rng = random.Random(seed * 1000003 + int(prop[1:]))
    # ---- design level ----------------------------------------------------
    for cfgname, tmo in DESIGN[prop][tier]:
        res = run_tlc('MCSeq.tla', cfgname, workers=16, timeout=tmo)
        if res.error:
            raise MachineryError('%s: %s' % (cfgname, res.error))
        if res.violation:
            raise MachineryError('design spec %s violates %s with no deviation enabled:\n%s'
                                 % (cfgname, res.violation, res.out[-3000:]))
        out.add_tlc(cfgname, res, open(__import__('os').path.join(__import__('harness').SPEC, cfgname)).readline().strip())
    # ---- TLC plans --------------------------------------------------------
    jobs = []
    tid = 0
    plan_cfg = {'C03': 'CacheSeqPlan_p2.cfg', 'C04': 'CacheSeqPlan_exp.cfg',
                'C09': 'CacheSeqPlan_evict.cfg', 'C10': 'CacheSeqPlan_queue.cfg'}[prop]
    pl, pres = plans.tlc_plans('CacheSeqPlan.tla', plan_cfg, timeout=45 if tier == 'quick' else 240, seed=seed)
    if pres.timed_out and not pl:
        raise MachineryError('plan generation produced nothing')
    rng.shuffle(pl)
    nplans = 400 if tier == 'quick' else 6000
    out.notes['plans_generated_by_tlc'] = len(pl)
    for p in pl[:nplans]:
        cfg, ops = plans.seq_plan_to_ops(p)
        tid += 1
        jobs.append((cfg, ops, seed, tid))
    out.notes['plans_replayed'] = len(jobs)
    # ---- scenarios + random histories -------------------------------------
    # (their own generator: the number of plans TLC produces within its time limit must not change what follows)
    rng = random.Random(seed * 1000003 + int(prop[1:]) + 77)
    for cfg, ops in _scenarios(prop, rng):
        tid += 1
        jobs.append((cfg, ops, seed, tid))
    nrand, length = (60, 120) if tier == 'quick' else (600, 250)
    for i in range(nrand):
        cfg = gen.random_cfg(rng, small_limit=(prop in ('C09',) or rng.random() < 0.4))
        nkeys = rng.choice([4, 8, 20, 40])
        keys = gen.key_universe(nkeys, rng)
        vals = gen.val_universe(rng)
        vm_unit = 1024
        ops = gen.random_history(rng, length, keys, vals, WEIGHTS[prop])
        tid += 1
        jobs.append((cfg, ops, seed + i, tid))
    traces = pmap(_run, jobs, procs=14)
    out.traces = len(traces)
    out.events = sum(len(t['ev']) for t in traces)
    verdicts, st, tr = validate_all('CacheSeqTrace.tla', 'CacheSeqTrace.cfg', traces)
    out.states += st
    out.transitions += tr
    byid = {t['id']: t for t in traces}
    for tid_, v in sorted(verdicts.items()):
        if not v['ok']:
            t = byid[tid_]
            at = v['at']
            desc = ('trace %d rejected at event %d (%s): %s; reference says %s; observed %s'
                    % (tid_, at, v['op'], v['why'], v.get('expected', '')[:300],
                       str({k: t['ev'][at - 1][k] for k in ('a', 'now', 'pb', 'ret')})[:300]))
            out.violation(desc, {'cfg': t['cfg'], 'init': t['init'], 'events': t['ev'][:at], 'verdict': v})
    for t in traces[:2]:
        out.samples.append({'cfg': t['cfg'], 'ops': [[e['op'], e['a'], e['ret']] for e in t['ev'][:12]]})
    if prop == 'C10':
        from . import conc
        common_fields = __import__('harness.common', fromlist=['x'])
        common_fields.TRACE_FIELDS = ('id', 'nc', 'init', 'ev')
        conc.c10_concurrent(out, tier, seed)
    out.assumptions += ['clock read through time.time (virtual clock, integer ticks)',
                        'SQLite and the file system behave as documented',
                        'value/key alphabets are finite samples; histories beyond the exhaustive configs are seeded random']
    return out.finish()
