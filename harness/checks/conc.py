"""C05 (and the concurrent halves of C10 / C08): small concurrent programs on
real threads under the deterministic scheduler; every recorded execution is
validated by TLC against MonitorTrace.tla."""
import random

from .. import concdriver, sched
from ..common import Outcome, pmap, validate_all, known_findings
from ..envctl import MachineryError
from ..tlc import run_tlc

KA, KB = [1, 97], [1, 98]
F1 = 200000 + 40 * 100 + 1
F2 = 200000 + 48 * 100 + 2
F3 = 200000 + 36 * 100 + 3


def op(name, **a):
    return {'op': name, 'a': a}


def c05_alphabet(k):
    return [
        op('set', k=k, v=5, ttl=[], tag=0), op('set', k=k, v=F1, ttl=[], tag=0),
        op('set', k=k, v=F2, ttl=[], tag=1), op('add', k=k, v=7, ttl=[], tag=0),
        op('add', k=k, v=F3, ttl=[], tag=0), op('incr', k=k, d=1, df=[0]), op('incr', k=k, d=-1, df=[0]),
        op('incr', k=k, d=2, df=[]), op('get', k=k, fx=0, ft=0, mk='miss'),
        op('get', k=k, fx=1, ft=1, mk='miss'), op('get', k=k, fx=0, ft=0, mk='KeyError'),
        op('contains', k=k), op('pop', k=k, fx=0, ft=0), op('delete', k=k, mk='false'),
        op('delete', k=k, mk='KeyError'), op('touch', k=k, ttl=[5]),
    ]


GLOBAL_OPS = [op('len'), op('iter', rev=0, sorted=0), op('iter', rev=1, sorted=1)]
INITS = {'absent': [], 'inline': [op('set', k=KA, v=1, ttl=[], tag=0)],
         'file': [op('set', k=KA, v=F1, ttl=[], tag=2)],
         'both': [op('set', k=KA, v=F2, ttl=[], tag=0), op('set', k=KB, v=3, ttl=[], tag=0)]}


def random_program(rng, nclients, ncalls, keys, alphabet=None):
    prog = {}
    for c in range(1, nclients + 1):
        ops = []
        for _ in range(rng.randint(1, ncalls)):
            if rng.random() < 0.12:
                ops.append(rng.choice(GLOBAL_OPS))
            else:
                ops.append(rng.choice((alphabet or c05_alphabet)(rng.choice(keys))))
        if rng.random() < 0.25:
            at = rng.randrange(len(ops) + 1)
            ops.insert(at, op('iter_open', rev=rng.randrange(2), sorted=rng.randrange(2), take=rng.choice([0, 1, 1, 2])))
            ops.insert(rng.randrange(at + 1, len(ops) + 1), op('iter_close'))
        prog[c] = ops
    return prog


def _run_dfs(cfg, prog, bound, max_runs, seed, base_tid):
    """All schedules of one program up to a preemption bound (capped)."""
    ex = sched.DFSExplorer(bound, max_runs)
    out = []
    n = 0
    while ex.next():
        n += 1
        t = concdriver.run_program(cfg, prog, ex.strategy(), seed, base_tid + n)
        out.append(t)
    return out


def _run_random(cfg, prog, kind, seed, tid):
    rng = random.Random(seed)
    if kind == 'pct':
        st = sched.pct_strategy(rng, len(prog), rng.choice([1, 2, 3]), 40)
    elif kind == 'pct-lines':
        st = sched.pct_strategy(rng, len(prog), rng.choice([2, 3, 3, 4]), rng.choice([150, 300, 500]))
    elif kind == 'hunter':
        st = sched.hunter_strategy(rng, rng.choice([0.3, 0.6, 0.8]))
    else:
        st = sched.random_strategy(rng, rng.choice([0.2, 0.5, 0.8]))
    return [concdriver.run_program(cfg, prog, st, seed, tid)]


# ---------------------------------------------------------------- design level
DESIGN_OK = {
    'C05': {'quick': ['pairs'], 'thorough': ['pairs', 'triples', 'seq']},
    'C06': {'quick': ['tx'], 'thorough': ['tx', 'tx_kill']},
    'C07': {'quick': ['pairs_kill'], 'thorough': ['pairs_kill', 'tx_kill']},
    'C08': {'quick': ['lock'], 'thorough': ['lock', 'pairs_kill']},
    'C14': {'quick': ['lock'], 'thorough': ['lock']},
}
DESIGN_MUST_FAIL = {
    'C05': [('dev_select', ('AbsAgree', 'ReturnsLinearizable'))],
    'C06': [('dev_inner', ('CommittedRefsComplete',)), ('dev_leak', ('QuiescentAgreement',))],
    'C07': [('dev_remove', ('CommittedRefsComplete',)), ('dev_inner', ('CommittedRefsComplete',))],
    'C08': [('dev_timeout', ('QuiescentAgreement',)), ('dev_leak', ('QuiescentAgreement',))],
    'C14': [('dev_timeout', ('QuiescentAgreement',))],
}


def design_level(out, prop, tier):
    """CacheConc.tla: exhaustive exploration of the design; the wrong orderings must break their invariant."""
    for name in DESIGN_OK[prop][tier]:
        res = run_tlc('MCConc.tla', 'MCConc_%s.cfg' % name, workers=16, timeout=900)
        if res.error or res.violation:
            raise MachineryError('design model MCConc_%s: %s %s\n%s' % (name, res.error, res.violation, res.out[-1500:]))
        first = open(__import__('os').path.join(__import__('harness').SPEC, 'MCConc_%s.cfg' % name)).readline().strip()
        out.add_tlc('MCConc_%s.cfg' % name, res, first)
    rep = []
    for name, invs in DESIGN_MUST_FAIL.get(prop, []):
        res = run_tlc('MCConc.tla', 'MCConc_%s.cfg' % name, workers=1, timeout=900)
        if res.violation not in invs:
            raise MachineryError('design model MCConc_%s was expected to violate %s, got %s %s' % (name, invs, res.violation, res.error))
        rep.append('%s violates %s' % (name, res.violation))
    out.notes['design_deviations_rejected'] = rep


F_BY_MODEL = {12: F1, 13: F2, 14: F3, 11: F1}


def model_op(o):
    """operation of MCConc.tla -> abstract operation of the drivers"""
    name, v, rt = o['op'], o['v'], 1 if o.get('retry') else 0
    k = KA
    if name in ('set', 'add'):
        r = op(name, k=k, v=F_BY_MODEL.get(v, v), ttl=[], tag=0)
    elif name == 'incr':
        r = op('incr', k=k, d=1, df=[0])
    elif name == 'get':
        r = op('get', k=k, fx=0, ft=0, mk='miss')
    elif name == 'contains':
        r = op('contains', k=k)
    elif name == 'pop':
        r = op('pop', k=k, fx=0, ft=0)
    elif name == 'delete':
        r = op('delete', k=k, mk='false')
    elif name in ('txbegin', 'txend', 'txraise'):
        return op(name)
    else:
        raise MachineryError('model op %r' % (o,))
    if rt:
        r['a']['retry'] = 1
    return r


def tlc_schedules(name, tier, seed):
    """(init, program, client order) triples generated by TLC from the design model"""
    from .. import plans
    out = []
    for init in ('absent', 'inline', 'file'):
        pl, res = plans.tlc_plans('CacheConcPlan.tla', 'CacheConcPlan_%s_%s.cfg' % (name, init), timeout=120, seed=seed)
        for p in pl:
            prog = {i + 1: [model_op(o) for o in ops] for i, ops in enumerate(p['prog'])}
            out.append((init, prog, p['hist']))
    return out


def _run_scripted(cfg, prog, order, seed, tid):
    return [concdriver.run_program(cfg, prog, sched.scripted_phases(order), seed, tid)]


def base_cfg(rng, shared, init, stats=False, policy=None):
    return dict(policy=policy or rng.choice(['lrs', 'lrs', 'none']), cull=10, limit=2 ** 30, stats=stats,
                shared=1 if shared else 0, init=INITS[init], timeout=0, busy_budget=2)


def explore(out, jobs_dfs, jobs_rand, module='MonitorTrace.tla', cfgfile='MonitorTrace.cfg', scripted=()):
    res = pmap(_run_dfs, jobs_dfs, procs=14) + pmap(_run_random, jobs_rand, procs=14) + pmap(_run_scripted, list(scripted), procs=14)
    traces = [t for lst in res for t in lst]
    for i, t in enumerate(traces):
        t['id'] = i + 1
    out.traces += len(traces)
    out.events += sum(len(t['ev']) for t in traces)
    verdicts, st, tr = validate_all(module, cfgfile, traces, batch_events=40000)
    out.states += st
    out.transitions += tr
    return traces, verdicts


def report(out, prop, traces, verdicts, findings):
    byid = {t['id']: t for t in traces}
    known_ids = {f['deviation']: f for f in findings if 'deviation' in f}
    for tid, v in sorted(verdicts.items()):
        t = byid[tid]
        if v['ok']:
            for d in v.get('known', []):
                if d in known_ids:
                    out.known(known_ids[d], '(program %s)' % str(t['program'])[:200])
                else:
                    out.violation('trace %d needs deviation %s which is not a listed finding of %s' % (tid, d, prop),
                                  {'program': t['program'], 'schedule': t['schedule']})
            continue
        at = v['at']
        desc = ('schedule rejected at event %d (%s): %s | program=%s schedule=%s'
                % (at, v.get('ev'), v['why'], str(t['program'])[:400], t['schedule'][:80]))
        out.violation(desc, {'cfg': t['cfg'], 'program': t['program'], 'schedule': t['schedule'],
                             'events': t['ev'][:at + 2], 'verdict': v})
    for t in traces[:2]:
        out.samples.append({'program': t['program'], 'schedule': t['schedule'][:60],
                            'events': [[e['ev'], e.get('c'), e.get('op', e.get('ret', ''))] for e in t['ev'][:25]]})


def _free(cfg, init, prog, seed, tid):
    from .. import freerun
    return freerun.run_free(cfg, init, prog, seed, tid)


def free_running(out, tier, seed):
    """C05 as stated, with PROCESSES: 2-4 forked processes run short random programs freely on one directory; the merged
    call / return history (stamped by a shared counter) is checked for linearizability by TLC (LinTrace.tla)."""
    rng = random.Random(seed * 104729 + 55)
    alpha = lambda k: [op('set', k=k, v=5, ttl=[], tag=0), op('set', k=k, v=F1, ttl=[], tag=0), op('set', k=k, v=F2, ttl=[], tag=1),
                       op('add', k=k, v=7, ttl=[], tag=0), op('add', k=k, v=F3, ttl=[], tag=0), op('incr', k=k, d=1, df=[0]),
                       op('incr', k=k, d=-1, df=[0]), op('get', k=k, fx=0, ft=0, mk='miss'), op('contains', k=k),
                       op('pop', k=k, fx=0, ft=0), op('delete', k=k, mk='false')]
    jobs = []
    for i in range(80 if tier == 'quick' else 2500):
        nproc = rng.choice([2, 3, 3, 4])
        prog = {p_: [rng.choice(alpha(rng.choice([KA, KA, KB]))) for _ in range(rng.randint(3, 7))] for p_ in range(1, nproc + 1)}
        init = rng.choice([[], [op('set', k=KA, v=1, ttl=[], tag=0)], [op('set', k=KA, v=F1, ttl=[], tag=0), op('set', k=KB, v=3, ttl=[], tag=0)]])
        jobs.append(({'inherit': rng.randrange(2)}, init, prog, seed * 1000 + i, i + 1))
    # producers and consumers in processes (C10: every pushed item is delivered exactly once, in order per queue)
    push = lambda v, p=(): op('push', v=v, p=list(p), back=1, ttl=[], tag=0)
    pull = lambda p=(): op('pull', p=list(p), back=0, fx=0, ft=0)
    for i in range(30 if tier == 'quick' else 800):
        nproc = rng.choice([2, 3, 4])
        pre = rng.choice([(), (), (97,)])
        prog = {}
        for p_ in range(1, nproc + 1):
            if p_ % 2:
                prog[p_] = [push(100 * p_ + j if rng.random() < 0.7 else F1, pre) for j in range(rng.randint(2, 4))]
            else:
                prog[p_] = [pull(pre) for _ in range(rng.randint(2, 4))]
        jobs.append(({'inherit': rng.randrange(2)}, rng.choice([[], [push(1, pre), push(2, pre)]]), prog, seed * 1000 + 5000 + i, 5000 + i))
    traces = pmap(_free, jobs, procs=4)
    import harness.common as _c
    old = _c.TRACE_FIELDS
    _c.TRACE_FIELDS = ('id', 'nc', 'init', 'ev')
    try:
        verdicts, st, tr = validate_all('LinTrace.tla', 'LinTrace.cfg', traces, batch_events=3000)
    finally:
        _c.TRACE_FIELDS = old
    out.states += st
    out.transitions += tr
    out.traces += len(traces)
    out.events += sum(len(t['ev']) for t in traces)
    overlap = 0
    for t in traces:
        open_ = 0
        for e in t['ev']:
            if e['ev'] == 'call':
                open_ += 1
                overlap += 1 if open_ > 1 else 0
            elif e['ev'] == 'ret':
                open_ -= 1
    out.notes['free_running_process_histories'] = len(traces)
    out.notes['free_running_calls_overlapping_another_call'] = overlap
    byid = {t['id']: t for t in traces}
    for tid_, v in sorted(verdicts.items()):
        if not v['ok']:
            t = byid[tid_]
            at = min(v['at'], len(t['ev']))
            out.violation('free-running processes: %s (event %d: %s) | program=%s' % (v['why'], at, str(t['ev'][at - 1])[:200], str(t['program'])[:300]),
                          {'cfg': t['cfg'], 'program': t['program'], 'events': t['ev'], 'verdict': v})


def run_c05(tier, seed):
    out = Outcome('C05', tier, seed)
    rng = random.Random(seed * 7919 + 5)
    jobs_dfs, jobs_rand = [], []
    tid = 0
    # exhaustive (preemption-bounded) schedules of tiny programs: 2 clients x 1 call on one key
    alpha = c05_alphabet(KA)
    pairs = [(a, b) for a in alpha for b in alpha]
    rng.shuffle(pairs)
    npairs = 40 if tier == 'quick' else len(pairs)
    for a, b in pairs[:npairs]:
        init = rng.choice(['absent', 'inline', 'file'])
        shared = rng.random() < 0.4
        cfg = base_cfg(rng, shared, init, stats=rng.random() < 0.25)
        jobs_dfs.append((cfg, {1: [a], 2: [b]}, 2, 60 if tier == 'quick' else 400, seed, tid))
        tid += 1000
    # a suspended iterator (partially consumed) around lookups of the same client, against one writer
    reads = [op('get', k=KA, fx=0, ft=0, mk='miss'), op('contains', k=KA), op('len'),
             op('get', k=KA, fx=0, ft=0, mk='KeyError')]
    writes = [op('set', k=KA, v=5, ttl=[], tag=0), op('delete', k=KA, mk='false'), op('set', k=KB, v=F1, ttl=[], tag=0),
              op('incr', k=KB, d=1, df=[0])]
    templ = [(r, w, s) for r in reads for w in writes for s in (0, 1)]
    rng.shuffle(templ)
    for r, w, s in templ[:(6 if tier == 'quick' else len(templ))]:
        cfg = base_cfg(rng, False, 'both')
        prog = {1: [op('iter_open', rev=rng.randrange(2), sorted=s, take=1), r, op('iter_close')], 2: [w]}
        jobs_dfs.append((cfg, prog, 2, 80 if tier == 'quick' else 400, seed, tid))
        tid += 1000
    # larger programs, random and PCT schedules
    nrand = 250 if tier == 'quick' else 5000
    for i in range(nrand):
        ncl = rng.choice([2, 2, 3, 3, 4])
        prog = random_program(rng, ncl, 3, [KA, KA, KB])
        cfg = base_cfg(rng, rng.random() < 0.4, rng.choice(['absent', 'inline', 'file', 'both']),
                       stats=rng.random() < 0.25, policy=rng.choice(['lrs', 'lru', 'lfu', 'none']))
        jobs_rand.append((cfg, prog, rng.choice(['pct', 'random']), seed * 100000 + i, 0))
    # value files sharing one sub-directory: storing a file-backed value while the removal of the last other file prunes
    # the directory (the store creates the directory, the removal deletes it when empty)
    stores = [op('set', k=KB, v=F2, ttl=[], tag=0), op('add', k=KB, v=F3, ttl=[], tag=0), op('push', v=F1, p=[], back=1, ttl=[], tag=0),
              op('set', k=KA, v=F3, ttl=[], tag=0)]
    removes = [op('delete', k=KA, mk='false'), op('pop', k=KA, fx=0, ft=0), op('set', k=KA, v=5, ttl=[], tag=0), op('clear')]
    combos = [(a, b) for a in stores for b in removes]
    rng.shuffle(combos)
    for a, b in combos[:(5 if tier == 'quick' else len(combos))]:
        cfg = base_cfg(rng, False, 'file')
        cfg['collide'] = 1
        jobs_dfs.append((cfg, {1: [a], 2: [b]}, 2, 120 if tier == 'quick' else 600, seed, tid))
        tid += 1000
    # threads sharing one Cache object (clients 1 and 2; client 3 has its own): the object's record of which thread
    # owns the transaction must survive failing calls, waiting for the lock and the moment after its release
    def rt(o):
        o = dict(o, a=dict(o['a'], retry=1))
        return o
    fails = [op('incr', k=KB, d=1, df=[]), op('delete', k=KB, mk='KeyError'), op('get', k=KB, fx=0, ft=0, mk='KeyError')]
    rmw = [op('incr', k=KA, d=1, df=[0]), op('incr', k=KA, d=2, df=[0]), op('add', k=KA, v=7, ttl=[], tag=0), op('pop', k=KA, fx=0, ft=0)]
    for i in range(120 if tier == 'quick' else 3000):
        p1 = [rt(rng.choice(rmw)) for _ in range(rng.randint(1, 3))]
        p2 = [rt(rng.choice(fails + rmw)) for _ in range(rng.randint(1, 2))]
        if rng.random() < 0.5:
            p1.insert(rng.randrange(len(p1) + 1), rt(rng.choice(fails)))
        else:
            p2.insert(rng.randrange(len(p2) + 1), rt(rng.choice(fails)))
        prog = {1: p1, 2: p2, 3: [rt(rng.choice(rmw)) for _ in range(rng.randint(1, 2))]}
        cfg = base_cfg(rng, False, rng.choice(['absent', 'inline']))
        cfg['shared'] = 2
        jobs_rand.append((cfg, prog, 'hunter', seed * 100000 + 50000 + i, 0))
    # threads sharing one object, interleaved at every LINE of the library (not only at database / file operations):
    # attributes cached on the shared object (item count, settings, transaction owner) must not leak between threads
    lineops = [op('len'), op('len'), op('set', k=KB, v=5, ttl=[], tag=0), op('delete', k=KA, mk='false'), op('incr', k=KA, d=1, df=[0]),
               op('get', k=KA, fx=0, ft=0, mk='miss'), op('contains', k=KB), op('add', k=KB, v=7, ttl=[], tag=0), op('pop', k=KB, fx=0, ft=0)]
    for i in range(100 if tier == 'quick' else 2500):
        prog = {c_: [rng.choice(lineops) for _ in range(rng.randint(1, 3))] for c_ in range(1, rng.choice([2, 3]) + 1)}
        cfg = base_cfg(rng, True, rng.choice(['absent', 'inline']), stats=rng.random() < 0.3)
        cfg['lines'] = 1
        jobs_rand.append((cfg, prog, rng.choice(['random', 'pct-lines', 'pct-lines']), seed * 100000 + 80000 + i, 0))
    # ... and exhaustively (<= 2 preemptions) at every assignment to an attribute of the shared object
    writers = [op('set', k=KB, v=5, ttl=[], tag=0), op('delete', k=KA, mk='false'), op('incr', k=KB, d=1, df=[0])]
    readers = [op('len'), op('get', k=KA, fx=0, ft=0, mk='miss'), op('contains', k=KB)]
    combos = [(w, r1, r2) for w in writers for r1 in readers for r2 in readers]
    rng.shuffle(combos)
    for w, r1, r2 in combos[:(4 if tier == 'quick' else len(combos))]:
        cfg = base_cfg(rng, True, 'inline', stats=rng.random() < 0.5)
        cfg['attr_yields'] = 1
        jobs_dfs.append((cfg, {1: [w, r1], 2: [r2]}, 2, 250 if tier == 'quick' else 1500, seed, tid))
        tid += 1000
    cfg = base_cfg(rng, True, 'inline')
    cfg['attr_yields'] = 1
    jobs_dfs.append((cfg, {1: [writers[0], op('len')], 2: [op('len')]}, 2, 400 if tier == 'quick' else 2500, seed, tid))
    tid += 1000
    design_level(out, 'C05', tier)
    sch = tlc_schedules('pairs', tier, seed) + (tlc_schedules('triples', tier, seed) + tlc_schedules('seq', tier, seed) if tier == 'thorough' else [])
    rng.shuffle(sch)
    jobs_script = []
    for init, prog, order in sch[:(250 if tier == 'quick' else 6000)]:
        cfg = base_cfg(rng, rng.random() < 0.3, init)
        jobs_script.append((cfg, prog, order, seed, 0))
    out.notes['tlc_generated_schedules_replayed'] = len(jobs_script)
    traces, verdicts = explore(out, jobs_dfs, jobs_rand, scripted=jobs_script)
    report(out, 'C05', traces, verdicts, known_findings('C05'))
    out.notes['programs'] = len(jobs_dfs) + len(jobs_rand)
    out.notes['schedules_enumerated_dfs'] = sum(1 for t in traces if t['id'] <= 10 ** 9) - len(jobs_rand)
    free_running(out, tier, seed)
    out.assumptions += ['scheduled clients are real threads with separate or shared Cache objects; separate OS processes run freely '
                        '(forked, calls stamped by a shared counter) and are checked for linearizability, they are not scheduled',
                        'SQLite WAL snapshot isolation and BEGIN IMMEDIATE exclusion (statements inside a held write '
                        'transaction are scheduling points only for threads sharing one Cache object, whose Python-level '
                        'state they share)']
    return out.finish()


def tx_body_alphabet(k):
    return [
        op('set', k=k, v=5, ttl=[], tag=0), op('set', k=k, v=F1, ttl=[], tag=1), op('set', k=k, v=F2, ttl=[7], tag=0),
        op('add', k=k, v=F3, ttl=[], tag=0), op('incr', k=k, d=1, df=[0]), op('get', k=k, fx=0, ft=0, mk='miss'),
        op('get', k=k, fx=1, ft=1, mk='miss'), op('contains', k=k), op('pop', k=k, fx=0, ft=0),
        op('delete', k=k, mk='false'), op('touch', k=k, ttl=[3]), op('len'),
        op('push', v=6, p=[], back=1, ttl=[], tag=0), op('pull', p=[], back=0, fx=0, ft=0),
    ]


def tx_program(rng, nbody, nested, raise_at, inline_only=False):
    """client 1: [txbegin body.. (nested block) .. txend|txraise] + a lookup afterwards"""
    keys = [KA, KA, KB]
    def pick():
        o = rng.choice(tx_body_alphabet(rng.choice(keys)))
        if inline_only and o['a'].get('v', 0) >= 200000:
            o = op('set', k=o['a'].get('k', KA), v=9, ttl=[], tag=0) if o['op'] != 'push' else op('push', v=6, p=[], back=1, ttl=[], tag=0)
        return o
    body = [pick() for _ in range(nbody)]
    if nested:
        at = rng.randrange(len(body) + 1)
        inner = [pick() for _ in range(rng.randint(1, 2))]
        body[at:at] = [op('txbegin')] + inner + [op('txend')]
    ops = [op('txbegin')] + body
    if raise_at is not None:
        # raise after the raise_at-th body element (not inside the nested block for simplicity of the plan)
        depth, cut = 0, len(ops)
        n = 0
        for i, o in enumerate(ops[1:], 1):
            if o['op'] == 'txbegin':
                depth += 1
            if o['op'] == 'txend':
                depth -= 1
            n += 1
            if n >= raise_at:
                cut = i + 1
                break
        ops = ops[:cut] + [op('txraise')]
        # close the nested block records the driver would never reach: nothing to do, the exception unwinds
    else:
        ops.append(op('txend'))
    ops.append(op('get', k=KA, fx=1, ft=1, mk='miss'))
    if rng.random() < 0.5:
        # the same client goes on: a failing single call and/or a second block
        if rng.random() < 0.5:
            ops.append(op('delete', k=[1, 122], mk='KeyError'))
        ops += [op('txbegin'), pick(), pick(), rng.choice([op('txend'), op('txraise')])]
        ops.append(op('get', k=KB, fx=0, ft=0, mk='miss'))
    return ops


def run_c06(tier, seed):
    out = Outcome('C06', tier, seed)
    rng = random.Random(seed * 104729 + 6)
    jobs_dfs, jobs_rand = [], []
    tid = 0
    others = [[op('get', k=KA, fx=0, ft=0, mk='miss'), op('contains', k=KB)],
              [op('set', k=KA, v=8, ttl=[], tag=0)], [op('incr', k=KB, d=1, df=[0])],
              [op('len'), op('get', k=KB, fx=0, ft=0, mk='miss')], [op('delete', k=KA, mk='false')],
              [op('set', k=KB, v=F3, ttl=[], tag=0), op('get', k=KA, fx=0, ft=0, mk='KeyError')],
              [op('close'), op('get', k=KA, fx=0, ft=0, mk='miss')], [op('contains', k=KA), op('close')]]
    n = 30 if tier == 'quick' else 600
    for i in range(n):
        nbody = rng.randint(1, 3)
        raise_at = rng.choice([None, None, 1, 2, 3])
        inline_only = rng.random() < 0.5
        prog = {1: tx_program(rng, nbody, rng.random() < 0.35, raise_at, inline_only), 2: rng.choice(others)}
        if rng.random() < 0.3:
            prog[3] = rng.choice(others)
        shared = rng.random() < 0.35
        cfg = base_cfg(rng, shared, rng.choice(['absent', 'inline', 'file', 'both']))
        cfg['txvia'] = rng.choice(['cache', 'cache', 'deque', 'index'])
        if rng.random() < 0.3 and not any(o['op'] in ('push', 'pull', 'iter_open') for ops_ in prog.values() for o in ops_):
            cfg['kind'] = 'fanout'           # FanoutCache.transact (one shard): every shard's transaction is entered
            cfg['txvia'] = 'cache'
        jobs_dfs.append((cfg, prog, 2, 40 if tier == 'quick' else 300, seed, tid))
        tid += 1000
    # thread ownership: a second thread using the SAME object while the block is open
    for other in ([op('close')], [op('set', k=KA, v=8, ttl=[], tag=0)], [op('get', k=KA, fx=0, ft=0, mk='miss'), op('close')],
                  [op('incr', k=KB, d=1, df=[0])], [op('txbegin'), op('set', k=KB, v=2, ttl=[], tag=0), op('txend')]):
        for st in (False, True):
            cfg = base_cfg(rng, True, 'inline', stats=st)
            prog = {1: [op('txbegin'), op('set', k=KA, v=6, ttl=[], tag=0), op('incr', k=KB, d=1, df=[0]),
                        op('get', k=KA, fx=0, ft=0, mk='miss'), op('txend'), op('get', k=KB, fx=0, ft=0, mk='miss')],
                    2: other}
            jobs_dfs.append((cfg, prog, 2, 60 if tier == 'quick' else 400, seed, tid))
            tid += 1000
            if not st:
                # the same through FanoutCache.transact: the block belongs to the thread, not to the object
                cfg = dict(base_cfg(rng, True, 'inline', stats=False), kind='fanout', txvia='cache')
                o2 = list(other)
                if o2[0]['op'] == 'txbegin':
                    # a block of its own with two writes that raises: nothing of it may stay
                    o2 = [op('txbegin'), op('set', k=KB, v=2, ttl=[], tag=0), op('set', k=KA, v=9, ttl=[], tag=0), op('txraise'),
                          op('get', k=KA, fx=0, ft=0, mk='miss')]
                jobs_dfs.append((cfg, {1: list(prog[1]), 2: o2}, 2, 200 if tier == 'quick' else 600, seed, tid))
                tid += 1000
    m = 150 if tier == 'quick' else 3000
    for i in range(m):
        prog = {1: tx_program(rng, rng.randint(1, 4), rng.random() < 0.4, rng.choice([None, None, 1, 2, 3, 4]),
                              rng.random() < 0.5),
                2: random_program(rng, 1, 3, [KA, KB])[1]}
        if rng.random() < 0.4:
            prog[3] = tx_program(rng, rng.randint(1, 2), False, rng.choice([None, 1]), rng.random() < 0.5)
        cfg = base_cfg(rng, rng.random() < 0.35, rng.choice(['absent', 'inline', 'file', 'both']))
        cfg['txvia'] = rng.choice(['cache', 'cache', 'deque', 'index'])
        jobs_rand.append((cfg, prog, rng.choice(['pct', 'random']), seed * 100000 + i, 0))
    design_level(out, 'C06', tier)
    sch = tlc_schedules('tx', tier, seed)
    rng.shuffle(sch)
    jobs_script = [(base_cfg(rng, rng.random() < 0.3, init), prog, order, seed, 0) for init, prog, order in sch[:(200 if tier == 'quick' else 4000)]]
    out.notes['tlc_generated_schedules_replayed'] = len(jobs_script)
    traces, verdicts = explore(out, jobs_dfs, jobs_rand, scripted=jobs_script)
    report(out, 'C06', traces, verdicts, known_findings('C06'))
    out.notes['programs'] = len(jobs_dfs) + len(jobs_rand)
    out.notes['blocks_raised'] = sum(1 for t in traces for e in t['ev'] if e.get('op') == 'txraise')
    out.notes['traces_stopped_at_known_finding'] = sum(1 for v in verdicts.values() if v['ok'] and v.get('known'))
    out.assumptions += ['FanoutCache.transact is exercised by the C13 check; here Cache/Deque/Index.transact',
                        'a trace that hits a listed known finding is not judged beyond that event']
    return out.finish()


# --------------------------------------------------------------------- C08
class Injector:
    """Raises at the n-th statement / file operation of the scheduled part."""
    SKIP = ('fremove', 'rmdir')      # environment assumption: removing an existing file succeeds

    def __init__(self, n):
        self.n = n
        self.count = 0
        self.fired = None

    def __call__(self, kind, desc, client):
        if desc in self.SKIP:
            return None
        self.count += 1
        if self.count == self.n:
            self.fired = (kind, desc)
            import sqlite3, errno
            if kind == 'sql':
                return sqlite3.OperationalError('disk I/O error (injected)')
            return OSError(errno.EIO, 'injected')
        return None


def _fault_runs(cfg, prog, seed, base_tid):
    """Count the fault points of the workload, then run it once per point."""
    inj = Injector(0)
    t0 = concdriver.run_program(cfg, prog, sched.scripted([]), seed, base_tid, inject=inj)
    out = [t0]
    t0['fault'] = None
    for n in range(1, inj.count + 1):
        inj = Injector(n)
        t = concdriver.run_program(cfg, prog, sched.scripted([]), seed, base_tid + n, inject=inj)
        t['fault'] = [n, inj.fired]
        out.append(t)
    return out


def c08_workloads(rng, tier):
    big = 500000 + 40 * 100 + 7          # unstorable text (lone surrogate)
    targets = [
        ('set-inline', op('set', k=KA, v=5, ttl=[], tag=0)), ('set-file', op('set', k=KA, v=F2, ttl=[3], tag=1)),
        ('set-text-file', op('set', k=KA, v=300000 + 36 * 100 + 1, ttl=[], tag=0)),
        ('set-pickle-file', op('set', k=KB, v=400000 + 12 * 100 + 1, ttl=[], tag=0)),
        ('add-file', op('add', k=KB, v=F3, ttl=[], tag=0)), ('add-present', op('add', k=KA, v=F3, ttl=[], tag=0)),
        ('incr', op('incr', k=KB, d=1, df=[0])), ('incr-missing', op('incr', k=[1, 120], d=1, df=[])),
        ('touch', op('touch', k=KA, ttl=[4])), ('pop', op('pop', k=KA, fx=0, ft=0)),
        ('delete', op('delete', k=KA, mk='false')), ('delitem-missing', op('delete', k=[1, 120], mk='KeyError')),
        ('push-file', op('push', v=F3, p=[], back=1, ttl=[], tag=0)), ('push-prefix', op('push', v=6, p=[97], back=0, ttl=[], tag=0)),
        ('pull', op('pull', p=[], back=0, fx=0, ft=0)), ('peek', op('peek', p=[], back=1, fx=0, ft=0)),
        ('peekitem', op('peekitem', last=1, fx=0, ft=0)), ('clear', op('clear')), ('evict', op('evict', tag=2)),
        ('expire', op('expire')), ('cull', op('cull')), ('get', op('get', k=KA, fx=0, ft=0, mk='miss')),
        ('set-badtag-file', op('set', k=KA, v=F2, ttl=[], tag=-1)), ('add-badtag-file', op('add', k=KB, v=F3, ttl=[], tag=-1)),
        ('push-badtag-file', op('push', v=F3, p=[], back=1, ttl=[], tag=-1)),
        ('set-unencodable-text', op('set', k=KA, v=big, ttl=[], tag=0)),
        ('set-broken-stream', dict(op('set', k=KA, v=F2, ttl=[], tag=0), form=3)),
        ('push-broken-stream', dict(op('push', v=F3, p=[], back=1, ttl=[], tag=0), form=3)),
        ('tx-commit', None), ('tx-abort', None),
    ]
    inits = ['inline', 'file', 'both', 'queue']
    out = []
    for name, target in targets:
        for init in inits:
            if tier == 'quick' and rng.random() < 0.55:
                continue
            if target is None:
                body = [op('txbegin'), op('set', k=KA, v=7, ttl=[], tag=0), op('incr', k=KB, d=1, df=[0])]
                body += [op('txend')] if name == 'tx-commit' else [op('txraise')]
                ops = body + [op('get', k=KA, fx=0, ft=0, mk='miss')]
            else:
                ops = [target, op('get', k=KA, fx=0, ft=0, mk='miss'), op('len')]
            out.append((name, init, ops))
    # the same operations over items that are still stored but whose expiry has passed (file-backed): the replaced or
    # removed item's file must go, the counters must follow
    for name, target in targets:
        if target is None or name in ('clear', 'evict', 'set-unencodable-text') or 'broken' in name or 'badtag' in name:
            continue
        if tier == 'quick' and name not in ('incr', 'add-file', 'set-file', 'touch', 'pop') and rng.random() < 0.6:
            continue
        out.append((name + '-over-expired', 'xfile', [op('tick', n=3), target, op('get', k=KA, fx=0, ft=0, mk='miss'), op('len')]))
    return out


def run_c08(tier, seed):
    out = Outcome('C08', tier, seed)
    out.level = 'fault_enumeration'
    rng = random.Random(seed * 15485863 + 8)
    jobs = []
    tid = 0
    INITS['queue'] = [op('set', k=KA, v=F1, ttl=[], tag=2), op('push', v=F2, p=[], back=1, ttl=[], tag=0),
                      op('push', v=3, p=[], back=1, ttl=[1], tag=2)]
    INITS['xfile'] = [op('set', k=KA, v=F1, ttl=[1], tag=2), op('set', k=KB, v=F2, ttl=[2], tag=0), op('set', k=[1, 99], v=F3, ttl=[], tag=0)]
    names = []
    for name, init, ops in c08_workloads(rng, tier):
        for stats, policy in ((False, 'lrs'), (True, 'lru')) if tier == 'thorough' else ((rng.random() < 0.3, rng.choice(['lrs', 'lru'])),):
            cfg = base_cfg(rng, False, init, stats=stats, policy=policy)
            cfg['faulty'] = 1
            jobs.append((cfg, {1: ops}, seed, tid))
            names.append(name)
            tid += 1000
    design_level(out, 'C08', tier)
    res = pmap(_fault_runs, jobs, procs=14)
    traces = [t for lst in res for t in lst]
    fired = sum(1 for t in traces if t.get('fault') and t['fault'][1])
    failed_calls = sum(1 for t in traces if t.get('fault') and any(
        e['ev'] == 'ret' and isinstance(e.get('ret'), dict) and e['ret']['k'] in ('OSError', 'OperationalError', 'Timeout')
        for e in t['ev']))
    # concurrent and transactional histories: quiescent agreement is part of every C05/C06-style trace
    jobs_rand = []
    n = 120 if tier == 'quick' else 2500
    for i in range(n):
        prog = random_program(rng, rng.choice([2, 3]), 3, [KA, KB])
        if rng.random() < 0.4:
            prog[len(prog) + 1] = tx_program(rng, rng.randint(1, 3), rng.random() < 0.3, rng.choice([None, 1, 2]), False)
        cfg = base_cfg(rng, rng.random() < 0.3, rng.choice(['absent', 'inline', 'file', 'both']), stats=rng.random() < 0.3,
                       policy=rng.choice(['lrs', 'lru', 'lfu', 'none']))
        jobs_rand.append((cfg, prog, rng.choice(['pct', 'random']), seed * 100000 + i, 0))
    # a handle being opened on the directory while other clients store and remove items: opening reads and writes the
    # settings and counters statement by statement
    nopen = 60 if tier == 'quick' else 1200
    for i in range(nopen):
        writer = [rng.choice([op('set', k=rng.choice([KA, KB]), v=rng.choice([5, F1, F2]), ttl=[], tag=0), op('delete', k=KA, mk='false'),
                              op('incr', k=KB, d=1, df=[0]), op('pop', k=KA, fx=0, ft=0), op('add', k=KB, v=F3, ttl=[], tag=0)])
                  for _ in range(rng.randint(1, 3))]
        opener = [op('reopen')] + [rng.choice([op('len'), op('get', k=KA, fx=0, ft=0, mk='miss'), op('set', k=KB, v=6, ttl=[], tag=0)])
                                   for _ in range(rng.randint(0, 2))]
        if rng.random() < 0.3:
            opener.insert(0, rng.choice(writer))
        prog = {1: opener, 2: writer}
        if rng.random() < 0.3:
            prog[3] = [op('reopen'), op('len')]
        cfg = base_cfg(rng, False, rng.choice(['absent', 'inline', 'file', 'both']), stats=rng.random() < 0.3)
        jobs_rand.append((cfg, prog, rng.choice(['pct', 'random', 'random']), seed * 100000 + 70000 + i, 0))
    res2 = pmap(_run_random, jobs_rand, procs=14)
    traces += [t for lst in res2 for t in lst]
    for i, t in enumerate(traces):
        t['id'] = i + 1
    out.traces = len(traces)
    out.events = sum(len(t['ev']) for t in traces)
    verdicts, st, tr = validate_all('MonitorTrace.tla', 'MonitorTrace.cfg', traces, batch_events=40000)
    out.states += st
    out.transitions += tr
    out.notes['histories_with_a_handle_opened_concurrently'] = nopen
    report(out, 'C08', traces, verdicts, known_findings('C08'))
    return out.finish({'evaluations': len(traces), 'distinct_nontrivial': failed_calls,
                       'fault_points_fired': fired,
                       'rule': 'for each workload (mutating method x initial contents x settings) the number N of database '
                               'statements and file operations it performs is counted in a fault-free run, then the workload is re-run N '
                               'times with an OperationalError / OSError(EIO) injected at the n-th one (COMMIT/ROLLBACK and removals '
                               'excluded); plus unbindable tag, unencodable text and a stream that breaks mid-read; non-trivial = the '
                               'injected fault made a call fail (counted), every run is validated by the TLA+ monitor incl. the '
                               'quiescent agreement of counters, rows and value files',
                       'workloads': sorted(set(names))})


# --------------------------------------------------------------------- C14
def c14_ops(kind):
    o = [
        op('set', k=KA, v=5, ttl=[], tag=0), op('set', k=KA, v=F2, ttl=[2], tag=1), op('set', k=KB, v=F3, ttl=[], tag=0, retry=1),
        dict(op('set', k=KA, v=F2, ttl=[], tag=0), form=1),                       # cache[k] = v : retries
        op('add', k=KB, v=F1, ttl=[], tag=0), op('add', k=KB, v=7, ttl=[], tag=0, retry=1),
        op('incr', k=KA, d=1, df=[0]), op('incr', k=KB, d=1, df=[0], retry=1), dict(op('incr', k=KB, d=-1, df=[0]), form=1),
        op('touch', k=KA, ttl=[5]), op('touch', k=KA, ttl=[5], retry=1),
        op('get', k=KA, fx=0, ft=0, mk='miss'), op('get', k=KA, fx=1, ft=1, mk='miss'), op('get', k=KA, fx=0, ft=0, mk='KeyError'),
        op('get', k=KA, fx=0, ft=0, mk='miss', retry=1), dict(op('get', k=KA, fx=0, ft=0, mk='KeyError'), form=1),
        op('contains', k=KA), op('len'), op('iter', rev=0, sorted=0),
        op('pop', k=KA, fx=0, ft=0), op('pop', k=KA, fx=0, ft=0, retry=1),
        op('delete', k=KA, mk='false'), op('delete', k=KA, mk='KeyError'), op('delete', k=KA, mk='false', retry=1),
        op('clear'), op('clear', retry=1), op('evict', tag=2), op('expire'), op('cull'),
    ]
    if kind == 'cache':
        o += [op('push', v=F3, p=[], back=1, ttl=[], tag=0), op('push', v=6, p=[97], back=0, ttl=[], tag=0, retry=1),
              op('pull', p=[], back=0, fx=0, ft=0), op('pull', p=[], back=1, fx=0, ft=0, retry=1),
              op('peek', p=[], back=0, fx=0, ft=0), op('peekitem', last=1, fx=0, ft=0),
              op('iter', rev=1, sorted=1)]
    return o


def run_c14(tier, seed):
    out = Outcome('C14', tier, seed)
    rng = random.Random(seed * 49979687 + 14)
    jobs_dfs = []
    tid = 0
    INITS['queue'] = [op('set', k=KA, v=F1, ttl=[], tag=2), op('push', v=F2, p=[], back=1, ttl=[], tag=0),
                      op('push', v=3, p=[], back=1, ttl=[1], tag=2)]
    combos = []
    for kind in ('cache', 'fanout'):
        for o in c14_ops(kind):
            for init in ('file', 'queue') if kind == 'cache' else ('file',):
                for stats, policy in ((False, 'lrs'), (True, 'lru')):
                    combos.append((kind, o, init, stats, policy))
    rng.shuffle(combos)
    if tier == 'quick':
        # one configuration per operation form; lookups under settings that turn reads into writes
        seen, pick = set(), []
        for kind, o, init, stats, policy in combos:
            want_rw = o['op'] in ('get', 'contains', 'len', 'iter')
            # (every lookup form runs under the settings that make it write; a sample of them also without)
            key = (kind, o['op'], o.get('form', 0), str(sorted(o['a'].items())), stats if want_rw else None)
            if key in seen or (want_rw and not stats and rng.random() < 0.8):
                continue
            seen.add(key)
            pick.append((kind, o, init, stats, policy))
        combos = pick
    for kind, o, init, stats, policy in combos:
        for budget in ((1,) if tier == 'quick' else (0, 1, 3)):
            cfg = base_cfg(rng, False, init, stats=stats, policy=policy)
            cfg['kind'] = kind
            cfg['busy_budget'] = budget
            # locker client 1; the operation (and a lookup afterwards) is client 2
            prog = {1: [op('lock'), op('unlock')], 2: [o, op('get', k=KA, fx=0, ft=0, mk='miss')]}
            jobs_dfs.append((cfg, prog, 2, 40 if tier == 'quick' else 200, seed, tid))
            tid += 1000
    # bulk removals that work in phases (cull: expired items first, then by policy until the volume fits): the lock is
    # taken between the phases; the count reported with the Timeout must include what the earlier phase removed
    K3, K4 = [1, 99], [1, 100]
    INITS['bulk'] = [op('set', k=KA, v=F1, ttl=[0], tag=0), op('set', k=KB, v=F2, ttl=[0], tag=1), op('set', k=K3, v=F3, ttl=[], tag=1),
                     op('set', k=K4, v=F1, ttl=[], tag=0)]
    for o in (op('cull'), op('cull', retry=1), op('expire'), op('clear'), op('evict', tag=1)):
        for kind in ('cache', 'fanout'):
            cfg = base_cfg(rng, False, 'bulk', policy=rng.choice(['lrs', 'lru']))
            cfg.update(kind=kind, busy_budget=1, cull=0, limit=4096, now=3)
            prog = {1: [op('lock'), op('unlock')], 2: [op('tick', n=2), o, op('len')]}
            jobs_dfs.append((cfg, prog, 2, (260 if o['op'] == 'cull' else 60) if tier == 'quick' else 600, seed, tid))
            tid += 1000
    design_level(out, 'C14', tier)
    sch = tlc_schedules('lock', tier, seed)
    jobs_script = []
    for init, prog, order in sch:
        cfg = base_cfg(rng, False, init)
        cfg['busy_budget'] = 1
        # client 1 of the model is the lock holder: an independent raw connection here
        prog = dict(prog)
        prog[1] = [op('lock'), op('unlock')]
        jobs_script.append((cfg, prog, order, seed, 0))
    out.notes['tlc_generated_schedules_replayed'] = len(jobs_script)
    traces, verdicts = explore(out, jobs_dfs, [], scripted=jobs_script)
    report(out, 'C14', traces, verdicts, known_findings('C14'))
    timeouts = sum(1 for t in traces for e in t['ev'] if e['ev'] == 'ret' and isinstance(e.get('ret'), dict) and e['ret']['k'] == 'Timeout')
    busy = sum(1 for t in traces for e in t['ev'] if e['ev'] == 'begin' and e['ok'] == 0)
    out.notes.update({'operations_under_test': len(combos), 'calls_ending_in_Timeout': timeouts,
                      'failed_lock_attempts_observed': busy})
    out.assumptions += ['the lock is held by an independent raw SQLite connection driven by the scheduler: before the call, '
                        'between the value-file write and BEGIN, and released after 0/1/3 failed attempts',
                        'DjangoCache timeout reporting is exercised in the C19 check (same FanoutCache code path)']
    return out.finish()


# ---------------------------------------------------- C10 (concurrent half)
def c10_concurrent(out, tier, seed):
    """producers and consumers on shared queues: exactly-once delivery = linearizability against the queue operators"""
    # design level: QueueConc.tla, every interleaving of the statements of pushes and pulls (and kills of consumers)
    for name, what in (('ok', '2 producers x 2 pushes, 2 consumers x 2 pulls'), ('kill', 'the same with consumers killed at any statement'),
                       ('fifo', '2 producers, 1 consumer: deliveries in push-commit order')):
        res = run_tlc('MCQueueConc.tla', 'MCQueueConc_%s.cfg' % name, workers=8, timeout=600)
        if res.error or res.violation:
            raise MachineryError('MCQueueConc_%s: %s %s\n%s' % (name, res.error, res.violation, res.out[-1500:]))
        out.add_tlc('MCQueueConc_%s.cfg' % name, res, what + '; AtMostOnce, NoLoss, KeysIncrease, Fifo')
    rej = []
    for name, inv in (('dev_pull', ('AtMostOnce', 'NoLoss')), ('dev_push', ('NoLoss', 'KeysIncrease', 'AtMostOnce'))):
        res = run_tlc('MCQueueConc.tla', 'MCQueueConc_%s.cfg' % name, workers=1, timeout=300)
        if res.violation not in inv:
            raise MachineryError('MCQueueConc_%s was expected to violate %s, got %s %s' % (name, inv, res.violation, res.error))
        rej.append('%s violates %s' % (name, inv))
    out.notes['design_deviations_rejected'] = rej
    rng = random.Random(seed * 314606869 + 10)
    jobs_dfs, jobs_rand = [], []
    tid = 0
    push = lambda v, p=(), back=1: op('push', v=v, p=list(p), back=back, ttl=[], tag=0)
    pull = lambda p=(), back=0: op('pull', p=list(p), back=back, fx=0, ft=0)
    peek = lambda p=(), back=0: op('peek', p=list(p), back=back, fx=0, ft=0)
    INITS['q2'] = [push(1), push(F1)]
    INITS['qa'] = [push(2, (97,)), push(F2, (97,)), push(3, (97, 45, 53))]
    progs = [{1: [push(11)], 2: [pull()]}, {1: [pull()], 2: [pull()]}, {1: [push(11), push(12)], 2: [pull(), pull()]},
             {1: [push(F3)], 2: [pull()], 3: [pull()]}, {1: [pull()], 2: [peek(), pull()]},
             {1: [push(5, (97,))], 2: [pull((97,))], 3: [pull((97, 45, 53))]}, {1: [pull((), 1)], 2: [pull((), 0)]},
             {1: [push(7, (), 0)], 2: [pull()]}]
    for p in progs:
        for init in ('absent', 'q2', 'qa'):
            if tier == 'quick' and rng.random() < 0.45:
                continue
            cfg = base_cfg(rng, rng.random() < 0.3, init)
            jobs_dfs.append((cfg, p, 2, 60 if tier == 'quick' else 400, seed, tid))
            tid += 1000
    for i in range(80 if tier == 'quick' else 2000):
        ncl = rng.choice([2, 3, 3, 4])
        prog = {}
        for c_ in range(1, ncl + 1):
            prefix = rng.choice([(), (), (97,)])
            if c_ % 2:
                prog[c_] = [push(100 * c_ + j, prefix) for j in range(rng.randint(1, 3))]
            else:
                prog[c_] = [rng.choice([pull(prefix), pull(prefix), peek(prefix), pull(prefix, 1)]) for _ in range(rng.randint(1, 3))]
        cfg = base_cfg(rng, rng.random() < 0.3, rng.choice(['absent', 'q2', 'qa']))
        jobs_rand.append((cfg, prog, rng.choice(['pct', 'random']), seed * 100000 + i, 0))
    # expiring queue items, the clock advancing while a consumer waits for the lock: what is handed out must be live at
    # the instant of the transaction that takes it
    pushx = lambda v, ttl: op('push', v=v, p=[], back=1, ttl=[ttl], tag=0)
    INITS['qx'] = [push(1), pushx(2, 2), push(3)]
    INITS['qx2'] = [pushx(1, 2), pushx(F1, 3), push(3)]
    for prog in ({1: [pull()], 2: [dict(peek(), a=dict(peek()['a'], retry=1))], 3: [op('tick', n=3)]},
                 {1: [pull()], 2: [dict(pull(), a=dict(pull()['a'], retry=1))], 3: [op('tick', n=3)]},
                 {1: [pull(), op('tick', n=2)], 2: [dict(op('peekitem', last=0, fx=0, ft=0), a=dict(last=0, fx=0, ft=0, retry=1))], 3: [op('tick', n=2)]}):
        for init in ('qx', 'qx2'):
            cfg = base_cfg(rng, False, init)
            jobs_dfs.append((cfg, prog, 2, 150 if tier == 'quick' else 800, seed, tid))
            tid += 1000
    # client orders generated by TLC from QueueConc (2 producers x 2 pushes, 2 consumers x 2 pulls), replayed on the real code
    from .. import plans
    pl, _ = plans.tlc_plans('QueueConcPlan.tla', 'QueueConcPlan.cfg', timeout=120, seed=seed)
    rng.shuffle(pl)
    names = {'p1': 1, 'p2': 2, 'c1': 3, 'c2': 4}
    jobs_script = []
    for p_ in pl[:(60 if tier == 'quick' else 2000)]:
        order = [names[x] for x in p_['hist']]
        prog = {1: [push(101), push(102)], 2: [push(201), push(202)], 3: [pull(), pull()], 4: [pull(), pull()]}
        jobs_script.append((base_cfg(rng, False, 'absent'), prog, order, seed, 0))
    out.notes['tlc_generated_queue_schedules_replayed'] = len(jobs_script)
    traces, verdicts = explore(out, jobs_dfs, jobs_rand, scripted=jobs_script)
    report(out, 'C10', traces, verdicts, known_findings('C10'))
    out.notes['concurrent_queue_schedules'] = len(traces)


def run(prop, tier, seed):
    if prop == 'C14':
        return run_c14(tier, seed)
    if prop == 'C08':
        return run_c08(tier, seed)
    if prop == 'C05':
        return run_c05(tier, seed)
    if prop == 'C06':
        return run_c06(tier, seed)
    raise MachineryError('no concurrent check for %s' % prop)
