"""C16: memoizing decorators."""
import random

from .. import memodriver, common
from ..common import Outcome, pmap, validate_all, known_findings
from ..envctl import MachineryError
from ..tlc import run_tlc

KINDS = ['cache', 'fanout', 'index', 'django', 'stampede']


def _pairs(kind, typed, ign, pairs, seed, tid):
    return memodriver.run_pairs(kind, typed, ign, pairs, seed, tid)


def _ttl(kind, expire, seed, tid):
    return memodriver.run_ttl(kind, expire, seed, tid)


def _names(kind, seed, tid):
    return memodriver.run_names(kind, seed, tid)


def _busy(kind, fails, seed, tid):
    return memodriver.run_busy(kind, fails, seed, tid)


def _stamp(seed, tid):
    return memodriver.run_stampede(seed, tid)


def run(prop, tier, seed):
    out = Outcome('C16', tier, seed)
    rng = random.Random(seed * 217645177 + 16)
    q = '_q' if tier == 'quick' else ''
    models = [('_q', 'arity <= 1, 4 values')] if tier == 'quick' else [('_q', 'arity <= 1, 4 values'), ('_m', 'arity <= 2, 4 values'), ('', 'arity <= 3, 3 values')]
    for sfx, what in models:
        res = run_tlc('MCMemo.tla', 'MCMemo_NoDev%s.cfg' % sfx, workers=1, timeout=1800)
        if res.error or res.violation:
            raise MachineryError('intended key function violates NoSharedEntry: %s %s' % (res.error, res.violation))
        out.add_tlc('MCMemo_NoDev%s.cfg' % sfx, res, 'intended (injective) key: NoSharedEntry, SameCallSameKey (keywords in either written order), DistinctFunctionsDistinctNames over all ordered pairs of signatures, %s, keyword subsets of {a,b}, typed x ignore sets' % what)
    res = run_tlc('MCMemo.tla', 'MCMemo_Dev_q.cfg', workers=1, timeout=300)
    if res.violation is None and 'is equal to FALSE' not in res.out:
        raise MachineryError('the released args_to_key (deviation D_none_separator) was expected to violate NoSharedEntry in the model')
    rej = []
    for cfg, inv in (('MCMemo_DevOrder.cfg', 'types of keyword values taken in the order written'), ('MCMemo_DevName.cfg', 'entry name from the short function name')):
        r2 = run_tlc('MCMemo.tla', cfg, workers=1, timeout=300)
        if r2.violation is None and 'is equal to FALSE' not in r2.out:
            raise MachineryError('%s was expected to violate its invariant' % cfg)
        rej.append('%s (%s) rejected by the model' % (cfg, inv))
    out.notes['design_deviations_rejected'] = rej
    out.notes['design_reproduction_of_known_finding'] = 'MCMemo_Dev_q.cfg violates NoSharedEntry (f(1, None, \'a\') vs f(1, a=None) ...)'
    sigs = memodriver.all_sigs(2 if tier == 'quick' else 3)
    jobs = []
    tid = 0
    npairs = 140 if tier == 'quick' else 2500
    for kind in KINDS:
        for typed in (False, True):
            for ign in ([], ['0'], ['a'], ['0', 'a']):
                if tier == 'quick' and rng.random() < 0.55:
                    continue
                pairs = []
                for _ in range(npairs):
                    s1 = rng.choice(sigs)
                    r = rng.random()
                    if r < 0.15:
                        s2 = s1
                    elif r < 0.25:
                        # the same call with the keywords written in the other order
                        s2 = {'pos': list(s1['pos']), 'kw': list(reversed(s1['kw']))}
                    elif r < 0.5:
                        # the confusable shapes: positional tail <-> keyword
                        s2 = rng.choice(sigs)
                        if s1['kw']:
                            flat = [x for n, v in s1['kw'] for x in ('s:' + n, v)]
                            s2 = {'pos': s1['pos'] + ['N'] + flat, 'kw': []}
                            if len(s2['pos']) > 3 or any(x not in memodriver.PYV for x in s2['pos']):
                                s2 = rng.choice(sigs)
                    else:
                        s2 = rng.choice(sigs)
                    pairs.append((s1, s2))
                # the confusable shapes of the released key format, always included
                pairs += [({'pos': ['i:1'], 'kw': [['a', 'i:1'], ['b', 'f:1']]}, {'pos': ['i:1'], 'kw': [['b', 'f:1'], ['a', 'i:1']]}),
                          ({'pos': [], 'kw': [['a', 'N'], ['b', 's:a']]}, {'pos': [], 'kw': [['b', 's:a'], ['a', 'N']]}),
                          ({'pos': [], 'kw': [['a', 'i:1']]}, {'pos': ['N', 's:a', 'i:1'], 'kw': []}),
                          ({'pos': ['i:1'], 'kw': [['a', 'N']]}, {'pos': ['i:1', 'N', 's:a'], 'kw': []}),
                          ({'pos': ['N', 's:a'], 'kw': []}, {'pos': [], 'kw': [['a', 'N']]})]
                tid += 1
                jobs.append((kind, typed, ign, pairs, seed, tid))
    traces = pmap(_pairs, jobs, procs=14)
    tj = []
    for kind in KINDS:
        for expire in (None, 0, 2, 5):
            tid += 1
            tj.append((kind, expire, seed, tid))
    traces += [t for t in pmap(_ttl, tj, procs=10) if t is not None]
    nj = []
    for kind in KINDS:
        for variant in (0, 1):          # fresh decorator object per function / one decorator object for both
            tid += 1
            nj.append((kind, 2 * seed + variant, tid))
    traces += pmap(_names, nj, procs=5)
    bj = []
    for kind in KINDS:
        for fails in (1, 3):            # the lock held by another client until the n-th failed attempt of the lookup
            tid += 1
            bj.append((kind, fails, seed, tid))
    traces += pmap(_busy, bj, procs=10)
    tid += 1
    traces += pmap(_stamp, [(seed, tid)], procs=1)
    out.traces = len(traces)
    out.events = sum(len(t['ev']) for t in traces)
    common.TRACE_FIELDS = ('id', 'ev')
    verdicts, st, tr = validate_all('MemoTrace.tla', 'MemoTrace.cfg', traces, batch_events=4000)
    out.states += st
    out.transitions += tr
    findings = {f['deviation']: f for f in known_findings('C16') if 'deviation' in f}
    byid = {t['id']: t for t in traces}
    # a trace stops at its first KNOWN pair: re-validate the rest of such traces without that pair
    pending = []
    for tid_, v in sorted(verdicts.items()):
        t = byid[tid_]
        if v['ok'] and v.get('known'):
            if 'D_none_separator' in findings:
                e = t['ev'][v['n'] - 1]
                out.known(findings['D_none_separator'], '(%s.memoize: f%s%s vs f%s%s)' % (t['kind'], e['s1']['pos'], e['s1']['kw'], e['s2']['pos'], e['s2']['kw']))
            else:
                out.violation('unlisted deviation', {'event': t['ev'][v['n'] - 1]})
            rest = t['ev'][v['n']:]
            if rest:
                pending.append({'id': tid_, 'kind': t['kind'], 'ev': rest})
        elif not v['ok']:
            e = t['ev'][v['at'] - 1]
            out.violation('%s: %s | %s' % (t['kind'], v['why'], str(e)[:400]), {'kind': t['kind'], 'event': e})
    rounds = 0
    while pending and rounds < 40:
        rounds += 1
        verdicts, st, tr = validate_all('MemoTrace.tla', 'MemoTrace.cfg', pending, batch_events=4000)
        nxt = []
        for p in pending:
            v = verdicts[p['id']]
            if v['ok'] and v.get('known'):
                rest = p['ev'][v['n']:]
                if rest:
                    nxt.append({'id': p['id'], 'kind': p['kind'], 'ev': rest})
            elif not v['ok']:
                e = p['ev'][v['at'] - 1]
                out.violation('%s: %s | %s' % (p['kind'], v['why'], str(e)[:400]), {'kind': p['kind'], 'event': e})
        pending = nxt
    out.samples.append(traces[0]['ev'][:3])
    out.notes.update({'signature_pairs_exercised': sum(len(t['ev']) for t in traces if t['ev'] and t['ev'][0]['ev'] == 'pair'),
                      'decorators': KINDS})
    return out.finish()
