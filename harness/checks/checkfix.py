"""C17: check() reports, check(fix=True) repairs."""
import itertools
import random

from .. import checkdriver, common
from ..common import Outcome, pmap, validate_all, known_findings


def _run(kind, damages, seed, tid):
    return checkdriver.run_damage(kind, damages, seed, tid)


def design_level(out, tier):
    """CheckModel.tla: over EVERY small directory state the repair defined in CheckOps converges, is idempotent and keeps
    undamaged items; one-pass pruning of emptied directories must fail."""
    from ..tlc import run_tlc
    from ..envctl import MachineryError
    for cfg, what in ([('CheckModel_q.cfg', '<= 2 rows, 2 file ids')] if tier == 'quick' else [('CheckModel_q.cfg', '<= 2 rows, 2 file ids'), ('CheckModel.cfg', '<= 2 rows, 3 file ids')]):
        res = run_tlc('CheckModel.tla', cfg, workers=8, timeout=1500)
        if res.error or res.violation:
            raise MachineryError('%s: %s %s\n%s' % (cfg, res.error, res.violation, res.out[-1500:]))
        out.add_tlc(cfg, res, 'every directory state with %s, sizes {1,2}, files at the top level or in two nested directories, stray empty directories, counters off: '
                              'FixConverges, FixIdempotent, FixPreservesUndamaged, OnlyDamageReported' % what)
    res = run_tlc('CheckModel.tla', 'CheckModel_dev.cfg', workers=2, timeout=300)
    if res.violation != 'OnePassConverges':
        raise MachineryError('CheckModel_dev was expected to violate OnePassConverges, got %s %s' % (res.violation, res.error))
    out.notes['design_deviations_rejected'] = ['one-pass pruning of emptied directories (the repaired defect F17-empty-parent) violates OnePassConverges']


def run(prop, tier, seed):
    out = Outcome('C17', tier, seed)
    design_level(out, tier)
    rng = random.Random(seed * 236887699 + 17)
    D = checkdriver.DAMAGES
    combos = [[]] + [[d] for d in D] + [list(c) for c in itertools.combinations(D, 2)]
    if tier == 'thorough':
        triples = [list(c) for c in itertools.combinations(D, 3)]
        rng.shuffle(triples)
        combos += triples[:400]
    else:
        pairs = combos[1 + len(D):]
        rng.shuffle(pairs)
        combos = combos[:1 + len(D)] + pairs[:45]
    jobs = []
    tid = 0
    for c in combos:
        # contradictory counter damages cancel out: keep one per counter
        if 'count+1' in c and 'count-1' in c or 'size+5' in c and 'size-3' in c:
            continue
        for kind in (('cache', 'fanout') if tier == 'thorough' or rng.random() < 0.35 else ('cache',)):
            tid += 1
            jobs.append((kind, c, seed + tid, tid))
    # more than 100 file-backed items (check walks them in pages): single damages and a few pairs
    big = [[d] for d in ('delete-file', 'truncate-file', 'extend-file', 'add-file-existing-dir', 'count+1')] + [['delete-file', 'delete-file'], ['delete-file', 'size-3', 'truncate-zero']]
    for c in (big if tier == 'thorough' else big[:2] + big[-2:]):
        for kind in ('cache-large', 'fanout-large'):
            tid += 1
            jobs.append((kind, c, seed + tid, tid))
    # a shard that never received a key (item counter 0, negative after damage) and a used shard whose counter was zeroed
    E = checkdriver.EMPTY_DAMAGES
    ecombos = [[d] for d in E] + [['add-file-top', 'count-1'], ['size-3', 'count-1'], ['add-empty-leaf', 'size+5']]
    for c in ecombos:
        tid += 1
        jobs.append(('fanout-empty', c, seed + tid, tid))
    for c in (['count=0'], ['size=0'], ['count=0', 'delete-file'], ['count=0', 'add-file-top']):
        for kind in ('cache', 'fanout'):
            tid += 1
            jobs.append((kind, c, seed + tid, tid))
    for c in ([], ['delete-file'], ['add-file-top', 'truncate-file'], ['count+1']):
        tid += 1
        jobs.append(('cache-symlink', c, seed + tid, tid))
    traces = pmap(_run, jobs, procs=14)
    out.traces = len(traces)
    out.events = len(traces)
    common.TRACE_FIELDS = ('id', 'obs0', 'obs1', 'obs2', 'warn1', 'warn2', 'warn3', 'busy', 'raised0', 'warn0')
    verdicts, st, tr = validate_all('CheckTrace.tla', 'CheckTrace.cfg', traces, batch_events=300)
    out.states += st
    out.transitions += tr
    byid = {t['id']: t for t in traces}
    findings = {f['deviation']: f for f in known_findings('C17') if 'deviation' in f}
    for tid_, v in sorted(verdicts.items()):
        if v['ok'] and v.get('known'):
            for dname in v['known']:
                if dname in findings:
                    out.known(findings[dname], '(damage %s)' % byid[tid_]['damages'])
                else:
                    out.violation('unlisted deviation ' + dname, {'trace': byid[tid_]})
        if not v['ok']:
            t = byid[tid_]
            out.violation('%s damaged by %s: %s' % (t['kind'], t['damages'], v['why'][:700]), {'trace': t, 'verdict': v})
    out.samples.append({'kind': traces[1]['kind'], 'damages': traces[1]['damages'], 'warn1': traces[1]['warn1'], 'warn2': traces[1]['warn2']})
    out.level = 'fault_enumeration'
    return out.finish({'evaluations': len(traces), 'distinct_nontrivial': len({str(t['damages']) for t in traces if t['damages']}),
                       'rule': 'all single damages and (a sample of / all) pairs, plus sampled triples, out of %d damage kinds (value file deleted / truncated / emptied / extended, '
                               'stray files at every directory level, empty directories at every level, counters off, half-written debris) applied with plain OS calls and SQL to a Cache and to one '
                               'shard of a FanoutCache; check(), check(fix=True), check() judged by TLC against CheckTrace.tla; distinct = distinct damage combinations' % len(D),
                       'exhaustive': False})
