"""C11 drivers: a real diskcache.Deque (or collections.deque as the
cross-check of the specification) through abstract operation sequences."""
import collections
import os
import pickle
import random

from . import envctl, interpose
from .adapters import ValMap, R
from .envctl import MachineryError

NOMAX = -1


def mx(m):
    return None if m == NOMAX else m


class DequeApi:
    """abstract op -> call on a deque-like object -> normalised result"""

    def __init__(self, vm):
        self.vm = vm

    def call(self, d, name, a):
        vm = self.vm
        try:
            if name == 'append':
                d.append(vm.to_py(a['v'])); return R('none')
            if name == 'appendleft':
                d.appendleft(vm.to_py(a['v'])); return R('none')
            if name == 'extend':
                if a.get('iadd'):
                    d += [vm.to_py(v) for v in a['vs']]          # += is its own method of Deque
                else:
                    d.extend([vm.to_py(v) for v in a['vs']])
                return R('none')
            if name == 'extendleft':
                d.extendleft([vm.to_py(v) for v in a['vs']]); return R('none')
            if name == 'pop':
                return R('val', [vm.to_model(d.pop())])
            if name == 'popleft':
                return R('val', [vm.to_model(d.popleft())])
            if name == 'peek':
                return R('val', [vm.to_model(d.peek() if hasattr(d, 'peek') else d[-1])])
            if name == 'peekleft':
                return R('val', [vm.to_model(d.peekleft() if hasattr(d, 'peekleft') else d[0])])
            if name == 'getitem':
                return R('val', [vm.to_model(d[a['i']])])
            if name == 'setitem':
                d[a['i']] = vm.to_py(a['v']); return R('none')
            if name == 'delitem':
                del d[a['i']]; return R('none')
            if name == 'rotate':
                d.rotate(a['n']); return R('none')
            if name == 'reverse':
                d.reverse(); return R('none')
            if name == 'remove':
                d.remove(vm.to_py(a['v'])); return R('none')
            if name == 'count':
                return R('int', [d.count(vm.to_py(a['v']))])
            if name == 'clear':
                d.clear(); return R('none')
            if name == 'setmaxlen' and hasattr(d, 'cache'):
                d.maxlen = mx(a['m']); return R('none')
            if name == 'len':
                return R('int', [len(d)])
            if name == 'iter':
                it = reversed(d) if a['rev'] else iter(d)
                return R('vals', [vm.to_model(x) for x in it])
            if name == 'compare':
                other = [vm.to_py(v) for v in a['other']]
                import operator
                f = getattr(operator, a['rel'])
                if isinstance(d, collections.deque):
                    r = f(list(d), other)
                else:
                    r = f(d, other)
                return R('true' if r is True else 'false' if r is False else 'weird')
        except (IndexError, ValueError, KeyError, TypeError) as exc:
            return R(type(exc).__name__)
        except MachineryError:
            raise
        except Exception as exc:        # any other failure of the library is a result the specification judges
            return R(type(exc).__name__)
        raise MachineryError('unknown deque op %r' % name)


def items_of(d, vm):
    return [vm.to_model(x) for x in d]


def run_seq(ops, maxlen, impl='diskcache', via='Deque', seed=0, tid=1):
    """One client; lifecycle ops (reopen/copy/pickle/setmaxlen) handled here."""
    import diskcache
    vm = ValMap()
    api = DequeApi(vm)
    envctl.SeededUrandom(seed).install()
    root = envctl.scratch('dq')
    extra = []
    try:
        if impl == 'stdlib':
            d = collections.deque(maxlen=mx(maxlen))
        elif via == 'fanout':
            fan = diskcache.FanoutCache(os.path.join(root, 'f'), shards=2)
            d = fan.deque('jobs', maxlen=mx(maxlen))
            extra.append(fan)
        elif via == 'django':
            from diskcache.djangocache import DjangoCache
            dj = DjangoCache(os.path.join(root, 'dj'), {'SHARDS': 2})
            d = dj.deque('jobs', maxlen=mx(maxlen))
            extra.append(dj)
        else:
            d = diskcache.Deque(directory=os.path.join(root, 'd'), maxlen=mx(maxlen))
        if impl != 'stdlib':
            # a Deque never loses items to eviction, whatever the size limit of its cache
            d.cache.reset('size_limit', 150 * 1024)
        ev = []
        cur = maxlen
        blocks = []                    # open transact() blocks (diskcache) / saved copies (stdlib)
        for op in ops:
            name, a = op['op'], dict(op.get('a', {}))
            if name in ('txbegin', 'txend', 'txraise'):
                ret = R('none')
                try:
                    if name == 'txbegin':
                        if impl == 'stdlib':
                            blocks.append(collections.deque(d, maxlen=d.maxlen))
                        else:
                            cm = d.transact()
                            cm.__enter__()
                            blocks.append(cm)
                    elif blocks and name == 'txend':
                        b = blocks.pop()
                        if impl != 'stdlib':
                            b.__exit__(None, None, None)
                    elif blocks:
                        # an exception raised inside a block passes through every enclosing block
                        exc = RuntimeError('abort') if len(ev) % 2 else KeyboardInterrupt()
                        while blocks:
                            b = blocks.pop()
                            if impl == 'stdlib':
                                d = b
                            else:
                                try:
                                    if b.__exit__(type(exc), exc, None):
                                        ret = R('swallowed')
                                except (RuntimeError, KeyboardInterrupt):
                                    pass
                except Exception as exc:       # the library failed at block entry / exit: a result the specification judges
                    ret = R(type(exc).__name__)
                ev.append({'op': name, 'a': a, 'ret': ret, 'items': items_of(d, vm)})
                continue
            if name == 'reopen_same':
                name, a = 'reopen', {'m': cur}
            if name == 'setmaxlen':
                cur = a['m']
            if name in ('reopen', 'copy', 'pickle', 'setmaxlen'):
                if impl == 'stdlib':
                    if name == 'setmaxlen' or name == 'reopen':
                        m = a['m']
                        items = list(d)
                        if name == 'setmaxlen' and m != NOMAX and len(items) > m:
                            items = items[len(items) - m:]
                        d = collections.deque(items, maxlen=None)
                        # collections.deque cannot hold more than maxlen: emulate a handle with a new maxlen
                        nd = collections.deque(maxlen=mx(m)) if m == NOMAX or len(items) <= m else None
                        if nd is None:
                            raise MachineryError('plan reopens with maxlen below the length')
                        nd.extend(items)
                        d = nd
                    elif name == 'copy':
                        d = d.copy()
                    else:
                        d = pickle.loads(pickle.dumps(d))
                else:
                    if name == 'setmaxlen':
                        d.maxlen = float('inf') if a['m'] == NOMAX else a['m']
                    elif name == 'reopen':
                        directory = d.directory
                        d.cache.close()
                        d = diskcache.Deque(directory=directory, maxlen=mx(a['m']))
                    elif name == 'copy':
                        d = d.copy()
                    else:
                        d = pickle.loads(pickle.dumps(d))
                ret = R('none')
            else:
                ret = api.call(d, name, a)
            ev.append({'op': name, 'a': a, 'ret': ret, 'items': items_of(d, vm)})
        return {'id': tid, 'kind': 'seq', 'nc': 1, 'init': {'items': [], 'maxlen': maxlen}, 'impl': impl, 'via': via, 'ev': ev}
    finally:
        for x in extra:
            try:
                x.close()
            except Exception:
                pass
        envctl.SeededUrandom.uninstall()
        envctl.rm(root)


VALS = [1, 2, 3, 1, 2, 100001, 101000, 200000 + 40 * 100 + 1, 200000 + 36 * 100 + 2]


def block_ops(rng, n, maxlen):
    """histories with transact() blocks (inline values only: file-backed values inside blocks meet the known finding F06)"""
    ops, depth = [], 0
    for o in random_ops(rng, n, maxlen, lifecycle=False, ints=True):
        r = rng.random()
        if depth == 0 and r < 0.25:
            ops.append({'op': 'txbegin', 'a': {}})
            depth = 1
        elif depth == 1 and r < 0.1:
            ops.append({'op': 'txbegin', 'a': {}})
            depth = 2
        elif depth > 0 and r < 0.4:
            e = rng.choice(['txend', 'txraise'])
            ops.append({'op': e, 'a': {}})
            depth = depth - 1 if e == 'txend' else 0
        ops.append(o)
    while depth:
        e = rng.choice(['txend', 'txraise'])
        ops.append({'op': e, 'a': {}})
        depth = depth - 1 if e == 'txend' else 0
    return ops


def random_ops(rng, n, maxlen, lifecycle=True, ints=None):
    ops = []
    ints = rng.random() < 0.4 if ints is None else ints
    VALS_ = [1, 2, 3] if ints else VALS
    for _ in range(n):
        r = rng.random()
        v = rng.choice(VALS_)
        if r < 0.2:
            o = {'op': rng.choice(['append', 'appendleft']), 'a': {'v': v}}
        elif r < 0.27:
            o = {'op': rng.choice(['extend', 'extendleft']), 'a': {'vs': [rng.choice(VALS_) for _ in range(rng.randint(0, 3))]}}
            if o['op'] == 'extend':
                o['a']['iadd'] = rng.randrange(2)
        elif r < 0.40:
            o = {'op': rng.choice(['pop', 'popleft', 'peek', 'peekleft']), 'a': {}}
        elif r < 0.52:
            o = {'op': 'getitem', 'a': {'i': rng.randint(-6, 6)}}
        elif r < 0.60:
            o = {'op': 'setitem', 'a': {'i': rng.randint(-6, 6), 'v': v}}
        elif r < 0.66:
            o = {'op': 'delitem', 'a': {'i': rng.randint(-6, 6)}}
        elif r < 0.73:
            o = {'op': 'rotate', 'a': {'n': rng.randint(-4, 4)}}
        elif r < 0.77:
            o = {'op': 'reverse', 'a': {}}
        elif r < 0.82:
            o = {'op': rng.choice(['remove', 'count']), 'a': {'v': v}}
        elif r < 0.84:
            o = {'op': 'clear', 'a': {}}
        elif r < 0.90:
            o = {'op': rng.choice(['len', 'iter']), 'a': {'rev': rng.randrange(2)}}
        elif r < 0.95:
            other = [rng.choice([1, 2, 3]) for _ in range(rng.randint(0, 3))]
            o = {'op': 'compare', 'a': {'rel': rng.choice(['eq', 'ne', 'lt', 'le', 'gt', 'ge'] if ints else ['eq', 'ne']), 'other': other}}
        elif lifecycle:
            o = {'op': rng.choice(['copy', 'pickle', 'reopen_same', 'setmaxlen']), 'a': {}}
            if o['op'] == 'setmaxlen':
                o['a'] = {'m': rng.choice([NOMAX, 1, 2, 4])}
        else:
            o = {'op': 'len', 'a': {}}
        ops.append(o)
    return ops
