"""C13 driver: a real FanoutCache through abstract histories; every event
carries the projection of every shard."""
import os

from . import envctl, interpose
from .adapters import KeyMap, ValMap, R, tag_model, exp_model
from .envctl import MachineryError
from .seqdriver import ApiAdapter, POLICY


class ShardPages(interpose.Listener):
    def __init__(self, root):
        self.root = root
        self.pages = []
        self.page_size = 4096

    # another client holding the write lock of one shard for a moment: released after a number of failed attempts
    holder = None
    holder_shard = -1
    holder_fails = 0
    arm_after = 0          # take the lock after that many COMMITs on the shard (between two pages of a bulk removal)
    arm_fails = 0
    arm_times = 0

    def hold(self, shard, fails):
        self.holder = interpose.real_connect(os.path.join(self.root, '%03d' % shard, 'cache.db'), timeout=0, isolation_level=None)
        self.holder.execute('BEGIN IMMEDIATE')
        self.holder_shard, self.holder_fails = shard, fails

    def release(self):
        if self.holder is not None:
            self.holder.execute('ROLLBACK')
            self.holder.close()
            self.holder = None

    def arm(self, shard, fails, after, times):
        self.holder_shard, self.arm_fails, self.arm_after, self.arm_times, self.commits = shard, fails, after, times, 0

    def sql_after(self, conn, sql, params, rows, error):
        if self.arm_times > 0 and self.holder is None and error is None and sql.lstrip().upper().startswith('COMMIT'):
            path = getattr(conn, '_verif_path', '') or ''
            if os.path.basename(os.path.dirname(path)) == '%03d' % self.holder_shard:
                self.commits += 1
                if self.commits >= self.arm_after:
                    self.commits = 0
                    self.arm_times -= 1
                    self.hold(self.holder_shard, self.arm_fails)
        if error is not None and self.holder is not None and sql.lstrip().upper().startswith('BEGIN'):
            path = getattr(conn, '_verif_path', '') or ''
            if os.path.basename(os.path.dirname(path)) == '%03d' % self.holder_shard:
                self.holder_fails -= 1
                if self.holder_fails <= 0:
                    self.release()
        if rows and sql.strip().upper().startswith('PRAGMA PAGE_COUNT'):
            path = getattr(conn, '_verif_path', '') or ''
            shard = os.path.basename(os.path.dirname(path))
            if shard.isdigit():
                self.pages.append([int(shard), rows[0][0] * self.page_size])


class FanoutRunner:
    def __init__(self, cfg, seed=0):
        import diskcache
        self.dc = diskcache
        self.cfg = cfg
        self.n = cfg['shards']
        self.clock = envctl.Clock().install()
        envctl.SeededUrandom(seed).install()
        self.dir = envctl.scratch('fan')
        self.listener = ShardPages(self.dir)
        interpose.install(self.listener, self.dir)
        kw = dict(eviction_policy=POLICY[cfg['policy']], cull_limit=cfg['cull'], size_limit=cfg['limit'], statistics=cfg['stats'],
                  disk_min_file_size=cfg.get('min_file_size', 2 ** 15))
        if cfg.get('premade'):
            # the shard directories are there already (made by a deployment, left by an interrupted start), empty; and the
            # default total limit is not spelled out
            for i in range(self.n):
                os.makedirs(os.path.join(self.dir, '%03d' % i))
            if cfg['limit'] == 2 ** 30:
                del kw['size_limit']
        self.cache = diskcache.FanoutCache(self.dir, shards=self.n, timeout=0.01, **kw)
        self.km = KeyMap()
        self.vm = ValMap(cfg.get('min_file_size', 2 ** 15))
        self.api = ApiAdapter(diskcache, self.km, self.vm, self.clock)
        self.obs = [interpose.real_connect(os.path.join(self.dir, '%03d' % i, 'cache.db'), timeout=5, isolation_level=None)
                    for i in range(self.n)]
        self.disks = [diskcache.Disk(os.path.join(self.dir, '%03d' % i)) for i in range(self.n)]
        self.events = []
        self.route = {}
        self.route_conflict = None

    def close(self):
        try:
            for o in self.obs:
                o.close()
            self.cache.close()
        finally:
            interpose.set_listener(None)
            self.clock.uninstall()
            envctl.SeededUrandom.uninstall()
            envctl.rm(self.dir)

    def project(self):
        allrows, ctrs, pbe = [], [], []
        sel = 'SELECT key, raw, expire_time, tag, size, mode, filename, value FROM Cache ORDER BY rowid'
        for i, con in enumerate(self.obs):
            rows = []
            disk = self.disks[i]
            for key, raw, exp, tag, size, mode, filename, value in con.execute(sel).fetchall():
                try:
                    mk = self.km.to_model(disk.get(key, raw))
                except Exception:
                    mk = [9, 1]
                try:
                    mv = self.vm.to_model(disk.fetch(mode, filename, value, False))
                except (IOError, OSError):
                    mv = -2
                except Exception:
                    mv = -1
                rows.append([mk, mv, exp_model(exp), tag_model(tag), size])
                tk = tuple(mk)
                if tk in self.route and self.route[tk] != i and self.route_conflict is None:
                    self.route_conflict = (mk, self.route[tk], i)
                self.route.setdefault(tk, i)
            st = dict(con.execute('SELECT key, value FROM Settings').fetchall())
            ((pc,),) = con.execute('PRAGMA page_count').fetchall()
            allrows.append(rows)
            ctrs.append([st['count'], st['size'], st['hits'], st['misses']])
            pbe.append(pc * 4096)
        return allrows, ctrs, pbe

    def step(self, op):
        name, a, form = op['op'], dict(op.get('a', {})), op.get('form', 0)
        self.listener.pages = []
        now = self.clock.tick
        busy = a.pop('busy', None)
        if busy and len(busy) > 2:
            self.listener.arm(busy[0] % self.n, busy[1], busy[2], busy[3])
        elif busy:
            self.listener.hold(busy[0] % self.n, busy[1])
        try:
            if name == 'limits':
                ret = R('ints', [int(round(sh.size_limit * self.n / 1024.0)) for sh in self.cache._shards])
            elif name in ('pickle', 'reopen', 'copy'):
                # the same directory through another handle: it must address the same shards
                import pickle as _p, copy as _c
                try:
                    if name == 'pickle':
                        new = _p.loads(_p.dumps(self.cache))
                    elif name == 'copy':
                        new = _c.copy(self.cache)
                    else:
                        if form == 1:
                            with self.cache as entered:          # the context manager form of close()
                                if entered is not self.cache:
                                    raise TypeError('__enter__ returned another object')
                        else:
                            self.cache.close()
                        new = self.dc.FanoutCache(self.dir, shards=self.n, timeout=0.01)
                    self.cache = new
                    ret = R('none')
                except Exception as exc:
                    ret = R(type(exc).__name__)
            else:
                ret = self.api.call(self.cache, name, a, form)
        finally:
            self.listener.arm_times = 0
            self.listener.release()
        rows, ctr, pbe = self.project()
        self.events.append({'op': name, 'a': a, 'now': now, 'pb': list(self.listener.pages), 'pbe': pbe,
                            'ret': ret, 'rows': rows, 'ctr': ctr})


def probe_routes(cfg, ops):
    """Which shard receives each key of the history: observed on a scratch FanoutCache with the
    same shard count (routing is claimed to be a function of the key alone)."""
    import diskcache
    import sqlite3
    km = KeyMap()
    d = envctl.scratch('probe')
    try:
        f = diskcache.FanoutCache(d, shards=cfg['shards'])
        keys = {}
        for op in ops:
            k = op.get('a', {}).get('k')
            if k is not None and tuple(k) not in keys:
                keys[tuple(k)] = len(keys)
        # (in the reverse of the order in which the history meets them: a routing that remembers earlier keys - keys
        #  that are equal in Python, like 1 and True, but two keys for the cache - shows as a conflict)
        for k, v in reversed(list(keys.items())):
            f.set(km.to_py(list(k)), v)
        byval = {v: k for k, v in keys.items()}
        route = {}
        for sh in range(cfg['shards']):
            con = sqlite3.connect(os.path.join(d, '%03d' % sh, 'cache.db'))
            for (v,) in con.execute('SELECT value FROM Cache').fetchall():
                route[byval[v]] = sh
            con.close()
        f.close()
        return route
    finally:
        envctl.rm(d)


def run_history(cfg, ops, seed=0, tid=1):
    routes = probe_routes(cfg, ops)
    r = FanoutRunner(cfg, seed)
    r.route.update(routes)
    try:
        for op in ops:
            r.step(op)
        return {'id': tid, 'init': {'policy': cfg['policy'], 'cull': cfg['cull'], 'limit': cfg['limit'],
                                    'stats': 1 if cfg['stats'] else 0, 'n': cfg['shards']},
                'cfg': cfg, 'route': [[list(k), v] for k, v in r.route.items()],
                'route_conflict': r.route_conflict, 'ev': r.events}
    finally:
        r.close()
