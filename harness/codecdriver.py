"""C01 driver: concrete witnesses of every abstract value case, stored and read back
through every accessor under every configuration."""
import io
import math
import os
import pickle
import random

from . import envctl
from .envctl import MachineryError

THR = {'t0': 0, 't1': 1, 'tsmall': 100, 't32k': 2 ** 15}
ACCESSORS = ['get', 'getitem', 'pop', 'read', 'pull', 'peek', 'peekitem', 'deque-getitem', 'deque-pop', 'index-getitem', 'index-pop',
             'get-unpickled', 'pull-unpickled']
INCR_ACC = ['incr-within', 'incr-across', 'decr-across']      # for kind int64 only
FEATCH = {'CR': '\r', 'LF': '\n', 'CRLF': '\r\n', 'NUL': '\x00', 'U85': '\x85', 'U2028': ' ', 'astral': '\U0001f600',
          'surrogate': '\ud800', 'BOM': '\ufeff'}


class Celsius(float):
    """a float subclass: must come back as the same type"""


class Drip:
    """a readable binary stream that returns short reads (like a pipe or socket)"""

    def __init__(self, data, step):
        self.data = data
        self.pos = 0
        self.step = step

    def read(self, size=-1):
        n = self.step if size is None or size < 0 else min(size, self.step)
        chunk = self.data[self.pos:self.pos + n]
        self.pos += len(chunk)
        return chunk


def length_for(lenclass, thr, rng):
    t = THR[thr]
    if lenclass == 'zero':
        return 0
    if lenclass == 'below':
        return max(0, t - 1) if t > 1 else 0
    if lenclass == 'at':
        return max(t, 1)
    if lenclass == 'above':
        return t + 1 + rng.randrange(3)
    return max(3 * t, t + 5000) + rng.randrange(100)


def same(a, b):
    """structural equality with NaN == NaN, signed zero and types distinguished"""
    if type(a) is not type(b):
        return False
    if isinstance(a, float):
        if math.isnan(a) or math.isnan(b):
            return math.isnan(a) and math.isnan(b)
        return a == b and math.copysign(1, a) == math.copysign(1, b)
    if isinstance(a, (list, tuple)):
        return len(a) == len(b) and all(same(x, y) for x, y in zip(a, b))
    if isinstance(a, dict):
        return list(a.keys()) == list(b.keys()) and all(same(a[k], b[k]) for k in a)
    return a == b


def witness(kind, lenclass, feat, thr, rng, disk):
    n = length_for(lenclass, thr, rng)
    if kind == 'int64':
        return rng.choice([0, 1, -1, 2 ** 63 - 1, -2 ** 63, rng.randrange(-10 ** 9, 10 ** 9)])
    if kind == 'bigint':
        return rng.choice([2 ** 63, -2 ** 63 - 1, 2 ** 100 + rng.randrange(1000), -3 ** 70])
    if kind == 'float':
        return rng.choice([1.5, -2.25, 1e300, 5e-324, 0.0, float(rng.randrange(10 ** 6)) / 7] + ([Celsius(21.5)] if disk == 'Disk' else []))
    if kind == 'negzero':
        return -0.0
    if kind == 'inf':
        return rng.choice([float('inf'), float('-inf')])
    if kind == 'nan':
        return float('nan')
    if kind == 'none':
        return None
    if kind == 'bool':
        return rng.choice([True, False])
    if kind == 'str':
        chars = [FEATCH[f] for f in feat]
        body = [rng.choice('abcxyz é中') for _ in range(n)]
        if disk == 'JSONDisk':
            pass
        for ch in chars:
            if n == 0:
                return None            # cannot carry a feature in an empty text: no witness
            pos = 0 if ch == '\ufeff' else rng.randrange(1 if n == 1 else 1, n) if '\ufeff' in chars and n > 1 else rng.randrange(n)
            body[pos] = ch             # (a byte-order mark matters at the very start of the text)
        s = ''.join(body)
        # a two-character feature (CRLF) lengthens the text: trim back to the wanted character count when it matters
        if len(s) > n and lenclass in ('below', 'at'):
            s = s[:n] if not s[:n].endswith('\r') else s[:n - 1] + 'a'
            if any(FEATCH[f] not in s for f in feat):
                return None
        if any(FEATCH[f] not in s for f in feat) or ('BOM' in feat and not s.startswith('\ufeff')):
            return None                # the features overwrote each other in a very short text: no witness
        return s
    if kind == 'bytes':
        return bytes(rng.randrange(256) for _ in range(min(n, 300))) + b'\r\n\x00' * 0 + bytes([n % 251]) * max(0, n - 300)
    if kind == 'container':
        inner = [1, 2.5, 'x', None, True, (1, 2), {'a': [1, 2]}, float('nan'), -0.0, 2 ** 70, b'b']
        if disk == 'JSONDisk':
            inner = [1, 2.5, 'x', None, True, [1, 2], {'a': [1, 2]}, -0.0, 2 ** 70]
        base = [rng.choice(inner) for _ in range(rng.randint(1, 4))]
        return base + ['p'] * max(0, n // 4)
    if kind == 'badkeymap':
        bad = rng.choice([(1, 2), b'k', (('a',), 3)])
        return rng.choice([{bad: 'x', 'a': 1}, {'a': {bad: 1, 'c': [2]}, 'b': 2}, [1, {'z': {bad: None}}]])
    if kind == 'stream':
        return ('stream', bytes([7 + n % 200]) * n if n < 10 ** 6 else os.urandom(16) * (n // 16))
    raise MachineryError(kind)


def run_config(thr, disk, protocol, cases, seed=0, tid=1):
    """cases: list of (kind, lenclass, feat(list), accessor)"""
    import diskcache
    rng = random.Random(seed)
    root = envctl.scratch('codec')
    ev = []
    try:
        dcls = diskcache.Disk if disk == 'Disk' else diskcache.JSONDisk
        settings = dict(disk=dcls, disk_min_file_size=THR[thr], disk_pickle_protocol=protocol, eviction_policy='none')
        cache = diskcache.Cache(os.path.join(root, 'c'), **settings)
        dq = diskcache.Deque.fromcache(diskcache.Cache(os.path.join(root, 'd'), **settings))
        ix = diskcache.Index.fromcache(diskcache.Cache(os.path.join(root, 'i'), **settings))
        for kind, lenclass, feat, acc in cases:
            v = witness(kind, lenclass, feat, thr, rng, disk)
            if v is None and kind != 'none':
                continue
            stream = kind == 'stream'
            value = v[1] if stream else v
            detail, outcome = '', None
            # domain of the accessors: a read handle is for binary values (bytes, streams); under JSONDisk a stream
            # (stored undecoded with read=True) can only be read back as a handle
            if acc == 'read' and kind not in ('stream', 'bytes'):
                continue
            if disk == 'JSONDisk' and stream and acc != 'read':
                continue
            if disk == 'JSONDisk' and kind == 'bytes':
                if acc == 'read':
                    continue
            if acc in INCR_ACC:
                if kind != 'int64':
                    continue
                # integers at the edges of the signed 64-bit range (and ordinary ones for incr-within)
                r_ = rng.randrange(6)
                if acc == 'incr-within':
                    base = rng.choice([value if abs(value) < 2 ** 62 else 12345, 2 ** 63 - 1 - r_ - 5, -2 ** 63 + r_, 2 ** 31 - 1, 2 ** 53])
                    delta = rng.choice([1, r_ + 1, -1, -r_]) if abs(base) < 2 ** 62 else (rng.randrange(1, 5) if base > 0 else -rng.randrange(0, r_ + 1))
                elif acc == 'incr-across':
                    base, delta = 2 ** 63 - 1 - r_, r_ + rng.choice([1, 2, 1000, 2 ** 40])
                else:
                    base, delta = -2 ** 63 + r_, r_ + rng.choice([1, 2, 1000, 2 ** 40])
                exact = base - delta if acc == 'decr-across' else base + delta
                try:
                    cache.clear()
                    cache['k'] = base
                    raised = ''
                    try:
                        ret = cache.decr('k', delta) if acc == 'decr-across' else cache.incr('k', delta)
                    except Exception as exc:
                        raised = type(exc).__name__
                    got = cache.get('k', default='<missing>')
                    if raised:
                        outcome = 'rejected' if same(got, base) else 'altered'
                        detail = raised if outcome == 'rejected' else '%s raised and the stored %d became %r' % (raised, base, got)
                    elif same(ret, exact) and same(got, exact):
                        outcome = 'same'
                    else:
                        outcome = 'altered'
                        detail = '%d %+d returned %r, stored %r' % (base, -delta if acc == 'decr-across' else delta, ret, got)
                except Exception as exc:
                    outcome, detail = 'fetch-error', type(exc).__name__
                ev.append({'kind': kind, 'len': lenclass, 'feat': sorted(feat), 'thr': thr, 'disk': disk, 'acc': acc,
                           'proto': protocol, 'outcome': outcome, 'detail': detail})
                continue
            phase = 'store'
            try:
                cache.clear(); dq.clear(); ix.clear()
                files0 = sum(len(f) for _, _, f in os.walk(root))
                if acc in ('get', 'getitem', 'pop', 'read', 'peekitem', 'get-unpickled'):
                    if stream:
                        cache.set('k', io.BytesIO(value) if rng.random() < 0.5 else Drip(value, rng.choice([1, 1000, 4096])), read=True)
                    else:
                        cache['k'] = value
                    phase = 'fetch'
                    if acc == 'get':
                        got = cache.get('k', default='<missing>')
                    elif acc == 'get-unpickled':
                        import pickle as _p
                        other = _p.loads(_p.dumps(cache))
                        try:
                            got = other.get('k', default='<missing>')
                        finally:
                            other.close()
                    elif acc == 'getitem':
                        got = cache['k']
                    elif acc == 'pop':
                        got = cache.pop('k', default='<missing>')
                    elif acc == 'peekitem':
                        got = cache.peekitem()[1]
                    else:
                        h = cache.read('k')
                        if hasattr(h, 'read'):
                            got = h.read(); h.close()
                        else:
                            got = h
                elif acc in ('pull', 'peek', 'pull-unpickled'):
                    if stream:
                        cache.push(io.BytesIO(value) if rng.random() < 0.5 else Drip(value, rng.choice([1, 1000, 4096])), read=True)
                    else:
                        cache.push(value)
                    phase = 'fetch'
                    if acc == 'pull-unpickled':
                        import pickle as _p
                        other = _p.loads(_p.dumps(cache))
                        try:
                            got = other.pull()[1]
                        finally:
                            other.close()
                    else:
                        got = (cache.pull() if acc == 'pull' else cache.peek())[1]
                elif acc.startswith('deque'):
                    if stream:
                        continue
                    dq.append(value)
                    phase = 'fetch'
                    got = dq[0] if acc == 'deque-getitem' else dq.pop()
                else:
                    if stream:
                        continue
                    ix['k'] = value
                    phase = 'fetch'
                    got = ix['k'] if acc == 'index-getitem' else ix.pop('k')
                if same(got, value):
                    outcome = 'same'
                else:
                    outcome = 'altered'
                    detail = 'stored %s of %d, got %s of %s' % (type(value).__name__, len(value) if hasattr(value, '__len__') else 0,
                                                               type(got).__name__, len(got) if hasattr(got, '__len__') else repr(got)[:40])
            except Exception as exc:
                outcome = 'rejected' if phase == 'store' else 'fetch-error'
                detail = type(exc).__name__
                if phase == 'fetch':
                    ev.append({'kind': kind, 'len': lenclass, 'feat': sorted(feat), 'thr': thr, 'disk': disk, 'acc': acc,
                               'proto': protocol, 'outcome': outcome, 'detail': detail})
                    continue
                # never silently altered AND nothing left behind
                try:
                    leftovers = len(cache) + len(dq) + len(ix)
                    cache.clear(); dq.clear(); ix.clear()
                    files1 = sum(len(f) for _, _, f in os.walk(root))
                    if leftovers or files1 > 3 + 6:       # cache.db (+wal/shm) of three caches
                        stray = [f for _, _, fs in os.walk(root) for f in fs if f.endswith('.val')]
                        if leftovers or stray:
                            outcome, detail = 'leak', '%s, %d items, files %s' % (detail, leftovers, stray[:2])
                except Exception:
                    pass
            ev.append({'kind': kind, 'len': lenclass, 'feat': sorted(feat), 'thr': thr, 'disk': disk, 'acc': acc,
                       'proto': protocol, 'outcome': outcome, 'detail': detail})
        for c in (cache, dq.cache, ix.cache):
            c.close()
        return {'id': tid, 'ev': ev}
    finally:
        envctl.rm(root)
