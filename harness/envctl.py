"""Environment control: virtual clock, seeded os.urandom, scratch dirs."""
import atexit
import os
import random
import shutil
import tempfile
import time

from . import SHM

T0 = float(2 ** 30)      # tick 0; now + ttl stays exact in float64
_real_time = time.time
_real_sleep = time.sleep
_real_urandom = os.urandom


class Clock:
    """time.time() == T0 + tick; advanced only by explicit steps."""

    def __init__(self):
        self.tick = 0
        self.installed = False

    def time(self):
        return T0 + self.tick

    def install(self):
        time.time = self.time
        self.installed = True
        return self

    def uninstall(self):
        time.time = _real_time
        self.installed = False

    def advance(self, n=1):
        self.tick += n

    @staticmethod
    def to_tick(t):
        """Absolute float time -> integer tick (None -> NoExp)."""
        if t is None:
            return NOEXP
        d = t - T0
        if d != int(d):
            raise MachineryError('expiry %r is not on the tick grid: the library no '
                                 'longer reads the clock through time.time' % (t,))
        return int(d)


NOEXP = -1000000


class MachineryError(Exception):
    """The harness (not the library) failed: exit code 2."""


class SeededUrandom:
    def __init__(self, seed, collide=False):
        self.rng = random.Random(seed)
        self.collide = collide      # value files share one sub-directory (the first two bytes name it)

    def __call__(self, n):
        b = bytes(self.rng.getrandbits(8) for _ in range(n))
        if self.collide and n >= 4:
            b = b'\xab\xcd' + b[2:]
        return b

    def install(self):
        os.urandom = self
        return self

    @staticmethod
    def uninstall():
        os.urandom = _real_urandom


_scratch_root = None


def scratch_root():
    global _scratch_root
    if _scratch_root is None:
        # a process started by a check (pool worker, forked client, script) works inside the check's own root: it may
        # be killed or leave through os._exit, and nothing of it should stay behind
        parent = os.environ.get('VERIF_SCRATCH_PARENT')
        if parent and os.path.isdir(parent):
            _scratch_root = tempfile.mkdtemp(prefix='p%d-' % os.getpid(), dir=parent)
        else:
            _scratch_root = tempfile.mkdtemp(prefix='verif-%d-' % os.getpid(), dir=SHM)
            os.environ['VERIF_SCRATCH_PARENT'] = _scratch_root
        atexit.register(shutil.rmtree, _scratch_root, True)
    return _scratch_root


def scratch(prefix='d'):
    return tempfile.mkdtemp(prefix=prefix + '-', dir=scratch_root())


def rm(path):
    shutil.rmtree(path, ignore_errors=True)
