"""C16 driver: the memoizing decorators on a variadic function."""
import itertools
import os
import random

from . import envctl, interpose
from .envctl import MachineryError

PYV = {'N': None, 's:a': 'a', 'i:1': 1, 'f:1': 1.0}
VALS = list(PYV)


def all_sigs(maxpos):
    kws = [[]] + [[[n, v]] for n in ('a', 'b') for v in VALS] + [[['a', v], ['b', w]] for v in VALS for w in VALS]
    out = []
    for n in range(maxpos + 1):
        for pos in itertools.product(VALS, repeat=n):
            for kw in kws:
                out.append({'pos': list(pos), 'kw': kw})
    return out


def _call(f, sig):
    return f(*[PYV[v] for v in sig['pos']], **{n: PYV[v] for n, v in sig['kw']})


def make(kind, root, typed, ign, expire=None):
    import diskcache
    calls = [0]

    def target(*args, **kwargs):
        calls[0] += 1
        return repr((args, sorted(kwargs.items())))
    ignore = set(int(x) if x.isdigit() else x for x in ign)
    if kind == 'cache':
        c = diskcache.Cache(os.path.join(root, 'c'))
        f = c.memoize(name='t', typed=typed, expire=expire, ignore=ignore)(target)
    elif kind == 'fanout':
        c = diskcache.FanoutCache(os.path.join(root, 'f'), shards=3)
        f = c.memoize(name='t', typed=typed, expire=expire, ignore=ignore)(target)
    elif kind == 'index':
        c = diskcache.Index(os.path.join(root, 'i'))
        f = c.memoize(name='t', typed=typed, ignore=ignore)(target)
    elif kind == 'django':
        from diskcache.djangocache import DjangoCache
        from django.core.cache.backends.base import DEFAULT_TIMEOUT
        c = DjangoCache(os.path.join(root, 'd'), {'SHARDS': 2})
        f = c.memoize(name='t', typed=typed, timeout=DEFAULT_TIMEOUT if expire is None else expire, ignore=ignore)(target)
    elif kind == 'stampede':
        c = diskcache.Cache(os.path.join(root, 's'))
        f = diskcache.memoize_stampede(c, expire if expire is not None else 1000, name='t', typed=typed, ignore=ignore)(target)
    else:
        raise MachineryError(kind)
    return c, f, target, calls


def run_pairs(kind, typed, ign, pairs, seed=0, tid=1):
    clock = envctl.Clock().install()
    root = envctl.scratch('memo')
    import random as _r
    real_random = _r.random
    _r.random = lambda: 0.999999        # memoize_stampede: never recompute early
    ev = []
    try:
        c, f, target, calls = make(kind, root, typed, ign)
        clear = (lambda: c.clear())
        for s1, s2 in pairs:
            clear()
            calls[0] = 0
            r1 = _call(f, s1)
            r1ok = 1 if r1 == repr((tuple(PYV[v] for v in s1['pos']), sorted((n, PYV[v]) for n, v in s1['kw']))) else 0
            calls[0] = 1
            r2 = _call(f, s2)
            shared = 1 if calls[0] == 1 else 0
            r2ok = 1 if r2 == repr((tuple(PYV[v] for v in s2['pos']), sorted((n, PYV[v]) for n, v in s2['kw']))) else 0
            k1 = f.__cache_key__(*[PYV[v] for v in s1['pos']], **{n: PYV[v] for n, v in s1['kw']})
            k2 = f.__cache_key__(*[PYV[v] for v in s2['pos']], **{n: PYV[v] for n, v in s2['kw']})
            import pickle
            samekey = 1 if pickle.dumps(k1) == pickle.dumps(k2) else 0
            ev.append({'ev': 'pair', 's1': s1, 's2': s2, 'typed': 1 if typed else 0, 'ign': sorted(ign),
                       'r1ok': r1ok, 'shared': shared, 'r2ok': r2ok, 'samekey': samekey})
        try:
            c.close()
        except Exception:
            pass
        return {'id': tid, 'kind': kind, 'ev': ev}
    finally:
        _r.random = real_random
        clock.uninstall()
        envctl.rm(root)


def _two_functions():
    """two different functions with the same short name, and a third with its own name"""
    def mk1(log):
        def area(x, y=0):
            log.append('one')
            return ('one', x, y)
        return area

    def mk2(log):
        def area(x, y=0):
            log.append('two')
            return ('two', x, y)
        return area
    return mk1, mk2


def run_names(kind, seed=0, tid=1):
    """decorators that derive the entry name from the function: different functions never share, the same one does"""
    import diskcache
    clock = envctl.Clock().install()
    root = envctl.scratch('memo')
    import random as _r
    real_random = _r.random
    _r.random = lambda: 0.999999
    ev = []
    try:
        if kind == 'cache':
            c = diskcache.Cache(os.path.join(root, 'c'))
            deco = lambda: c.memoize()
        elif kind == 'fanout':
            c = diskcache.FanoutCache(os.path.join(root, 'f'), shards=3)
            deco = lambda: c.memoize()
        elif kind == 'index':
            c = diskcache.Index(os.path.join(root, 'i'))
            deco = lambda: c.memoize()
        elif kind == 'django':
            from diskcache.djangocache import DjangoCache
            c = DjangoCache(os.path.join(root, 'd'), {'SHARDS': 2})
            deco = lambda: c.memoize()
        else:
            c = diskcache.Cache(os.path.join(root, 's'))
            deco = lambda: diskcache.memoize_stampede(c, 1000)
        mk1, mk2 = _two_functions()
        log = []
        a1, a2 = mk1(log), mk2(log)
        if seed % 2:
            one = deco()                 # ONE decorator object applied to both functions
            f1, f2, f1b = one(a1), one(a2), one(a1)
        else:
            f1, f2, f1b = deco()(a1), deco()(a2), deco()(a1)
        for args in ((2,), (2, 3)):
            del log[:]
            r1 = f1(*args)
            r2 = f2(*args)
            ev.append({'ev': 'names', 'q1': a1.__qualname__, 'q2': a2.__qualname__, 'shared': 0 if log == ['one', 'two'] else 1,
                       'r2ok': 1 if (r1, r2) == (('one',) + tuple(args) + (0,) * (2 - len(args)), ('two',) + tuple(args) + (0,) * (2 - len(args))) else 0})
            del log[:]
            r3 = f1b(*args)
            ev.append({'ev': 'names', 'q1': a1.__qualname__, 'q2': a1.__qualname__, 'shared': 1 if log == [] else 0, 'r2ok': 1 if r3 == r1 else 0})
        # a function whose result is None (and 0, '' ...): the stored result is served, the function does not run again
        for result in (None, 0, '', False):
            runs = []

            def const(x, _r=result):
                runs.append(x)
                return _r
            const.__qualname__ = 'const_%r' % (result,)
            fc = deco()(const)
            r1, r2 = fc(5), fc(5)
            ev.append({'ev': 'names', 'q1': const.__qualname__, 'q2': const.__qualname__, 'shared': 1 if len(runs) == 1 else 0,
                       'r2ok': 1 if (r1 is result or r1 == result) and type(r2) is type(result) and r2 == result else 0})
        try:
            c.close()
        except Exception:
            pass
        return {'id': tid, 'kind': kind, 'ev': ev}
    finally:
        _r.random = real_random
        clock.uninstall()
        envctl.rm(root)


def run_ttl(kind, expire, seed=0, tid=1):
    """expire: None (-1 in the trace), 0, or a positive number of ticks"""
    clock = envctl.Clock().install()
    root = envctl.scratch('memo')
    import random as _r
    real_random = _r.random
    _r.random = lambda: 0.999999
    try:
        if kind in ('index',) and expire is not None:
            return None
        if kind == 'stampede' and (expire is None or expire == 0):
            return None
        c, f, target, calls = make(kind, root, False, [], expire)
        sig = {'pos': ['i:1', 's:a'], 'kw': [['b', 'N']]}
        r = _call(f, sig)
        ok = r == repr((tuple(PYV[v] for v in sig['pos']), sorted((n, PYV[v]) for n, v in sig['kw'])))
        calls[0] = 1
        r2 = _call(f, sig)
        ok = ok and r2 == r
        calls2 = calls[0]
        stored = len(c) if kind not in ('django',) else len(c._cache)
        clock.advance((expire or 0) + 3)
        r3 = _call(f, sig)
        ok = ok and r3 == r
        calls3 = calls[0] - (calls2 - 1)
        try:
            c.close()
        except Exception:
            pass
        return {'id': tid, 'kind': kind, 'ev': [{'ev': 'ttl', 'expire': -1 if expire is None else expire, 'calls2': calls2,
                                                 'calls3': calls3, 'stored': stored, 'rok': 1 if ok else 0}]}
    finally:
        _r.random = real_random
        clock.uninstall()
        envctl.rm(root)


class _Holders(interpose.Listener):
    """Other connections hold the write lock of every database under the root until the n-th failed attempt to get it."""

    def __init__(self, root, fails):
        import threading
        self.fails, self.failed, self.holders = fails, 0, []
        for d, _, files in os.walk(root):
            if 'cache.db' in files:
                h = interpose.real_connect(os.path.join(d, 'cache.db'), timeout=0, isolation_level=None, check_same_thread=False)
                h.execute('BEGIN IMMEDIATE')
                self.holders.append(h)
        # whatever the library does while it waits, the lock is given up after a while: the check never hangs
        self.timer = threading.Timer(5.0, self.release)
        self.timer.daemon = True
        self.timer.start()

    def release(self):
        hs, self.holders = self.holders, []
        for h in hs:
            try:
                h.execute('ROLLBACK')
                h.close()
            except Exception:
                pass
        if self.timer is not None and hs:
            self.timer.cancel()

    def sql_after(self, conn, sql, params, rows, error):
        if error is not None and self.holders and sql.lstrip().upper().startswith('BEGIN'):
            self.failed += 1
            if self.failed >= self.fails:
                self.release()


def run_busy(kind, fails, seed=0, tid=1):
    """The lookup of a memoized call while another client holds the write lock (settings under which a lookup writes:
    statistics): it waits for the lock and finds the entry - the function is not run again."""
    import diskcache
    root = envctl.scratch('memo')
    calls = [0]

    def target(a, b=2):
        calls[0] += 1
        return (a, b, 'r')
    lst = None
    interpose.install(None, root)          # the connections made from here on are observed
    try:
        if kind == 'cache':
            c = diskcache.Cache(os.path.join(root, 'c'), statistics=True, timeout=0.01)
            f = c.memoize(name='t')(target)
        elif kind == 'fanout':
            c = diskcache.FanoutCache(os.path.join(root, 'f'), shards=2, statistics=True, timeout=0.01)
            f = c.memoize(name='t')(target)
        elif kind == 'index':
            c = diskcache.Index.fromcache(diskcache.Cache(os.path.join(root, 'i'), statistics=True, timeout=0.01, eviction_policy='none'))
            f = c.memoize(name='t')(target)
        elif kind == 'django':
            from diskcache.djangocache import DjangoCache
            c = DjangoCache(os.path.join(root, 'd'), {'SHARDS': 2, 'DATABASE_TIMEOUT': 0.01, 'OPTIONS': {'statistics': True}})
            f = c.memoize(name='t')(target)
        else:
            c = diskcache.Cache(os.path.join(root, 's'), statistics=True, timeout=0.01)
            f = diskcache.memoize_stampede(c, 1000, name='t')(target)
        r1 = f(1, b=3)
        lst = _Holders(root, fails)
        interpose.set_listener(lst, root)
        try:
            r2 = f(1, b=3)
            raised = ''
        except Exception as exc:
            r2, raised = None, type(exc).__name__
        waited = lst.failed
        lst.release()
        r3 = f(1, b=3)
        try:
            (c.cache if kind == 'index' else c).close()
        except Exception:
            pass
        return {'id': tid, 'kind': kind, 'ev': [{'ev': 'busy', 'fails': fails, 'waited': waited, 'calls': calls[0], 'raised': raised,
                                                 'rok': 1 if (r1 == (1, 3, 'r') and r2 == r1 and r3 == r1) else 0}]}
    finally:
        if lst is not None:
            lst.release()
        interpose.set_listener(None)
        envctl.rm(root)


def run_stampede(seed=0, tid=1):
    """memoize_stampede: after an early recomputation of f(*X), a call f(*X, None) must still get its own result."""
    import diskcache
    import threading
    import time as _t
    import random as _r
    clock = envctl.Clock().install()
    root = envctl.scratch('memo')
    real_random = _r.random
    ev = []
    try:
        c = diskcache.Cache(os.path.join(root, 's'))
        calls = [0]

        def target(*args, **kwargs):
            calls[0] += 1
            clock.advance(5 if calls[0] == 1 else 1)   # the first computation is slow (5 ticks), later ones take 1 tick
            return repr((args, sorted(kwargs.items())))
        f = diskcache.memoize_stampede(c, 20, name='t')(target)
        _r.random = lambda: 0.999999
        r1 = f(1)
        clock.advance(19)                         # one tick before expiry
        _r.random = lambda: 1e-9                  # early recomputation is chosen
        before = threading.active_count()
        r2 = f(1)
        for _ in range(200):                      # let the recomputing thread finish
            if threading.active_count() <= before:
                break
            envctl._real_sleep(0.01)
        # a further call that also draws "recompute early" while the first recomputation's marker is still there is
        # served from the cache: it neither starts another recomputation nor runs the function itself
        seen = calls[0]
        r2b = f(1)
        marker_ok = 1 if calls[0] == seen and r2b == r1 else 0
        _r.random = lambda: 0.999999
        try:
            r3 = f(1, None)
            rok = 1 if r3 == repr(((1, None), [])) else 0
        except Exception:
            rok = 0
        # the same with a keyword argument: the early recomputation must compute the same call
        k1 = f(2, b='a')                          # 1 tick
        clock.advance(18)
        _r.random = lambda: 1e-9
        before = threading.active_count()
        k2 = f(2, b='a')
        for _ in range(200):
            if threading.active_count() <= before:
                break
            envctl._real_sleep(0.01)
        _r.random = lambda: 0.999999
        k3 = f(2, b='a')                          # served from the entry the early recomputation stored
        ok12 = 1 if marker_ok and r1 == r2 == repr(((1,), [])) and k1 == k2 == k3 == repr(((2,), [('b', 'a')])) else 0
        c.close()
        return {'id': tid, 'kind': 'stampede', 'ev': [{'ev': 'stamp', 'rok': rok, 'ok12': ok12, 'calls': calls[0]}]}
    finally:
        _r.random = real_random
        clock.uninstall()
        envctl.rm(root)
