"""Random abstract histories for the sequential drivers (seeded)."""
import random

KEYS_TEXT = [[1] + [ord(c) for c in s] for s in
             ['a', 'b', 'c', 'ab', 'b-', 'zz', 'k1', 'k2', 'k3', 'k4', 'k5', 'k6',
              'a-000000000000000', 'a-999999999999999', 'a-5', 'a-500000000000007']]
KEYS_INT = [[0, 0, 0], [0, 99999999, 9999999], [0, 0, 5], [0, 0, 1],      # (1 == True in Python: two keys for the cache)
            [0, 0, 77], [0, 50000000, 3], [0, -1, 9999990], [0, 123, 4567]]
KEYS_COMP = [[2, i] for i in range(1, 7)]


def key_universe(n, rng, with_int=True, with_comp=True):
    keys = list(KEYS_TEXT)
    if with_int:
        keys += KEYS_INT
    if with_comp:
        keys += KEYS_COMP
    i = 0
    while len(keys) < n:
        keys.append([1] + [ord(c) for c in 'key%04d' % i])
        i += 1
    rng.shuffle(keys)
    return keys[:n]


def val_universe(rng, units=(40, 48, 64, 80), text=True, pick=True):
    vals = [0, 1, 2, 5, -3, 100001, 100002, 101000, 101001]
    for u in units:
        vals.append(200000 + u * 100 + rng.randrange(100))
    if text:
        vals.append(300000 + 36 * 100 + rng.randrange(100))
    if pick:
        vals.append(400000 + 12 * 100 + rng.randrange(100))
    return vals


DEFAULT_WEIGHTS = dict(set=14, add=6, touch=4, incr=6, get=14, contains=4, pop=4, delete=5,
                       clear=0.3, evict=1, expire=1.5, push=4, pull=4, peek=2, peekitem=2,
                       len=1, iter=1.5, stats=1, cull=1, tick=8, tagindex=0.6, volume=0.8)


def random_history(rng, n, keys, vals, weights=None, ttls=((), (), (), (0,), (1,), (2,), (5,), (-1,), (1000,)),
                   tags=(0, 0, 1, 2, 3), prefixes=((), (), (97,), (98,), (97, 45, 53), (97, 45), (-1,))):
    w = dict(DEFAULT_WEIGHTS)
    if weights:
        w.update(weights)
    names = [k for k in w if w[k] > 0]
    ws = [w[k] for k in names]
    ops = []
    for _ in range(n):
        op = rng.choices(names, ws)[0]
        k = rng.choice(keys)
        fx, ft = rng.randrange(2), rng.randrange(2)
        form = rng.randrange(3)
        if op in ('set', 'add'):
            a = {'k': k, 'v': rng.choice(vals), 'ttl': list(rng.choice(ttls)), 'tag': rng.choice(tags)}
        elif op == 'touch':
            a = {'k': k, 'ttl': list(rng.choice(ttls))}
        elif op == 'incr':
            a = {'k': k, 'd': rng.choice([1, 1, 2, -1]), 'df': rng.choice([[], [0], [0], [10]])}
        elif op == 'get':
            mk = rng.choice(['miss', 'miss', 'KeyError'])
            if mk == 'KeyError':
                fx = ft = 0
                form = rng.randrange(2)
            a = {'k': k, 'fx': fx, 'ft': ft, 'mk': mk}
        elif op == 'contains':
            a = {'k': k}
        elif op == 'pop':
            a = {'k': k, 'fx': fx, 'ft': ft}
        elif op == 'delete':
            a = {'k': k, 'mk': rng.choice(['false', 'KeyError'])}
        elif op == 'evict':
            a = {'tag': rng.choice([1, 2, 3, 0])}
        elif op == 'push':
            a = {'v': rng.choice(vals), 'p': list(rng.choice(prefixes)), 'back': rng.randrange(2),
                 'ttl': list(rng.choice(ttls)), 'tag': rng.choice(tags)}
        elif op in ('pull', 'peek'):
            a = {'p': list(rng.choice(prefixes)), 'back': rng.randrange(2), 'fx': fx, 'ft': ft}
        elif op == 'peekitem':
            a = {'last': rng.randrange(2), 'fx': fx, 'ft': ft}
        elif op == 'iter':
            a = {'rev': rng.randrange(2), 'sorted': rng.randrange(2)}
        elif op == 'stats':
            a = {'en': rng.randrange(2), 'rs': 1 if rng.random() < 0.2 else 0}
        elif op == 'tick':
            a = {'n': rng.choice([1, 1, 1, 2, 3])}
        elif op == 'tagindex':
            a = {'on': rng.randrange(2)}
        else:
            a = {}
        ops.append({'op': op, 'a': a, 'form': form})
    return ops


def random_cfg(rng, small_limit=True):
    policy = rng.choice(['lrs', 'lru', 'lfu', 'none'])
    cull = rng.choice([0, 1, 2, 10])
    limit = rng.choice([150, 250, 400, 2 ** 20]) * 1024 if small_limit else 2 ** 30
    return dict(policy=policy, cull=cull, limit=limit, stats=rng.random() < 0.5,
                tag_index=rng.randrange(2),
                min_file_size=rng.choice([2 ** 15, 2 ** 15, 1024, 0]))
