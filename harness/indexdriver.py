"""C12 drivers: diskcache.Index (or OrderedDict as the cross-check of the spec)."""
import collections
import os
import pickle

from . import envctl
from .adapters import ValMap, R
from .envctl import MachineryError

PYKEYS = {1: 1, 2: 'a', 3: (1, 2), 4: b'x', 5: 2.5, 6: None, 7: 'b', 8: 2 ** 70}
KEYID = {(type(v).__name__, repr(v)): k for k, v in PYKEYS.items()}
SENT = object()


def kid(pk):
    return KEYID.get((type(pk).__name__, repr(pk)), -1)


class IndexApi:
    def __init__(self, km, vm):
        self.vm = vm

    def call(self, x, name, a):
        vm = self.vm
        try:
            if name == 'setitem':
                x[PYKEYS[a['k']]] = vm.to_py(a['v']); return R('none')
            if name == 'getitem':
                return R('val', [vm.to_model(x[PYKEYS[a['k']]])])
            if name == 'delitem':
                del x[PYKEYS[a['k']]]; return R('none')
            if name == 'pop':
                if a['d']:
                    r = x.pop(PYKEYS[a['k']], vm.to_py(a['d'][0]))
                else:
                    r = x.pop(PYKEYS[a['k']])
                return R('val', [vm.to_model(r)])
            if name == 'popitem':
                k, v = x.popitem(last=bool(a['last']))
                return R('item', [kid(k), vm.to_model(v)])
            if name == 'peekitem':
                if hasattr(x, 'peekitem'):
                    k, v = x.peekitem(last=bool(a['last']))
                else:
                    if not x:
                        raise KeyError('empty')
                    k = next(reversed(x)) if a['last'] else next(iter(x))
                    v = x[k]
                return R('item', [kid(k), vm.to_model(v)])
            if name == 'setdefault':
                return R('val', [vm.to_model(x.setdefault(PYKEYS[a['k']], vm.to_py(a['v'])))])
            if name == 'update':
                x.update([(PYKEYS[k], vm.to_py(v)) for k, v in a['pairs']]); return R('none')
            if name == 'contains':
                return R('true' if PYKEYS[a['k']] in x else 'false')
            if name == 'len':
                return R('int', [len(x)])
            if name == 'clear':
                x.clear(); return R('none')
            if name == 'view':
                what, rev = a['what'], a['rev']
                if what == 'keys':
                    it = reversed(x) if rev else iter(x.keys())
                    return R('keys', [kid(k) for k in it])
                if what == 'values':
                    it = [x[k] for k in reversed(x)] if rev else iter(x.values())
                    return R('values', [vm.to_model(v) for v in it])
                it = [(k, x[k]) for k in reversed(x)] if rev else iter(x.items())
                return R('items', [[kid(k), vm.to_model(v)] for k, v in it])
            if name == 'eq':
                pairs = [(PYKEYS[k], vm.to_py(v)) for k, v in a['other']]
                other = collections.OrderedDict(pairs) if a['ordered'] else dict(pairs)
                tmpdir = None
                if a['ordered'] == 2 and hasattr(x, 'cache'):
                    # against another Index (its own directory) holding the same pairs in that order
                    import tempfile, diskcache
                    tmpdir = tempfile.mkdtemp(prefix='eq-', dir=envctl.scratch_root())
                    other = diskcache.Index(tmpdir, pairs)
                try:
                    r = (not (x != other)) if a.get('ne') else (x == other)     # != is its own method of Index
                finally:
                    if tmpdir is not None:
                        other.cache.close()
                        envctl.rm(tmpdir)
                return R('true' if r is True else 'false' if r is False else 'weird')
        except KeyError:
            return R('KeyError')
        except (TypeError, ValueError) as exc:
            return R(type(exc).__name__)
        except MachineryError:
            raise
        except Exception as exc:        # any other failure of the library is a result the specification judges
            return R(type(exc).__name__)
        raise MachineryError('unknown index op %r' % name)


def pairs_of(x, vm):
    return [[kid(k), vm.to_model(x[k])] for k in x]


def run_seq(ops, impl='diskcache', via='Index', seed=0, tid=1):
    import diskcache
    vm = ValMap()
    api = IndexApi(None, vm)
    envctl.SeededUrandom(seed).install()
    root = envctl.scratch('ix')
    extra = []
    try:
        if impl == 'stdlib':
            x = collections.OrderedDict()
        elif via == 'fanout':
            fan = diskcache.FanoutCache(os.path.join(root, 'f'), shards=2)
            x = fan.index('idx')
            extra.append(fan)
        elif via == 'django':
            from diskcache.djangocache import DjangoCache
            dj = DjangoCache(os.path.join(root, 'dj'), {'SHARDS': 2})
            x = dj.index('idx')
            extra.append(dj)
        else:
            x = diskcache.Index(os.path.join(root, 'i'))
        if impl != 'stdlib':
            # an Index never loses items to eviction, whatever the size limit of its cache
            x.cache.reset('size_limit', 150 * 1024)
        ev = []
        blocks = []
        for op in ops:
            name, a = op['op'], dict(op.get('a', {}))
            if name in ('txbegin', 'txend', 'txraise'):
                ret = R('none')
                try:
                    if name == 'txbegin':
                        if impl == 'stdlib':
                            blocks.append(collections.OrderedDict(x))
                        else:
                            cm = x.transact()
                            cm.__enter__()
                            blocks.append(cm)
                    elif blocks and name == 'txend':
                        b = blocks.pop()
                        if impl != 'stdlib':
                            b.__exit__(None, None, None)
                    elif blocks:
                        exc = RuntimeError('abort') if len(ev) % 2 else KeyboardInterrupt()     # passes through every enclosing block
                        while blocks:
                            b = blocks.pop()
                            if impl == 'stdlib':
                                x = b
                            else:
                                try:
                                    if b.__exit__(type(exc), exc, None):
                                        ret = R('swallowed')
                                except (RuntimeError, KeyboardInterrupt):
                                    pass
                except Exception as exc:
                    ret = R(type(exc).__name__)
                ev.append({'op': name, 'a': a, 'ret': ret, 'pairs': pairs_of(x, vm)})
                continue
            if name in ('reopen', 'pickle'):
                if impl != 'stdlib':
                    if name == 'reopen':
                        directory = x.directory
                        x.cache.close()
                        x = diskcache.Index(directory)
                    else:
                        x = pickle.loads(pickle.dumps(x))
                else:
                    x = pickle.loads(pickle.dumps(x))
                ret = R('none')
            else:
                if name == 'eq' and a.get('other') == 'CURRENT':
                    cur = pairs_of(x, vm)
                    if a.pop('shuffle', 0):
                        cur = cur[::-1]
                    mut = a.pop('mutate', False)
                    if mut and cur:
                        kind = len(ev) % 3
                        if kind == 0:
                            cur = cur[:-1]
                        elif kind == 1:
                            cur = [[cur[0][0], 3 if cur[0][1] != 3 else 2]] + cur[1:]
                        else:
                            # same length, one key replaced by a key that is not in the index
                            free = [k for k in PYKEYS if k not in [c[0] for c in cur]]
                            none_at = [i for i, c in enumerate(cur) if c[1] == 102000]
                            if free:
                                i = none_at[0] if none_at else 0
                                cur = cur[:i] + [[free[0], 7]] + cur[i + 1:]
                    a['other'] = cur
                ret = api.call(x, name, a)
            ev.append({'op': name, 'a': a, 'ret': ret, 'pairs': pairs_of(x, vm)})
        return {'id': tid, 'kind': 'seq', 'nc': 1, 'init': {'pairs': []}, 'impl': impl, 'via': via, 'ev': ev}
    finally:
        for e in extra:
            try:
                e.close()
            except Exception:
                pass
        envctl.SeededUrandom.uninstall()
        envctl.rm(root)


VALS = [1, 2, 3, 100001, 101000, 102000, 102000, 200000 + 40 * 100 + 1, 200000 + 36 * 100 + 2, 300000 + 36 * 100 + 3]


def block_ops(rng, n):
    """histories with transact() blocks (inline values only: file-backed values inside blocks meet the known finding F06)"""
    ops, depth = [], 0
    for o in random_ops(rng, n, vals=[1, 2, 3, 100001, 102000], lifecycle=False):
        r = rng.random()
        if depth == 0 and r < 0.25:
            ops.append({'op': 'txbegin', 'a': {}})
            depth = 1
        elif depth == 1 and r < 0.1:
            ops.append({'op': 'txbegin', 'a': {}})
            depth = 2
        elif depth > 0 and r < 0.4:
            e = rng.choice(['txend', 'txraise'])
            ops.append({'op': e, 'a': {}})
            depth = depth - 1 if e == 'txend' else 0
        ops.append(o)
    while depth:
        e = rng.choice(['txend', 'txraise'])
        ops.append({'op': e, 'a': {}})
        depth = depth - 1 if e == 'txend' else 0
    return ops


def random_ops(rng, n, vals=None, lifecycle=True):
    ops = []
    keys = list(PYKEYS)
    VALS_ = vals or VALS
    for _ in range(n):
        r = rng.random()
        k, v = rng.choice(keys), rng.choice(VALS_)
        if r < 0.22:
            o = {'op': 'setitem', 'a': {'k': k, 'v': v}}
        elif r < 0.36:
            o = {'op': 'getitem', 'a': {'k': k}}
        elif r < 0.44:
            o = {'op': 'delitem', 'a': {'k': k}}
        elif r < 0.52:
            o = {'op': 'pop', 'a': {'k': k, 'd': rng.choice([[], [7]])}}
        elif r < 0.58:
            o = {'op': rng.choice(['popitem', 'peekitem']), 'a': {'last': rng.randrange(2)}}
        elif r < 0.66:
            o = {'op': 'setdefault', 'a': {'k': k, 'v': v}}
        elif r < 0.70:
            o = {'op': 'update', 'a': {'pairs': [[rng.choice(keys), rng.choice(VALS_)] for _ in range(rng.randint(0, 3))]}}
        elif r < 0.76:
            o = {'op': rng.choice(['contains', 'len']), 'a': {'k': k}}
        elif r < 0.86:
            o = {'op': 'view', 'a': {'what': rng.choice(['keys', 'values', 'items']), 'rev': rng.randrange(2)}}
        elif r < 0.93:
            o = {'op': 'eq', 'a': {'other': 'CURRENT', 'ordered': rng.choice([0, 1, 2]), 'shuffle': rng.randrange(2), 'mutate': rng.random() < 0.3, 'ne': rng.randrange(2)}}
        elif r < 0.95:
            o = {'op': 'clear', 'a': {}}
        elif lifecycle:
            o = {'op': rng.choice(['reopen', 'pickle']), 'a': {}}
        else:
            o = {'op': 'len', 'a': {'k': k}}
        ops.append(o)
    return ops
