"""C15 / C20 drivers: diskcache.recipes under the deterministic scheduler."""
import os
import random

from . import envctl, interpose, sched
from .adapters import R
from .envctl import MachineryError


def _mk(kind, cache, permits, dc):
    if kind == 'lock':
        return dc.Lock(cache, 'the-lock')
    if kind == 'rlock':
        return dc.RLock(cache, 'the-lock')
    return dc.BoundedSemaphore(cache, 'the-lock', value=permits)


def run_locks(cfg, program, strategy, seed=0, tid=1):
    """cfg: kind lock|rlock|sem, permits, shared (one Cache for all threads), fanout (bool)
    program: {cid: [ 'acquire' | 'release' | 'bad_release' | 'barrier' ]}"""
    import diskcache
    envctl.SeededUrandom(seed).install()
    d = envctl.scratch('lk')
    interpose.install(None, d)
    kind, permits = cfg['kind'], cfg.get('permits', 1)

    def handle():
        if cfg.get('fanout'):
            return diskcache.FanoutCache(d, shards=2, timeout=0)
        return diskcache.Cache(d, timeout=0)
    base = handle()
    shared = handle() if cfg.get('shared') else None
    sch = sched.Scheduler(d, lambda conn: {}, strategy, busy_budget=2)
    sch.progress_events = ('enter', 'released')      # a spinner waits for a real change of the resource, not for other spinners
    sch.max_steps = 20000
    caches = {}
    try:
        def client(cid, ops):
            def body(c):
                cache = caches[cid]
                res = _mk(kind, cache, permits, diskcache)
                for op in ops:
                    sch.yield_point('call', op)
                    sch.emit({'ev': 'call', 'c': cid, 'op': op})
                    try:
                        if op == 'acquire':
                            res.acquire()
                            sch.emit({'ev': 'ret', 'c': cid, 'op': op, 'ret': R('none')})
                            sch.emit({'ev': 'enter', 'c': cid})
                        elif op == 'release':
                            sch.emit({'ev': 'exit', 'c': cid})
                            res.release()
                            sch.emit({'ev': 'ret', 'c': cid, 'op': op, 'ret': R('none')})
                            sch.emit({'ev': 'released', 'c': cid})
                        elif op == 'bad_release':
                            res.release()
                            sch.emit({'ev': 'ret', 'c': cid, 'op': op, 'ret': R('none')})
                        elif op == 'locked':
                            r_ = res.locked()
                            sch.emit({'ev': 'ret', 'c': cid, 'op': op, 'ret': R('true' if r_ is True else 'false' if r_ is False else 'weird')})
                        elif op == 'barrier':
                            def crit():
                                sch.emit({'ev': 'enter', 'c': cid})
                                sch.yield_point('call', 'inside')
                                sch.emit({'ev': 'exit', 'c': cid})
                                return 1
                            factory = {'lock': diskcache.Lock, 'rlock': diskcache.RLock,
                                       'sem': diskcache.BoundedSemaphore}[kind]
                            f = diskcache.barrier(cache, factory, name='the-lock')(crit)
                            f()
                            sch.emit({'ev': 'ret', 'c': cid, 'op': op, 'ret': R('val')})
                            sch.emit({'ev': 'released', 'c': cid})
                    except AssertionError:
                        sch.emit({'ev': 'ret', 'c': cid, 'op': op, 'ret': R('AssertionError')})
                    except sched.Stop:
                        raise
                    except Exception as exc:
                        sch.emit({'ev': 'ret', 'c': cid, 'op': op, 'ret': R(type(exc).__name__)})
            return body
        for cid, ops in sorted(program.items()):
            cache = shared if shared is not None else handle()
            caches[cid] = cache
            sch.add_client(cid, client(cid, ops), warmup=(lambda cc=cache: len(cc)))
        # Scheduler.sql_before takes a snapshot before COMMIT: not needed here
        sch.snapshot = lambda conn: {}
        events = sch.run()
        v = base.get('the-lock', default=None)
        if kind == 'lock':
            free = 1 if v is None and 'the-lock' not in base else 0
        elif kind == 'rlock':
            free = 1 if v is None or v[1] == 0 else 0
        else:
            free = 1 if v is None or v == permits else 0
        ev = [{k: e[k] for k in ('ev', 'c', 'op', 'ret') if k in e} for e in events
              if e['ev'] in ('call', 'ret', 'enter', 'exit', 'stuck')]
        ev.append({'ev': 'final', 'c': 0, 'free': free})
        return {'id': tid, 'kind': kind, 'permits': permits, 'nc': max(program), 'cfg': cfg, 'program': program,
                'schedule': list(sch.choices), 'ev': ev}
    finally:
        for c in list(caches.values()) + [base]:
            try:
                c.close()
            except Exception:
                pass
        interpose.set_listener(None)
        envctl.SeededUrandom.uninstall()
        envctl.rm(d)


def run_fork_rlock(kind, seed=0, tid=1):
    """A resource object constructed BEFORE fork: the child must not be taken for the holder."""
    import diskcache
    d = envctl.scratch('lkf')
    try:
        cache = diskcache.Cache(d)
        res = _mk(kind, cache, 1, diskcache)
        res.acquire()
        r, w = os.pipe()
        pid = os.fork()
        if pid == 0:
            try:
                res.release()
                os.write(w, b'none')
            except AssertionError:
                os.write(w, b'AssertionError')
            except BaseException as exc:
                os.write(w, type(exc).__name__.encode())
            os._exit(0)
        os.close(w)
        os.waitpid(pid, 0)
        out = os.read(r, 100).decode()
        os.close(r)
        ev = [{'ev': 'call', 'c': 1, 'op': 'acquire'}, {'ev': 'ret', 'c': 1, 'op': 'acquire', 'ret': R('none')},
              {'ev': 'enter', 'c': 1},
              {'ev': 'call', 'c': 2, 'op': 'bad_release'}, {'ev': 'ret', 'c': 2, 'op': 'bad_release', 'ret': R(out)}]
        # the parent still holds it (unless the child's release was wrongly accepted)
        ev.append({'ev': 'exit', 'c': 1})
        try:
            res.release()
            ev.append({'ev': 'ret', 'c': 1, 'op': 'release', 'ret': R('none')})
        except AssertionError:
            ev.append({'ev': 'ret', 'c': 1, 'op': 'release', 'ret': R('AssertionError')})
        ev.append({'ev': 'final', 'c': 0, 'free': 1})
        cache.close()
        return {'id': tid, 'kind': kind, 'permits': 1, 'nc': 2, 'cfg': {'kind': kind, 'fork': 1},
                'program': 'holder in the parent, release attempted by a forked child', 'schedule': [], 'ev': ev}
    finally:
        envctl.rm(d)


# ----------------------------------------------------------------------- C20
def run_averager(cfg, program, strategy, seed=0, tid=1):
    """program: {cid: [('add', v) | ('get',) | ('pop',)]}; values are small integers"""
    import diskcache
    envctl.SeededUrandom(seed).install()
    d = envctl.scratch('avg')
    interpose.install(None, d)
    nsh = cfg.get('fanout', 0)          # > 0: the Averager lives in a FanoutCache with that many shards
    mk = (lambda: diskcache.FanoutCache(d, shards=nsh, timeout=0)) if nsh else (lambda: diskcache.Cache(d, timeout=0))
    base = mk()
    shared = mk() if cfg.get('shared') else None
    KEY = cfg.get('key', 'latency')
    disk0 = base.disk if not nsh else base._shards[0].disk
    dbs = [os.path.join(d, '%03d' % i, 'cache.db') for i in range(nsh)] if nsh else [os.path.join(d, 'cache.db')]

    def read_pair(execute):
        rows = execute('SELECT mode, filename, value FROM Cache WHERE key = ? AND raw = 1', (KEY,)).fetchall()
        if not rows:
            return None
        mode, filename, value = rows[0]
        total, count = disk0.fetch(mode, filename, value, False)
        return [int(total), count] if float(total) == int(total) else [-1, count]

    owner = dbs[0]
    if nsh:
        # which shard holds the key (observed, not computed)
        base.set(KEY, (0.0, 0))
        for path in dbs:
            rc = interpose.real_connect(path, timeout=5, isolation_level=None)
            try:
                if rc.execute('SELECT COUNT(*) FROM Cache WHERE key = ? AND raw = 1', (KEY,)).fetchall()[0][0]:
                    owner = path
            finally:
                rc.close()
        base.delete(KEY)

    def snap(conn):
        # through the committing connection (sees its own uncommitted change); a commit on another shard of the
        # FanoutCache says nothing about the pair
        if nsh and getattr(conn, '_verif_path', None) != owner:
            return {'tc': [-9, -9]}
        raw = conn.raw if hasattr(conn, 'raw') else conn.execute
        return {'tc': read_pair(raw) or [0, 0]}
    sch = sched.Scheduler(d, snap, strategy, busy_budget=2)
    caches = {}

    def pair(x, cache):
        # the mean is reported; the (total, count) pair is read back through the public API for the comparison
        return x

    try:
        def client(cid, ops):
            def body(c):
                cache = caches[cid]
                ave = diskcache.Averager(cache, KEY)
                for op in ops:
                    sch.yield_point('call', op[0])
                    sch.emit({'ev': 'call', 'c': cid, 'op': op[0], 'v': op[1] if len(op) > 1 else 0})
                    try:
                        if op[0] == 'add':
                            ave.add(float(op[1]))
                            sch.emit({'ev': 'ret', 'c': cid, 'ret': R('none')})
                        else:
                            # get()/pop() return total/count; to compare exactly the pair is re-derived: mean * count is not
                            # unique, so the raw pair is fetched the same way the recipe does (cache.get / cache.pop)
                            # the recipe's own get() / pop(): the mean, as an exact fraction (values are small integers)
                            from fractions import Fraction
                            mean = ave.get() if op[0] == 'get' else ave.pop()
                            if mean is None:
                                sch.emit({'ev': 'ret', 'c': cid, 'ret': R('none')})
                            else:
                                fr = Fraction(mean).limit_denominator(10000)
                                sch.emit({'ev': 'ret', 'c': cid, 'ret': R('mean', [fr.numerator, fr.denominator])})
                    except sched.Stop:
                        raise
                    except Exception as exc:
                        sch.emit({'ev': 'ret', 'c': cid, 'ret': R(type(exc).__name__)})
            return body
        for cid, ops in sorted(program.items()):
            cache = shared if shared is not None else mk()
            caches[cid] = cache
            sch.add_client(cid, client(cid, ops), warmup=(cache.__enter__ if not nsh else (lambda cc=cache: len(cc))))
        events = sch.run()
        ev = []
        for e in events:
            if e['ev'] in ('call', 'ret', 'stuck'):
                ev.append({k: e[k] for k in ('ev', 'c', 'op', 'v', 'ret') if k in e})
            elif e['ev'] in ('commit', 'awrite'):
                ev.append({'ev': 'commit', 'c': e['c'], 'tc': e['tc']})
        fin = interpose.real_connect(owner, timeout=5, isolation_level=None)
        ev.append({'ev': 'final', 'c': 0, 'tc': read_pair(fin.execute) or [0, 0]})
        fin.close()
        return {'id': tid, 'kind': 'avg', 'nc': max(program), 'cfg': cfg, 'program': {k: [list(o) for o in v] for k, v in program.items()},
                'schedule': list(sch.choices), 'ev': ev}
    finally:
        for c in list(caches.values()) + [base]:
            try:
                c.close()
            except Exception:
                pass
        interpose.set_listener(None)
        envctl.SeededUrandom.uninstall()
        envctl.rm(d)


class VClock:
    def __init__(self):
        self.now = 0.0


def run_throttle(cfg, arrivals, strategy, seed=0, tid=1):
    """cfg: count, seconds, q (grid: times are multiples of 1/q s); arrivals: {cid: [gap, gap, ...]} in grid units:
    each caller waits 'gap' (virtual time) and then calls the throttled function once."""
    import diskcache
    envctl.SeededUrandom(seed).install()
    d = envctl.scratch('thr')
    interpose.install(None, d)
    cache = diskcache.Cache(d, timeout=0)
    q = cfg['q']
    vc = VClock()
    sch = sched.Scheduler(d, lambda conn: {}, strategy, busy_budget=2)
    sch.vclock = vc
    sch.max_steps = 40000
    starts = []

    def func():
        starts.append(vc.now)
        return 1
    import math
    SC = 1000                           # times in 1/(q*SC) s, tokens in 1/(q*SC) token
    U = q * SC
    passes = []                         # one record per pass of the loop, in the order of the transactions
    cur = {}

    class Rec(object):
        """The cache handed to throttle(): records what each pass reads and writes (inside its transaction)."""
        def __getattr__(self, name):
            return getattr(cache, name)

        def get(self, key, *a, **kw):
            v = cache.get(key, *a, **kw)
            if key == 'thr' and isinstance(v, tuple) and len(v) == 2:
                cur[sch.me()] = {'ev': 'pass', 'c': getattr(sch.me(), 'cid', 0), 'last': int(round(v[0] * U)), 'tally': int(round(v[1] * U)),
                                               'act': 'sleep', 'wnow': 0, 'wtally': 0}
                passes.append(cur[sch.me()])
            return v

        def set(self, key, value, *a, **kw):
            r = cache.set(key, value, *a, **kw)
            rec_ = cur.get(sch.me())
            if key == 'thr' and rec_ is not None:
                rec_.update({'act': 'start', 'wnow': int(round(value[0] * U)), 'wtally': int(round(value[1] * U))})
            elif key == 'thr':
                passes.append({'ev': 'init', 'c': 0, 'last': 0, 'tally': 0, 'act': 'init', 'wnow': int(round(value[0] * U)), 'wtally': int(round(value[1] * U)), 'now': 0, 'delay': 0})
            return r

    def timef():
        rec_ = cur.get(sch.me())
        if rec_ is not None:
            rec_['now'] = int(round(vc.now * U))
        return vc.now

    def sleepf(delay):
        rec_ = cur.get(sch.me())
        if rec_ is not None:
            rec_['delay'] = int(round(delay * U))
        return sch.vsleep(delay)
    throttled = diskcache.throttle(Rec(), cfg['count'], cfg['seconds'], name='thr', time_func=timef, sleep_func=sleepf)(func)
    caches = {}
    try:
        def client(cid, gaps):
            def body(c):
                for g in gaps:
                    if g:
                        sch.vsleep(g / float(q))
                    sch.yield_point('call', 'throttled')
                    throttled()
            return body
        for cid, gaps in sorted(arrivals.items()):
            sch.add_client(cid, client(cid, gaps), warmup=cache.__enter__)
        events = sch.run()
        stuck = any(e['ev'] == 'stuck' for e in events)
        ts = sorted(starts)                # start times rounded down (lo) and up (hi): sound for the bound
        for p_ in passes:
            p_.setdefault('now', 0)
            p_.setdefault('delay', 0)
        lo = [int(math.floor(t * q * SC + 1e-6)) for t in ts]
        hi = [int(math.ceil(t * q * SC - 1e-6)) for t in ts]
        return {'id': tid, 'kind': 'thr', 'nc': max(arrivals), 'cfg': cfg, 'program': arrivals, 'schedule': list(sch.choices)[:80],
                'count': cfg['count'], 'secq': cfg['seconds'] * q * SC, 'q': q * SC, 'calls': sum(len(g) for g in arrivals.values()),
                'starts': lo, 'starts_hi': hi, 'stuck': stuck, 'seconds': cfg['seconds'], 'ev': passes + [{'ev': 'check', 'c': 0}]}
    finally:
        try:
            cache.close()
        except Exception:
            pass
        interpose.set_listener(None)
        envctl.SeededUrandom.uninstall()
        envctl.rm(d)
