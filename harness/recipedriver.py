"""C15 / C20 drivers: diskcache.recipes under the deterministic scheduler."""
import os
import random

from . import envctl, interpose, sched
from .adapters import R
from .envctl import MachineryError


def _mk(kind, cache, permits, dc):
    if kind == 'lock':
        return dc.Lock(cache, 'the-lock')
    if kind == 'rlock':
        return dc.RLock(cache, 'the-lock')
    return dc.BoundedSemaphore(cache, 'the-lock', value=permits)


def run_locks(cfg, program, strategy, seed=0, tid=1):
    """cfg: kind lock|rlock|sem, permits, shared (one Cache for all threads), fanout (bool)
    program: {cid: [ 'acquire' | 'release' | 'bad_release' | 'barrier' ]}"""
    import diskcache
    envctl.SeededUrandom(seed).install()
    d = envctl.scratch('lk')
    interpose.install(None, d)
    kind, permits = cfg['kind'], cfg.get('permits', 1)

    def handle():
        if cfg.get('fanout'):
            return diskcache.FanoutCache(d, shards=2, timeout=0)
        return diskcache.Cache(d, timeout=0)
    base = handle()
    shared = handle() if cfg.get('shared') else None
    sch = sched.Scheduler(d, lambda conn: {}, strategy, busy_budget=2)
    sch.progress_events = ('enter', 'released')      # a spinner waits for a real change of the resource, not for other spinners
    sch.max_steps = 20000
    caches = {}
    try:
        def client(cid, ops):
            def body(c):
                cache = caches[cid]
                res = _mk(kind, cache, permits, diskcache)
                for op in ops:
                    sch.yield_point('call', op)
                    sch.emit({'ev': 'call', 'c': cid, 'op': op})
                    try:
                        if op == 'acquire':
                            res.acquire()
                            sch.emit({'ev': 'ret', 'c': cid, 'op': op, 'ret': R('none')})
                            sch.emit({'ev': 'enter', 'c': cid})
                        elif op == 'release':
                            sch.emit({'ev': 'exit', 'c': cid})
                            res.release()
                            sch.emit({'ev': 'ret', 'c': cid, 'op': op, 'ret': R('none')})
                            sch.emit({'ev': 'released', 'c': cid})
                        elif op == 'bad_release':
                            res.release()
                            sch.emit({'ev': 'ret', 'c': cid, 'op': op, 'ret': R('none')})
                        elif op == 'barrier':
                            def crit():
                                sch.emit({'ev': 'enter', 'c': cid})
                                sch.yield_point('call', 'inside')
                                sch.emit({'ev': 'exit', 'c': cid})
                                return 1
                            factory = {'lock': diskcache.Lock, 'rlock': diskcache.RLock,
                                       'sem': diskcache.BoundedSemaphore}[kind]
                            f = diskcache.barrier(cache, factory, name='the-lock')(crit)
                            f()
                            sch.emit({'ev': 'ret', 'c': cid, 'op': op, 'ret': R('val')})
                            sch.emit({'ev': 'released', 'c': cid})
                    except AssertionError:
                        sch.emit({'ev': 'ret', 'c': cid, 'op': op, 'ret': R('AssertionError')})
                    except sched.Stop:
                        raise
                    except Exception as exc:
                        sch.emit({'ev': 'ret', 'c': cid, 'op': op, 'ret': R(type(exc).__name__)})
            return body
        for cid, ops in sorted(program.items()):
            cache = shared if shared is not None else handle()
            caches[cid] = cache
            sch.add_client(cid, client(cid, ops), warmup=(lambda cc=cache: len(cc)))
        # Scheduler.sql_before takes a snapshot before COMMIT: not needed here
        sch.snapshot = lambda conn: {}
        events = sch.run()
        v = base.get('the-lock', default=None)
        if kind == 'lock':
            free = 1 if v is None and 'the-lock' not in base else 0
        elif kind == 'rlock':
            free = 1 if v is None or v[1] == 0 else 0
        else:
            free = 1 if v is None or v == permits else 0
        ev = [{k: e[k] for k in ('ev', 'c', 'op', 'ret') if k in e} for e in events
              if e['ev'] in ('call', 'ret', 'enter', 'exit', 'stuck')]
        ev.append({'ev': 'final', 'c': 0, 'free': free})
        return {'id': tid, 'kind': kind, 'permits': permits, 'nc': max(program), 'cfg': cfg, 'program': program,
                'schedule': list(sch.choices), 'ev': ev}
    finally:
        for c in list(caches.values()) + [base]:
            try:
                c.close()
            except Exception:
                pass
        interpose.set_listener(None)
        envctl.SeededUrandom.uninstall()
        envctl.rm(d)


def run_fork_rlock(kind, seed=0, tid=1):
    """A resource object constructed BEFORE fork: the child must not be taken for the holder."""
    import diskcache
    d = envctl.scratch('lkf')
    try:
        cache = diskcache.Cache(d)
        res = _mk(kind, cache, 1, diskcache)
        res.acquire()
        r, w = os.pipe()
        pid = os.fork()
        if pid == 0:
            try:
                res.release()
                os.write(w, b'none')
            except AssertionError:
                os.write(w, b'AssertionError')
            except BaseException as exc:
                os.write(w, type(exc).__name__.encode())
            os._exit(0)
        os.close(w)
        os.waitpid(pid, 0)
        out = os.read(r, 100).decode()
        os.close(r)
        ev = [{'ev': 'call', 'c': 1, 'op': 'acquire'}, {'ev': 'ret', 'c': 1, 'op': 'acquire', 'ret': R('none')},
              {'ev': 'enter', 'c': 1},
              {'ev': 'call', 'c': 2, 'op': 'bad_release'}, {'ev': 'ret', 'c': 2, 'op': 'bad_release', 'ret': R(out)}]
        # the parent still holds it (unless the child's release was wrongly accepted)
        ev.append({'ev': 'exit', 'c': 1})
        try:
            res.release()
            ev.append({'ev': 'ret', 'c': 1, 'op': 'release', 'ret': R('none')})
        except AssertionError:
            ev.append({'ev': 'ret', 'c': 1, 'op': 'release', 'ret': R('AssertionError')})
        ev.append({'ev': 'final', 'c': 0, 'free': 1})
        cache.close()
        return {'id': tid, 'kind': kind, 'permits': 1, 'nc': 2, 'cfg': {'kind': kind, 'fork': 1},
                'program': 'holder in the parent, release attempted by a forked child', 'schedule': [], 'ev': ev}
    finally:
        envctl.rm(d)
