"""C17 driver: damage a real cache directory behind the library's back, then
check(), check(fix=True), check(); observations are taken with plain SQL and
os.walk."""
import os
import random
import sqlite3
import warnings

from . import envctl
from .adapters import ValMap
from .envctl import MachineryError

DAMAGES = ['delete-file', 'truncate-file', 'truncate-zero', 'extend-file', 'add-file-existing-dir', 'add-file-new-dir',
           'add-file-top', 'add-file-level1', 'add-empty-leaf', 'add-empty-level1', 'add-empty-nested', 'count+1', 'count-1',
           'size+5', 'size-3', 'partial-debris']
EMPTY_DAMAGES = ['add-file-new-dir', 'add-file-top', 'add-file-level1', 'add-empty-leaf', 'add-empty-nested', 'count+1', 'count-1',
                 'size+5', 'size-3', 'partial-debris']      # what can happen to a shard without items (negative counters included)


class Raised:
    def __init__(self, exc):
        self.message = 'check raised %s' % type(exc).__name__


def checked(obj, **kw):
    """obj.check(**kw), total"""
    try:
        return obj.check(**kw)
    except Exception as exc:
        return [Raised(exc)]


class Observer:
    def __init__(self, root):
        self.root = root
        self.fids = {}
        self.dids = {root: 0}
        self.vm = ValMap()

    def fid(self, path):
        rel = os.path.relpath(path, self.root)
        return self.fids.setdefault(rel, len(self.fids) + 1)

    def did(self, path):
        return self.dids.setdefault(path, len(self.dids))

    def observe(self, disk):
        con = sqlite3.connect(os.path.join(self.root, 'cache.db'))
        rows = []
        for key, raw, size, mode, filename, value in con.execute(
                'SELECT key, raw, size, mode, filename, value FROM Cache ORDER BY rowid').fetchall():
            fid = -1 if filename is None else self.fid(os.path.join(self.root, filename))
            try:
                v = self.vm.to_model(disk.fetch(mode, filename, value, False))
                if filename is not None and os.path.getsize(os.path.join(self.root, filename)) != size:
                    v = v if v >= 0 else -1
            except Exception:
                v = -2
            rows.append([int(key) if isinstance(key, int) else -1, fid, size, v])
        st = dict(con.execute('SELECT key, value FROM Settings').fetchall())
        con.close()
        files, dirs = [], []
        for dp, dn, fn in os.walk(self.root):
            d = self.did(dp)
            nfiles = 0
            for f in fn:
                if 'cache.db' in f:
                    continue
                nfiles += 1
                full = os.path.join(dp, f)
                files.append([self.fid(full), os.path.getsize(full), d])
            dirs.append([d, self.did(os.path.dirname(dp)) if dp != self.root else 0,
                         nfiles + (1 if dp == self.root else 0), len(dn)])
        return {'rows': rows, 'files': sorted(files), 'dirs': sorted(dirs), 'ctr': [st['count'], st['size']]}

    def warn_list(self, ws):
        out = []
        for w in ws:
            if isinstance(w, Raised):
                out.append(['raised', 0])        # check() itself failed: a result the specification judges
                continue
            m = str(w.message)
            if m.startswith('unknown file: '):
                out.append(['unknown-file', self.fid(m[len('unknown file: '):])])
            elif m.startswith('empty directory: '):
                out.append(['empty-dir', self.did(m[len('empty directory: '):])])
            elif m.startswith('file not found: '):
                out.append(['file-not-found', self.fid(m[len('file not found: '):])])
            elif m.startswith('wrong file size: '):
                out.append(['wrong-size', self.fid(m[len('wrong file size: '):].split(',')[0])])
            elif 'Settings.count' in m:
                out.append(['count', 0])
            elif 'Settings.size' in m:
                out.append(['size', 0])
            else:
                out.append(['other', 0])
        return sorted(out)


def run_damage(kind, damages, seed=0, tid=1):
    """kind: 'cache' or 'fanout' (the damage is done to shard 001 of a 2-shard FanoutCache); '-large': > 100 file-backed items"""
    import diskcache
    kind0 = kind
    reps = 2
    if kind.endswith('-large'):
        # more than one page (100) of file-backed items in the damaged cache / shard
        kind = kind[:-6]
        reps = 40
    empty = kind == 'fanout-empty'      # the damaged shard never received a key (its item counter is 0)
    if empty:
        kind = 'fanout'
    link = kind == 'cache-symlink'     # the directory is opened through a symbolic link (a non-canonical spelling of its path)
    if link:
        kind = 'cache'
    rng = random.Random(seed)
    envctl.SeededUrandom(seed).install()
    top = real_top = envctl.scratch('chk')
    if link:
        top = real_top + '-link'
        os.symlink(real_top, top)
    vm = ValMap()
    try:
        if kind == 'fanout':
            obj = diskcache.FanoutCache(top, shards=2)
            root = os.path.join(top, '001')
        else:
            obj = diskcache.Cache(top)
            root = top
        # integer keys; values: three file-backed, two inline
        vals = [200000 + 40 * 100 + 1, 200000 + 36 * 100 + 2, 300000 + 36 * 100 + 4, 5, 100001, 200000 + 44 * 100 + 6, 7,
                400000 + 40 * 100 + 3]
        for i, v in enumerate(vals * reps):
            obj.set(2 * i if empty else i, vm.to_py(v))        # (even integers live in shard 000 of two)
        if not empty:
            import io as _io
            obj.set(1001, _io.BytesIO(b''), read=True)         # a value of length zero kept in a file (shard 001)
        obj.close()
        con = sqlite3.connect(os.path.join(root, 'cache.db'))
        frows = con.execute('SELECT rowid, filename, size FROM Cache WHERE filename IS NOT NULL ORDER BY rowid').fetchall()
        con.close()
        if empty and frows:
            raise MachineryError('the shard that was to stay empty holds items')
        if len(frows) < 2 and not empty:
            raise MachineryError('damage target shard has too few file-backed items')
        used = set()

        def victim():
            cand = [r for r in frows if r[0] not in used] or frows
            r = rng.choice(cand)
            used.add(r[0])
            return os.path.join(root, r[1]), r[2]
        for dmg in damages:
            if dmg == 'delete-file':
                os.remove(victim()[0])
            elif dmg == 'truncate-file':
                p, sz = victim()
                with open(p, 'r+b') as f:
                    f.truncate(max(1, sz // 2))
            elif dmg == 'truncate-zero':
                with open(victim()[0], 'r+b') as f:
                    f.truncate(0)
            elif dmg == 'extend-file':
                with open(victim()[0], 'ab') as f:
                    f.write(b'x' * 17)
            elif dmg == 'add-file-existing-dir':
                p, _ = victim()
                used.discard(None)
                open(os.path.join(os.path.dirname(p), 'stray%d.val' % rng.randrange(1000)), 'wb').write(b'stray')
            elif dmg == 'add-file-new-dir':
                d = os.path.join(root, 'zz', 'yy')
                os.makedirs(d, exist_ok=True)
                open(os.path.join(d, 'unknown.val'), 'wb').write(b'debris')
            elif dmg == 'add-file-top':
                open(os.path.join(root, 'stray-top.val'), 'wb').write(b'top')
            elif dmg == 'add-file-level1':
                d = os.path.join(root, 'qq')
                os.makedirs(d, exist_ok=True)
                open(os.path.join(d, 'lvl1.val'), 'wb').write(b'l1')
            elif dmg == 'add-empty-leaf':
                os.makedirs(os.path.join(root, 'e1', 'e2'), exist_ok=True)
            elif dmg == 'add-empty-level1':
                os.makedirs(os.path.join(root, 'e3'), exist_ok=True)
            elif dmg == 'add-empty-nested':
                os.makedirs(os.path.join(root, 'n1', 'n2', 'n3'), exist_ok=True)
            elif dmg == 'partial-debris':
                d = os.path.join(root, 'pp', 'dd')
                os.makedirs(d, exist_ok=True)
                open(os.path.join(d, 'half-written.val'), 'wb').write(b'B2')
            else:
                con = sqlite3.connect(os.path.join(root, 'cache.db'))
                if dmg.endswith('=0'):
                    con.execute('UPDATE Settings SET value = 0 WHERE key = ?', (dmg[:-2],))       # a zeroed counter
                    delta = 0
                else:
                    col, delta = (dmg[:-2], int(dmg[-2:])) if dmg[-2] in '+-' else (dmg, 0)
                    con.execute('UPDATE Settings SET value = value + ? WHERE key = ?', (delta, col))
                con.commit()
                con.close()
        ob = Observer(root)
        obj = diskcache.FanoutCache(top, shards=2) if kind == 'fanout' else diskcache.Cache(top, timeout=0.01)
        shard = obj._shards[1] if kind == 'fanout' else obj
        disk = shard.disk
        obs0 = ob.observe(disk)
        # another client holds the write lock of the (damaged) database for a moment: a check that returns must be complete
        busy, raised0, warn0 = (1 if rng.random() < 0.5 else 0), 0, []
        if busy:
            holder = sqlite3.connect(os.path.join(root, 'cache.db'), timeout=0, isolation_level=None)
            holder.execute('BEGIN IMMEDIATE')
            try:
                with warnings.catch_warnings(record=True):
                    warnings.simplefilter('always')
                    r0 = obj.check()
                if kind == 'fanout':
                    r0 = [w for w in r0 if root in str(w.message) or 'Settings.' in str(w.message)]
                warn0 = ob.warn_list(r0)
            except Exception:
                raised0 = 1
            finally:
                holder.execute('ROLLBACK')
                holder.close()
        with warnings.catch_warnings(record=True) as w1:
            warnings.simplefilter('always')
            r1 = checked(obj)
        if kind == 'fanout':
            r1 = [w for w in r1 if root in str(w.message) or 'Settings.' in str(w.message) or isinstance(w, Raised)]
        obs1 = ob.observe(disk)
        r2 = checked(obj, fix=True)
        if kind == 'fanout':
            r2 = [w for w in r2 if root in str(w.message) or 'Settings.' in str(w.message) or isinstance(w, Raised)]
        obs2 = ob.observe(disk)
        r3 = checked(obj)
        obj.close()
        return {'id': tid, 'kind': kind0, 'damages': damages, 'obs0': obs0, 'obs1': obs1, 'obs2': obs2,
                'warn1': ob.warn_list(r1), 'warn2': ob.warn_list(r2), 'warn3': ob.warn_list(r3), 'ev': [1],
                'busy': busy, 'raised0': raised0, 'warn0': warn0}
    finally:
        envctl.SeededUrandom.uninstall()
        if top != real_top:
            os.unlink(top)
        envctl.rm(real_top)
