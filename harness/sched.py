"""Deterministic scheduler over real threads + boundary-event recorder.

Every client is a real thread running real diskcache calls.  The library
reaches shared state only through SQLite statements and file-system calls;
both are interposed (harness/interpose.py).  Before each such call the client
publishes what it is about to do and blocks until the scheduler releases it,
so exactly one client runs at any time and the recorded events are totally
ordered.  Caches are opened with timeout=0: a BEGIN IMMEDIATE against a held
write lock fails at once (a logged "busy" step) instead of sleeping inside
SQLite.

Yield rule: a statement is a scheduling point unless its connection holds
the write lock (statements inside a held write transaction cannot be
observed by others: WAL snapshot isolation, trusted).  File operations,
BEGIN, COMMIT and everything outside a write transaction are scheduling
points.
"""
import os
import sys
import threading
import time

from . import interpose
from .envctl import MachineryError

WRITE_HEADS = ('INSERT', 'UPDATE', 'DELETE', 'REPLAC')


class Stop(BaseException):
    """Raised inside a client thread to abandon it (kill / teardown)."""


class Client:
    def __init__(self, cid, program, warmup=None):
        self.cid = cid
        self.program = program          # callable(client) run in the thread
        self.warmup = warmup            # callable() run in the thread, unscheduled and unrecorded
        self.ready = threading.Event()
        self.thread = None
        self.pending = None             # description of the step it waits to take
        self.done = False
        self.error = None
        self.killed = False
        self.conns = set()


class Scheduler(interpose.Listener):
    def __init__(self, root, snapshot, strategy, max_steps=4000, busy_budget=3):
        self.root = root
        self.snapshot = snapshot        # callable(conn) -> dict with rows/ctr (taken through conn)
        self.strategy = strategy        # callable(list of enabled clients, scheduler) -> client
        self.cv = threading.Condition()
        self.baton = None               # cid allowed to run, None = scheduler
        self.clients = {}
        self.by_thread = {}
        self.events = []
        self.locks = {}                 # database path -> conn object holding its write lock
        self.txn = {}                   # conn -> True when inside BEGIN..COMMIT
        self.conn_client = {}
        self.file_ids = {}
        self.steps = 0
        self.max_steps = max_steps
        self.busy_budget = busy_budget
        self.busy_count = {}
        self.fault = None               # callable(kind, desc, client) -> exception or None (at yield points)
        self.inject = None              # callable(kind, desc, client) -> exception or None (every statement / file op)
        self.choices = []               # the schedule actually taken (client ids)
        self.page_size = 4096
        self.progress = 0
        self.progress_events = ('commit', 'awrite', 'ret', 'exit', 'enter')
        self.prog = {}
        self.spin_budget = 2
        self.vclock = None              # virtual-time clock for sleeping clients (throttle)
        self.yield_in_txn = False       # also yield at statements inside a held write transaction (threads sharing an object)
        self.yield_after_release = False  # also yield straight after COMMIT / ROLLBACK released the lock
        self.line_yields = None         # directory: also yield before every Python line executed in files under it

    # ------------------------------------------------------------------ ids
    def fid(self, path):
        rel = os.path.relpath(path, self.root)
        if rel not in self.file_ids:
            self.file_ids[rel] = len(self.file_ids) + 1
        return self.file_ids[rel]

    def me(self):
        return self.by_thread.get(threading.get_ident())

    def emit(self, ev):
        ev['seq'] = len(self.events) + 1
        self.events.append(ev)
        if ev.get('ev') in self.progress_events:
            self.progress += 1
            self.prog[ev.get('c')] = self.prog.get(ev.get('c'), 0) + 1

    # ------------------------------------------------------- client side
    @property
    def lock_holder(self):
        """the (single) holder when one database is watched; None when no lock is held"""
        for v in self.locks.values():
            return v
        return None

    def yield_point(self, kind, desc, path=None, nofault=False):
        c = self.me()
        if c is None:
            return
        with self.cv:
            c.pending = (kind, desc, path)
            self.baton = None
            self.cv.notify_all()
            while self.baton != c.cid:
                self.cv.wait()
            c.pending = None
            if c.killed:
                raise Stop()
        if self.fault is not None and not nofault:
            exc = self.fault(kind, desc, c)
            if exc is not None:
                raise exc

    def others(self, c):
        """progress made by the other clients (a spinner's own failed attempts do not count)"""
        return self.progress - self.prog.get(c.cid, 0)

    def vsleep(self, delay):
        """Sleep in virtual time (throttle): the client wakes when the virtual clock reaches now + delay."""
        c = self.me()
        # a real sleep always lets some time pass, even when the requested delay is lost in float rounding
        c.wake = max(self.vclock.now + delay, self.vclock.now + 1e-6)
        self.yield_point('vsleep', 'vsleep')

    @staticmethod
    def dbpath(conn):
        return getattr(conn, '_verif_path', None)

    def holds_lock(self, conn):
        return self.locks.get(self.dbpath(conn)) is conn

    # interpose.Listener ---------------------------------------------------
    def foreign(self, conn):
        """A connection to a database outside the directory under test (Deque.reverse and Cache() without a directory work
        through a temporary cache of their own): not scheduled, not recorded."""
        p = self.dbpath(conn)
        return p is not None and self.root is not None and not os.path.abspath(str(p)).startswith(os.path.abspath(str(self.root)))

    def sql_before(self, conn, sql, params):
        c = self.me()
        if c is None or self.foreign(conn):
            return
        self.conn_client[id(conn)] = c.cid
        c.pending_conn = id(conn)
        head = sql.lstrip()[:6].upper()
        if self.inject is not None and head not in ('COMMIT', 'ROLLBA'):
            exc = self.inject('sql', head, c)
            if exc is not None:
                raise exc
        if self.holds_lock(conn) and head not in ('COMMIT', 'ROLLBA') and not self.yield_in_txn:
            return                      # inside a held write transaction: not observable to other connections
        if head == 'COMMIT' and self.holds_lock(conn):
            # snapshot through the writer's own connection, immediately before COMMIT
            conn._verif_snap = self.snapshot(conn)
        self.yield_point('sql', head, self.dbpath(conn))

    def sql_after(self, conn, sql, params, rows, error):
        c = self.me()
        if c is None or self.foreign(conn):
            return
        s = sql.lstrip()
        head = s[:6].upper()
        cid = c.cid
        if head == 'BEGIN ' or head == 'BEGIN':
            kind = 'immediate' if 'IMMEDIATE' in s.upper() else 'exclusive' if 'EXCLUSIVE' in s.upper() else 'deferred'
            if error is None:
                if kind != 'deferred':
                    self.locks[self.dbpath(conn)] = conn
                self.txn[id(conn)] = True
                self.busy_count[cid] = 0
                self.emit({'ev': 'begin', 'c': cid, 'ok': 1, 'kind': kind})
            else:
                self.busy_count[cid] = self.busy_count.get(cid, 0) + 1
                self.emit({'ev': 'begin', 'c': cid, 'ok': 0, 'kind': kind})
        elif head == 'COMMIT':
            if error is None:
                snap = getattr(conn, '_verif_snap', None)
                if snap is None:
                    snap = self.snapshot(conn)
                ev = {'ev': 'commit', 'c': cid}
                ev.update(snap)
                self.emit(ev)
                if self.holds_lock(conn):
                    self.locks.pop(self.dbpath(conn), None)
                self.txn.pop(id(conn), None)
                conn._verif_snap = None
                if self.yield_after_release:
                    self.yield_point('post', 'released', nofault=True)
            else:
                self.emit({'ev': 'sqlerr', 'c': cid, 'what': 'commit'})
        elif head == 'ROLLBA':
            self.emit({'ev': 'rollback', 'c': cid})
            if self.holds_lock(conn):
                self.locks.pop(self.dbpath(conn), None)
            self.txn.pop(id(conn), None)
            if self.yield_after_release:
                self.yield_point('post', 'released', nofault=True)
        elif head in WRITE_HEADS:
            if error is not None:
                self.emit({'ev': 'sqlerr', 'c': cid, 'what': 'write'})
            elif not self.txn.get(id(conn)):
                ev = {'ev': 'awrite', 'c': cid}
                ev.update(self.snapshot(conn))
                self.emit(ev)
            elif self.locks.get(self.dbpath(conn)) is None and self.txn.get(id(conn)):
                # first write of a deferred transaction takes the lock
                self.locks[self.dbpath(conn)] = conn
        elif error is not None:
            self.emit({'ev': 'sqlerr', 'c': cid, 'what': 'read'})
        elif rows and s.upper().startswith('PRAGMA PAGE_COUNT'):
            self.emit({'ev': 'pages', 'c': cid, 'pb': rows[0][0] * self.page_size})

    def file_before(self, kind, path):
        c = self.me()
        if c is None:
            return
        if self.inject is not None:
            exc = self.inject('file', kind, c)
            if exc is not None:
                raise exc
        self.yield_point('file', kind)

    def file_after(self, kind, path, info, error):
        c = self.me()
        if c is None:
            return
        if kind in ('mkdir', 'rmdir'):
            return                      # directories: only files are judged (an empty directory is harmless)
        ev = {'ev': kind, 'c': c.cid, 'f': self.fid(path), 'ok': 0 if error is not None else 1}
        if kind == 'fwrite' and info is not None:
            ev['n'] = info
        self.emit(ev)

    # --------------------------------------------------------- scheduler side
    def add_client(self, cid, program, warmup=None):
        self.clients[cid] = Client(cid, program, warmup)

    def _make_tracer(self):
        """Threads sharing one object also share its attributes: every line of the library becomes a scheduling point
        (switches between two Python statements with no database or file operation between them)."""
        root = self.line_yields
        sched = self

        def local(frame, event, arg):
            if event == 'line':
                sched.yield_point('line', 'line', nofault=True)
            return local

        def tracer(frame, event, arg):
            if event == 'call' and frame.f_code.co_filename.startswith(root):
                return local
            return None
        return tracer

    def _body(self, c):
        try:
            if c.warmup is not None:
                c.warmup()
        except BaseException:
            import traceback
            c.error = traceback.format_exc()
        self.by_thread[threading.get_ident()] = c
        c.ready.set()
        try:
            with self.cv:
                while self.baton != c.cid:
                    self.cv.wait()
            if not c.killed:
                if self.line_yields:
                    sys.settrace(self._make_tracer())
                try:
                    c.program(c)
                finally:
                    if self.line_yields:
                        sys.settrace(None)
        except Stop:
            pass
        except BaseException as exc:            # client programs catch library exceptions themselves
            import traceback
            c.error = traceback.format_exc()
        finally:
            with self.cv:
                c.done = True
                c.pending = None
                self.baton = None
                self.cv.notify_all()

    def blocked(self, c):
        """A client about to BEGIN against a held lock is not scheduled unless
        the strategy wants busy attempts (bounded)."""
        if c.pending and c.pending[0] == 'sql' and c.pending[1].startswith('BEGIN'):
            holder = self.locks.get(c.pending[2])
            if holder is None or self.conn_client.get(id(holder)) == c.cid:
                return False
            return self.busy_count.get(c.cid, 0) >= self.busy_budget
        if c.pending and c.pending[0] == 'sleep':
            # a spinning client is not scheduled again until somebody else made progress
            return getattr(c, 'spins', 0) >= self.spin_budget and getattr(c, 'seen', -1) == self.others(c)
        if c.pending and c.pending[0] == 'vsleep':
            return self.vclock is not None and self.vclock.now < c.wake
        return False

    def run(self):
        interpose.set_listener(self, self.root)
        real_sleep = time.sleep
        sched = self

        def sleep(t):
            c = sched.me()
            if c is not None:
                if getattr(c, 'seen', -1) == sched.others(c):
                    c.spins = getattr(c, 'spins', 0) + 1
                else:
                    c.spins, c.seen = 1, sched.others(c)
                sched.yield_point('sleep', 'sleep')
            else:
                real_sleep(t)
        time.sleep = sleep
        try:
            for c in self.clients.values():
                c.pending = ('start', 'start')
                c.thread = threading.Thread(target=self._body, args=(c,), daemon=True)
                c.thread.start()
                if not c.ready.wait(60):
                    raise MachineryError('client %r warm-up did not finish' % c.cid)
            while True:
                with self.cv:
                    while self.baton is not None:
                        if not self.cv.wait(timeout=60):
                            raise MachineryError('scheduler: client %r did not yield within 60 s (pending=%r)'
                                                 % (self.baton, {k: v.pending for k, v in self.clients.items()}))
                    live = [c for c in self.clients.values() if not c.done]
                    if not live:
                        break
                    enabled = [c for c in live if not self.blocked(c)]
                    if not enabled and self.vclock is not None and any(c.pending and c.pending[0] == 'vsleep' for c in live):
                        # everybody sleeps: virtual time jumps to the earliest wake-up
                        self.vclock.now = min(c.wake for c in live if c.pending and c.pending[0] == 'vsleep')
                        enabled = [c for c in live if not self.blocked(c)]
                    if not enabled:
                        # everybody spins on a lock nobody will release: give up this schedule
                        self.emit({'ev': 'stuck', 'c': 0})
                        for c in live:
                            c.killed = True
                        enabled = live
                    self.steps += 1
                    if self.steps > self.max_steps:
                        for c in live:
                            c.killed = True
                        self.emit({'ev': 'stuck', 'c': 0})
                    pick = self.strategy(sorted(enabled, key=lambda x: x.cid), self)
                    self.choices.append(pick.cid)
                    self.baton = pick.cid
                    self.cv.notify_all()
            for c in self.clients.values():
                c.thread.join(10)
        finally:
            time.sleep = real_sleep
            interpose.set_listener(None)
        errs = [c.error for c in self.clients.values() if c.error]
        if errs:
            raise MachineryError('client program crashed:\n' + errs[0])
        return self.events


# ----------------------------------------------------------------- strategies
def scripted(order, fallback=None):
    """Follow a list of client ids; when the scripted client is not enabled take
    the first enabled one (the trace is validated whatever is executed)."""
    it = iter(order)

    def choose(enabled, sched):
        ids = [c.cid for c in enabled]
        for cid in it:
            if cid in ids:
                return enabled[ids.index(cid)]
        return enabled[0]
    return choose


def scripted_phases(order):
    """Follow a client order produced by TLC from the design model (CacheConcPlan).  One entry of the order is
    one step of the MODEL (create file, close file, BEGIN, SELECT, COMMIT, cleanup, read row, open file); the
    real code takes several boundary steps for some of them (mkdir, write chunks, rmdir ...), so an entry is
    consumed only when the running client reaches a step that starts a new model step."""
    it = iter(order)
    cur = [None]
    BOUNDARY = ('call', 'start')

    def new_model_step(c):
        p = c.pending
        if p is None:
            return True
        kind, desc = p[0], p[1]
        if kind in BOUNDARY:
            return True
        if kind == 'sql':
            return desc.startswith('BEGIN') or desc.startswith('COMMIT') or desc.startswith('ROLLBA') or desc.startswith('SELECT')
        if kind == 'file':
            return desc in ('fcreate', 'fclose', 'fopen', 'fremove')
        return True

    def choose(enabled, sched):
        ids = [c.cid for c in enabled]
        if cur[0] in ids and not new_model_step(enabled[ids.index(cur[0])]):
            return enabled[ids.index(cur[0])]
        for cid in it:
            if cid in ids:
                cur[0] = cid
                return enabled[ids.index(cid)]
        cur[0] = ids[0]
        return enabled[0]
    return choose


def random_strategy(rng, stickiness=0.5):
    last = [None]

    def choose(enabled, sched):
        ids = [c.cid for c in enabled]
        if last[0] in ids and rng.random() < stickiness:
            return enabled[ids.index(last[0])]
        c = rng.choice(enabled)
        last[0] = c.cid
        return c
    return choose


def hunter_strategy(rng, stickiness=0.6):
    """Random schedules that go for the windows a broken transaction discipline opens: when the running client is
    about to write OUTSIDE a transaction (on the unchanged tree no data operation does), or has just released the
    lock, another client is run until it blocks or ends before the first one continues."""
    last = [None]
    guest = [None]

    def exposed(c, sched):
        p = c.pending
        if p is None:
            return False
        if p[0] == 'post':
            return True
        return p[0] == 'sql' and p[1] in WRITE_HEADS and not sched.txn.get(getattr(c, 'pending_conn', None))

    def choose(enabled, sched):
        ids = [c.cid for c in enabled]
        if guest[0] in ids:
            return enabled[ids.index(guest[0])]
        guest[0] = None
        if last[0] in ids:
            cur = enabled[ids.index(last[0])]
            others = [c for c in enabled if c.cid != last[0]]
            if others and exposed(cur, sched) and rng.random() < 0.7:
                g = rng.choice(others)
                guest[0] = g.cid
                return g
            if rng.random() < stickiness:
                return cur
        c = rng.choice(enabled)
        last[0] = c.cid
        return c
    return choose


def pct_strategy(rng, nclients, depth, est_steps):
    """PCT: random priorities, depth-1 priority change points."""
    prio = {c: rng.random() + 1 for c in range(1, nclients + 1)}
    changes = sorted(rng.randrange(1, max(2, est_steps)) for _ in range(max(0, depth - 1)))
    state = {'n': 0}

    def choose(enabled, sched):
        state['n'] += 1
        best = max(enabled, key=lambda c: prio[c.cid])
        if changes and state['n'] >= changes[0]:
            changes.pop(0)
            prio[best.cid] = rng.random() * 0.5
            best = max(enabled, key=lambda c: prio[c.cid])
        return best
    return choose


class DFSExplorer:
    """Stateless exhaustive enumeration of schedules (bounded by preemptions).
    Use: ex = DFSExplorer(bound); while ex.next(): run with ex.strategy()"""

    def __init__(self, preemption_bound=2, max_runs=100000):
        self.stack = []             # list of [choices(list of cids), index]
        self.first = True
        self.bound = preemption_bound
        self.runs = 0
        self.max_runs = max_runs

    def next(self):
        if self.first:
            self.first = False
            self.runs += 1
            return True
        while self.stack and self.stack[-1][1] + 1 >= len(self.stack[-1][0]):
            self.stack.pop()
        if not self.stack or self.runs >= self.max_runs:
            return False
        self.stack[-1][1] += 1
        self.runs += 1
        return True

    def strategy(self):
        depth = [0]
        prev = [None]
        preempts = [0]
        stack = self.stack

        def choose(enabled, sched):
            ids = [c.cid for c in enabled]
            d = depth[0]
            depth[0] += 1
            if d < len(stack):
                opts, i = stack[d]
                cid = opts[i]
                if cid not in ids:          # nondeterminism in the run: fall back
                    cid = ids[0]
            else:
                # order: continue with the previous client first (no preemption)
                opts = list(ids)
                if prev[0] in opts:
                    opts.remove(prev[0])
                    opts.insert(0, prev[0])
                    if preempts[0] >= self.bound:
                        opts = opts[:1]
                stack.append([opts, 0])
                cid = opts[0]
            if prev[0] is not None and cid != prev[0] and prev[0] in ids:
                preempts[0] += 1
            prev[0] = cid
            return enabled[ids.index(cid)]
        return choose
