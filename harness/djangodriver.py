"""C19 driver: DjangoCache (or Django's LocMemCache as the cross-check of the spec)."""
import os

from . import envctl
from .adapters import R
from .envctl import MachineryError

KEYS = ['a', 'b', 'key3']


def tm_py(tm, DEFAULT):
    if tm[0] == 'd':
        return DEFAULT
    if tm[0] == 'n':
        return None
    return tm[1]


def run(cfg, ops, impl='diskcache', seed=0, tid=1):
    from django.core.cache.backends.base import DEFAULT_TIMEOUT
    clock = envctl.Clock().install()
    envctl.SeededUrandom(seed).install()
    d = envctl.scratch('dj')
    params = {'KEY_PREFIX': cfg['prefix'], 'VERSION': cfg['version']}
    t = cfg['timeout']
    params['TIMEOUT'] = None if t[0] == 'n' else t[1]
    try:
        if impl == 'locmem':
            from django.core.cache.backends.locmem import LocMemCache
            c = LocMemCache('verif-%d-%d' % (os.getpid(), tid), dict(params, OPTIONS={'MAX_ENTRIES': 100000}))
            c.clear()
        else:
            from diskcache.djangocache import DjangoCache
            c = DjangoCache(d, dict(params, SHARDS=cfg['shards']))
        ev = []
        for op in ops:
            name, a = op['op'], dict(op.get('a', {}))
            now = clock.tick
            ver = a.get('ver', 0) or None
            # DEFAULT timeout = the argument is simply not given (exercises the signatures' defaults)
            tkw = {} if a.get('tm', ['d'])[0] == 'd' else {'timeout': tm_py(a['tm'], DEFAULT_TIMEOUT)}
            try:
                if name == 'tick':
                    clock.advance(a.get('n', 1)); ret = R('none')
                elif name == 'set':
                    c.set(a['k'], a['v'], version=ver, **tkw); ret = R('none')
                elif name == 'add':
                    ret = R('true' if c.add(a['k'], a['v'], version=ver, **tkw) else 'false')
                elif name == 'get':
                    r = c.get(a['k'], version=ver); ret = R('none') if r is None else R('val', [r])
                elif name == 'read':
                    # DjangoCache extension: read(key, version) - the value (a handle for a value kept in a file), KeyError when absent
                    try:
                        r = c.read(a['k'], version=ver)
                        if hasattr(r, 'read'):
                            with r:
                                r = r.read()
                        ret = R('val', [r]) if type(r) is int else R('weird')
                    except KeyError:
                        ret = R('KeyError')
                elif name == 'touch':
                    ret = R('true' if c.touch(a['k'], version=ver, **tkw) else 'false')
                elif name == 'delete':
                    ret = R('true' if c.delete(a['k'], version=ver) else 'false')
                elif name == 'has_key':
                    ret = R('true' if c.has_key(a['k'], version=ver) else 'false')
                elif name == 'incr':
                    r = c.incr(a['k'], a['d'], version=ver) if a['d'] >= 0 else c.decr(a['k'], -a['d'], version=ver)
                    ret = R('int', [r])
                elif name == 'pop':
                    if impl == 'locmem':
                        r = c.get(a['k'], version=ver); c.delete(a['k'], version=ver)
                    elif a.get('fx') or a.get('ft'):
                        # DjangoCache extension: pop(..., expire_time=, tag=)
                        r = c.pop(a['k'], version=ver, expire_time=bool(a.get('fx')), tag=bool(a.get('ft')))
                        parts = list(r) if isinstance(r, tuple) else [r]
                        if parts[0] is None:
                            r = None
                        else:
                            vals_ = [parts[0]]
                            i_ = 1
                            if a.get('fx'):
                                x_ = parts[i_] if i_ < len(parts) else 'absent'
                                vals_.append(-1000000 if x_ is None else int(round(x_ - 2 ** 30)) if isinstance(x_, (int, float)) else -7777)
                                i_ += 1
                            if a.get('ft'):
                                x_ = parts[i_] if i_ < len(parts) else 'absent'
                                vals_.append(0 if x_ is None else int(x_[1:]) if isinstance(x_, str) and x_[:1] == 't' and x_[1:].isdigit() else -7777)
                            ret = R('val', vals_)
                            r = 'done'
                    else:
                        r = c.pop(a['k'], version=ver)
                    if r != 'done':
                        ret = R('none') if r is None else R('val', [r])
                elif name == 'get_many':
                    r = c.get_many(a['ks'], version=ver)
                    ret = R('pairs', [[k, r[k]] for k in a['ks'] if k in r])
                elif name == 'set_many':
                    r = c.set_many(dict((k, v) for k, v in a['pairs']), version=ver, **tkw)
                    ret = R('list', list(r))
                elif name == 'delete_many':
                    c.delete_many(a['ks'], version=ver); ret = R('none')
                elif name == 'get_or_set':
                    r = c.get_or_set(a['k'], a['v'], version=ver, **tkw)
                    ret = R('none') if r is None else R('val', [r])
                elif name == 'incr_version':
                    r = c.incr_version(a['k'], a['d'], version=ver) if a['d'] > 0 else c.decr_version(a['k'], -a['d'], version=ver)
                    ret = R('int', [r])
                elif name == 'clear':
                    c.clear(); ret = R('none')
                elif name == 'settag':
                    # DjangoCache extension: set(..., tag=)
                    if impl == 'locmem':
                        c.set(a['k'], a['v'], version=ver, **tkw)
                    else:
                        c.set(a['k'], a['v'], version=ver, tag='t%d' % a['tag'], **tkw)
                    ret = R('none')
                elif name in ('expire', 'evict', 'cull'):
                    # DjangoCache extensions forwarding to the FanoutCache: number of items removed
                    r = c.evict('t%d' % a['tag']) if name == 'evict' else getattr(c, name)()
                    ret = R('int', [r])
                else:
                    raise MachineryError('unknown django op ' + name)
            except ValueError:
                ret = R('ValueError')
            # keys travel as code points
            a2 = dict(a)
            if 'k' in a2:
                a2['k'] = [ord(ch) for ch in a2['k']]
            if 'ks' in a2:
                a2['ks'] = [[ord(ch) for ch in k] for k in a2['ks']]
            if 'pairs' in a2:
                a2['pairs'] = [[[ord(ch) for ch in k], v] for k, v in a2['pairs']]
            if ret['k'] == 'pairs':
                ret = R('pairs', [[[ord(ch) for ch in k], v] for k, v in ret['v']])
            a2.setdefault('ver', 0)
            ev.append({'op': name, 'a': a2, 'now': now, 'ret': ret})
        try:
            c.close()
        except Exception:
            pass
        return {'id': tid, 'impl': impl, 'cfg': cfg,
                'init': {'prefix': [ord(ch) for ch in cfg['prefix']], 'version': cfg['version'], 'timeout': cfg['timeout']},
                'ev': ev}
    finally:
        clock.uninstall()
        envctl.SeededUrandom.uninstall()
        envctl.rm(d)


def random_ops(rng, n):
    ops = []
    # 2592000 s = 30 days: the bound above which memcached-style backends read a timeout as an absolute time
    tms = [['d'], ['d'], ['n'], ['t', 0], ['t', -1], ['t', 2], ['t', 5], ['t', 1], ['d'], ['t', 2], ['t', 5], ['t', 2592001]]
    for _ in range(n):
        r = rng.random()
        k = rng.choice(KEYS)
        ver = rng.choice([0, 0, 1, 2])
        tm = rng.choice(tms)
        v = rng.randint(1, 50)
        if r < 0.16:
            o = {'op': 'set', 'a': {'k': k, 'v': v, 'tm': tm, 'ver': ver}}
        elif r < 0.24:
            o = {'op': 'add', 'a': {'k': k, 'v': v, 'tm': tm, 'ver': ver}}
        elif r < 0.36:
            o = {'op': 'get', 'a': {'k': k, 'ver': ver}}
        elif r < 0.38:
            o = {'op': 'read', 'a': {'k': k, 'ver': ver}}
        elif r < 0.46:
            o = {'op': 'touch', 'a': {'k': k, 'tm': tm, 'ver': ver}}
        elif r < 0.52:
            o = {'op': 'delete', 'a': {'k': k, 'ver': ver}}
        elif r < 0.58:
            o = {'op': 'has_key', 'a': {'k': k, 'ver': ver}}
        elif r < 0.66:
            o = {'op': 'incr', 'a': {'k': k, 'd': rng.choice([1, 2, -1]), 'ver': ver}}
        elif r < 0.70:
            o = {'op': 'pop', 'a': {'k': k, 'ver': ver}}
            if rng.random() < 0.5:
                o['a'].update(fx=rng.randrange(2), ft=rng.randrange(2))
        elif r < 0.74:
            o = {'op': 'get_many', 'a': {'ks': rng.sample(KEYS, rng.randint(1, 3)), 'ver': ver}}
        elif r < 0.78:
            ks = rng.sample(KEYS, rng.randint(1, 3))
            o = {'op': 'set_many', 'a': {'pairs': [[kk, rng.randint(1, 50)] for kk in ks], 'tm': tm, 'ver': ver}}
        elif r < 0.80:
            o = {'op': 'delete_many', 'a': {'ks': rng.sample(KEYS, rng.randint(1, 2)), 'ver': ver}}
        elif r < 0.84:
            o = {'op': 'get_or_set', 'a': {'k': k, 'v': v, 'tm': tm, 'ver': ver}}
        elif r < 0.88:
            ver_ = rng.choice([1, 2])
            o = {'op': 'incr_version', 'a': {'k': k, 'd': rng.choice([1, 1, -1]) if ver_ == 2 else 1, 'ver': ver_}}
        elif r < 0.89:
            o = {'op': 'clear', 'a': {}}
        elif r < 0.92:
            o = {'op': 'settag', 'a': {'k': k, 'v': v, 'tm': tm, 'ver': ver, 'tag': rng.choice([1, 2])}}
        elif r < 0.94:
            o = rng.choice([{'op': 'evict', 'a': {'tag': rng.choice([1, 2])}}, {'op': 'expire', 'a': {}}, {'op': 'cull', 'a': {}}])
        else:
            o = {'op': 'tick', 'a': {'n': rng.choice([1, 1, 2, 3] * 6 + [2592000])}}
        ops.append(o)
    return ops
