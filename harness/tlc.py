"""Running TLC and reading what it says."""
import json
import os
import re
import shutil
import subprocess
import tempfile
import time

from . import SPEC, SHM
from .envctl import MachineryError

JAR = '/opt/veriftools/tla/tla2tools.jar'
DEPS = '/opt/veriftools/tla/CommunityModules-deps.jar'


class TLCResult:
    def __init__(self):
        self.rc = None
        self.out = ''
        self.generated = 0
        self.distinct = 0
        self.depth = 0
        self.violation = None        # name of violated invariant/property, or 'deadlock', ...
        self.error = None            # machinery-level error text
        self.verdicts = []           # parsed VERDICT lines
        self.prints = []             # other PrintT payloads starting with a known tag
        self.wall = 0.0
        self.coverage = {}           # action -> (distinct, total)
        self.timed_out = False

    @property
    def ok(self):
        return self.error is None and self.violation is None and not self.timed_out


_RE_STATES = re.compile(r'(\d[\d,]*) states generated, (\d[\d,]*) distinct states found')
_RE_DEPTH = re.compile(r'depth of the complete state graph search is (\d+)')
_RE_INV = re.compile(r'Error: Invariant (\S+) is violated')
_RE_PROP = re.compile(r'Error: Action property (\S+) is violated')
_RE_TEMP = re.compile(r'Error: Temporal properties were violated')
_RE_COV = re.compile(r'^<(\w+) line (\d+), col (\d+) to line (\d+), col (\d+) of module (\w+)>: (\d+):(\d+)', re.M)


def run_tlc(module, cfg, env=None, workers=16, timeout=600, simulate=None, depth=None,
            coverage=False, extra=(), heap='8g', seed=None, deadlock=None, cwd=SPEC,
            dfs=False):
    """Run TLC on SPEC/<module>.tla with SPEC/<cfg>; returns TLCResult."""
    meta = tempfile.mkdtemp(prefix='tlc-', dir=SHM)
    java = ['java', '-XX:+UseParallelGC', '-Xmx' + heap, '-Djava.io.tmpdir=' + meta]   # SANY unpacks its library modules there
    if dfs:
        java.append('-Dtlc2.tool.queue.IStateQueue=StateDeque')
    cmd = java + ['-cp', JAR + ':' + DEPS, 'tlc2.TLC',
                  '-workers', str(workers), '-metadir', meta, '-noGenerateSpecTE',
                  '-config', cfg]
    if simulate:
        cmd += ['-simulate', simulate]
    if depth:
        cmd += ['-depth', str(depth)]
    if coverage:
        cmd += ['-coverage', '1']
    if seed is not None:
        cmd += ['-seed', str(seed)]
    if deadlock is False:
        pass
    cmd += list(extra) + [module]
    e = dict(os.environ)
    e.pop('JAVA_TOOL_OPTIONS', None)
    if env:
        e.update(env)
    res = TLCResult()
    t0 = time.time()
    try:
        p = subprocess.run(cmd, cwd=cwd, env=e, stdout=subprocess.PIPE, stderr=subprocess.STDOUT,
                           timeout=timeout, text=True, errors='replace')
        res.rc = p.returncode
        res.out = p.stdout
    except subprocess.TimeoutExpired as exc:
        res.timed_out = True
        res.out = (exc.stdout or b'').decode('utf-8', 'replace') if isinstance(exc.stdout, bytes) else (exc.stdout or '')
    finally:
        res.wall = time.time() - t0
        shutil.rmtree(meta, ignore_errors=True)
    _parse(res)
    return res


def _parse(res):
    out = res.out
    ms = _RE_STATES.findall(out)
    if ms:
        res.generated = int(ms[-1][0].replace(',', ''))
        res.distinct = int(ms[-1][1].replace(',', ''))
    else:
        # progress lines (timeouts / simulation)
        pm = re.findall(r'(\d[\d,]*) states generated.*?(\d[\d,]*) distinct states found', out)
        if pm:
            res.generated = int(pm[-1][0].replace(',', ''))
            res.distinct = int(pm[-1][1].replace(',', ''))
        sm = re.findall(r'(\d[\d,]*) states checked', out)
        if sm:
            res.generated = max(res.generated, int(sm[-1].replace(',', '')))
    m = _RE_DEPTH.search(out)
    if m:
        res.depth = int(m.group(1))
    m = _RE_INV.search(out) or _RE_PROP.search(out)
    if m:
        res.violation = m.group(1)
    elif _RE_TEMP.search(out):
        res.violation = 'temporal'
    elif 'Error: Deadlock reached' in out:
        res.violation = 'deadlock'
    elif 'is violated' in out and 'Error:' in out:
        res.violation = 'unknown'
    for line in out.splitlines():
        s = line.strip()
        if s.startswith('"VERDICT '):
            try:
                payload = json.loads(s)          # the TLA+ string literal is a JSON string
                res.verdicts.append(json.loads(payload[len('VERDICT '):]))
            except Exception as exc:             # pragma: no cover
                res.error = 'unparsable verdict line: %r (%s)' % (s[:200], exc)
        elif s.startswith('"PLAN ') or s.startswith('"NOTE '):
            try:
                payload = json.loads(s)
                tag, body = payload.split(' ', 1)
                res.prints.append((tag, json.loads(body)))
            except Exception as exc:             # pragma: no cover
                res.error = 'unparsable print line: %r (%s)' % (s[:200], exc)
    if res.error is None and res.violation is None and not res.timed_out:
        bad = None
        for key in ('Parse Error', 'Parsing or semantic analysis failed', 'TLC threw an unexpected exception',
                    'Error: Evaluating', 'Error: The ', 'Error: TLC', 'Error: In evaluation',
                    'Error: Attempted', 'Error: An ', 'java.lang.'):
            if key in out:
                bad = key
                break
        if bad or (res.rc not in (0, None)):
            idx = out.find(bad) if bad else max(0, len(out) - 1500)
            res.error = 'TLC failed (rc=%s): %s' % (res.rc, out[max(0, idx - 200):idx + 1500])
    for m in _RE_COV.finditer(out):
        res.coverage[m.group(1)] = res.coverage.get(m.group(1), 0) + int(m.group(8))


def validate_traces(module, cfg, doc, timeout=900, workers=1, heap='6g', dfs=False, keep=None):
    """Write doc as the TRACE_FILE and run the trace spec; returns (TLCResult, path)."""
    d = tempfile.mkdtemp(prefix='trace-', dir=SHM)
    path = os.path.join(d, 'traces.json')
    with open(path, 'w') as f:
        json.dump(doc, f, separators=(',', ':'))
    try:
        res = run_tlc(module, cfg, env={'TRACE_FILE': path}, workers=workers, timeout=timeout,
                      heap=heap, dfs=dfs)
    finally:
        if keep is None:
            shutil.rmtree(d, ignore_errors=True)
    if res.timed_out:
        raise MachineryError('TLC trace validation timed out after %ss' % timeout)
    if res.error:
        raise MachineryError(res.error)
    if res.violation:
        raise MachineryError('trace spec itself violated %s:\n%s' % (res.violation, res.out[-2000:]))
    ids = [t['id'] for t in doc['traces']]
    got = {}
    for v in res.verdicts:
        got.setdefault(v['id'], []).append(v)
    missing = [i for i in ids if i not in got]
    if missing:
        raise MachineryError('no verdict for traces %s\n%s' % (missing[:10], res.out[-1500:]))
    return res, got


def run_group(cmd, cwd, timeout):
    """Run a prover front end (tlapm, apalache-mc) in its own session and kill the whole session afterwards: their back
    ends (z3, zenon, isabelle/poly) otherwise survive a failed or timed-out run and keep the machine busy for hours."""
    import signal
    p = subprocess.Popen(cmd, cwd=cwd, stdout=subprocess.PIPE, stderr=subprocess.STDOUT, text=True, start_new_session=True)
    try:
        out, _ = p.communicate(timeout=timeout)
        rc = p.returncode
    except subprocess.TimeoutExpired:
        out, rc = 'TIMEOUT', -9
    finally:
        try:
            os.killpg(p.pid, signal.SIGKILL)
        except (ProcessLookupError, PermissionError):
            pass
        try:
            p.communicate(timeout=5)
        except Exception:
            pass
    return rc, out or ''
